; precise model of utf8.DecodeRuneInString on bytes b0..b3 with avail bytes available (avail>=1)
(define-fun cont ((b Int)) Bool (and (<= 128 b) (<= b 191)))
(define-fun lead2 ((b Int)) Bool (and (<= 194 b) (<= b 223)))
(define-fun lead3 ((b Int)) Bool (and (<= 224 b) (<= b 239)))
(define-fun lead4 ((b Int)) Bool (and (<= 240 b) (<= b 244)))
(define-fun acc1 ((b0 Int) (b1 Int)) Bool
  (ite (= b0 224) (and (<= 160 b1) (<= b1 191))
  (ite (= b0 237) (and (<= 128 b1) (<= b1 159))
  (ite (= b0 240) (and (<= 144 b1) (<= b1 191))
  (ite (= b0 244) (and (<= 128 b1) (<= b1 143))
       (cont b1))))))
(define-fun width ((b0 Int) (b1 Int) (b2 Int) (b3 Int) (avail Int)) Int
  (ite (< b0 128) 1
  (ite (and (lead2 b0) (>= avail 2) (acc1 b0 b1)) 2
  (ite (and (lead3 b0) (>= avail 3) (acc1 b0 b1) (cont b2)) 3
  (ite (and (lead4 b0) (>= avail 4) (acc1 b0 b1) (cont b2) (cont b3)) 4
       1)))))
(define-fun runev ((b0 Int) (b1 Int) (b2 Int) (b3 Int) (avail Int)) Int
  (let ((w (width b0 b1 b2 b3 avail)))
  (ite (< b0 128) b0
  (ite (= w 2) (+ (* (- b0 192) 64) (- b1 128))
  (ite (= w 3) (+ (* (- b0 224) 4096) (* (- b1 128) 64) (- b2 128))
  (ite (= w 4) (+ (* (- b0 240) 262144) (* (- b1 128) 4096) (* (- b2 128) 64) (- b3 128))
       65533))))))
(declare-const b0 Int) (declare-const b1 Int) (declare-const b2 Int) (declare-const b3 Int)
(assert (and (<= 0 b0 255) (<= 0 b1 255) (<= 0 b2 255) (<= 0 b3 255)))
(declare-const n Int) (declare-const i Int) (declare-const count Int) (declare-const limit Int)
(declare-const Ri Int) (declare-const Rnext Int)      ; runes_upto(s,i), runes_upto(s,i+w)
(assert (and (<= 0 i) (< i n) (<= 0 limit) (< limit n)))
(define-fun avail () Int (- n i))
(define-fun w () Int (width b0 b1 b2 b3 avail))
(define-fun c () Int (runev b0 b1 b2 b3 avail))
(assert (= Rnext (+ Ri 1)))                           ; step lemma instantiated at i
; invariant at head:  count == runes_upto(s,i) (all runes so far counted), count <= limit
(assert (and (= count Ri) (<= count limit)))
; buggy body path: c == RuneError and size != 1  -> continue without count++
(assert (= c 65533))
(assert (not (= w 1)))
; preserve: count == runes_upto(s, i+w)
(assert (not (= count Rnext)))
(check-sat)
(get-value (b0 b1 b2 w c))
