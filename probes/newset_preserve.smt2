(set-logic ALL)
(declare-sort Val 0)
(declare-datatypes ((KV 0)) (((mkKV (key Int) (val Val)))))   ; Key as Int (order-isomorphic abstraction)
(declare-const S (Array Int KV))      ; after stable sort
(declare-const n Int)
(assert (>= n 1))
(assert (forall ((i Int)) (! (=> (and (<= 1 i) (< i n)) (<= (key (select S (- i 1))) (key (select S i)))) :pattern ((select S i)))))
(define-fun lastOcc ((idx Int)) Bool (and (<= 0 idx) (< idx n) (or (= idx (- n 1)) (not (= (key (select S (+ idx 1))) (key (select S idx)))))))
(declare-const A (Array Int KV)) (declare-const o Int) (declare-const p Int)
(declare-const w (Array Int Int))       ; ghost: source index for positions >= p
(declare-const pos (Array Int Int))     ; ghost: witness position in [p,n) for each j in (o,n)
(define-fun inv ((A (Array Int KV)) (o Int) (p Int) (w (Array Int Int)) (pos (Array Int Int))) Bool
 (and (<= (- 1) o) (< o p) (<= p (- n 1))
  (forall ((i Int)) (! (=> (and (<= 0 i) (<= i o)) (= (select A i) (select S i))) :pattern ((select A i))))
  (= (key (select A p)) (key (select S (+ o 1))))
  (forall ((i Int)) (! (=> (and (<= p i) (< i (- n 1))) (< (key (select A i)) (key (select A (+ i 1))))) :pattern ((select A i))))   ; adjacent strict => strictSorted
  (forall ((i Int)) (! (=> (and (<= p i) (< i n)) (and (lastOcc (select w i)) (= (select A i) (select S (select w i))))) :pattern ((select w i))))
  (forall ((j Int)) (! (=> (and (< o j) (< j n)) (and (<= p (select pos j)) (< (select pos j) n) (= (key (select A (select pos j))) (key (select S j))))) :pattern ((select pos j))))))
(assert (inv A o p w pos))
(assert (>= o 0))   ; loop condition offset >= 0
(define-fun same () Bool (= (key (select A o)) (key (select A p))))
; branch same: continue
(define-fun pos_same () (Array Int Int) (store pos o p))
; branch differ: position--, swap A[o] <-> A[p-1]
(define-fun p1 () Int (- p 1))
(define-fun A1 () (Array Int KV) (store (store A o (select A p1)) p1 (select A o)))
(define-fun w1 () (Array Int Int) (store w p1 o))
(define-fun pos1 () (Array Int Int) (store pos o p1))
(assert (not (ite same
      (inv A (- o 1) p w pos_same)
      (and (<= 0 p1) (< o p)      ; index safety of the swap
           (inv A1 (- o 1) p1 w1 pos1)))))
(check-sat)
