(set-logic QF_BV)
(declare-const E (_ BitVec 32))   ; biased exponent 1..2046 (normal)
(declare-const Mz Bool)           ; mantissa == 0
(declare-const k (_ BitVec 32))   ; -scale in [0,10]
(assert (and (bvsge E #x00000001) (bvsle E #x000007fe)))
(assert (and (bvsge k #x00000000) (bvsle k #x0000000a)))
; Frexp: exp = E - 1022 ; frac == .5 <=> Mz
(define-fun exp () (_ BitVec 32) (bvsub E #x000003fe))
(define-fun corr () (_ BitVec 32) (ite Mz #x00000002 #x00000001))
(define-fun idx () (_ BitVec 32) (bvashr (bvsub exp corr) k))
; unbiased exponent e = E-1023 ; v = 1.M * 2^e
(define-fun e () (_ BitVec 32) (bvsub E #x000003ff))
(define-fun lo () (_ BitVec 32) (bvshl idx k))                          ; idx * 2^k
(define-fun hi () (_ BitVec 32) (bvshl (bvadd idx #x00000001) k))       ; (idx+1) * 2^k
(define-fun gt_pow ((m (_ BitVec 32))) Bool (or (bvsgt e m) (and (= e m) (not Mz))))   ; v > 2^m
(define-fun le_pow ((m (_ BitVec 32))) Bool (or (bvslt e m) (and (= e m) Mz)))         ; v <= 2^m
(assert (not (and (gt_pow lo) (le_pow hi))))
(check-sat)
