(set-logic ALL)
(declare-sort Key 0)
(declare-sort Val 0)
(declare-datatypes ((KV 0)) (((mkKV (key Key) (val Val)))))
; state at loop head (after havoc), invariant assumed
(declare-const A0 (Array Int KV))
(declare-const A (Array Int KV))
(declare-const n Int) (declare-const u Int) (declare-const k Int)
(declare-const dom (Array Key Bool))
(declare-const idxOf (Array Key Int))
(define-fun inv ((A (Array Int KV)) (u Int) (k Int) (dom (Array Key Bool)) (idxOf (Array Key Int))) Bool
  (and (<= 0 u) (<= u k) (<= k n)
       (forall ((j Int)) (! (=> (and (<= k j) (< j n)) (= (select A j) (select A0 j))) :pattern ((select A j))))
       ; record consistent with unique prefix
       (forall ((j Int)) (! (=> (and (<= 0 j) (< j u)) (and (select dom (key (select A j))) (= (select idxOf (key (select A j))) j))) :pattern ((select A j))))
       (forall ((q Key)) (! (=> (select dom q) (and (<= 0 (select idxOf q)) (< (select idxOf q) u) (= (key (select A (select idxOf q))) q))) :pattern ((select dom q))))
       ; every processed input key is recorded
       (forall ((j Int)) (! (=> (and (<= 0 j) (< j k)) (select dom (key (select A0 j)))) :pattern ((select A0 j))))
  ))
(assert (inv A u k dom idxOf))
(assert (< k n))              ; loop condition
(define-fun a () KV (select A k))
; branch: found
(declare-const found Bool)
(assert (= found (select dom (key a))))
(define-fun idx () Int (select idxOf (key a)))
(define-fun A1 () (Array Int KV) (ite found (store A idx a) (store A u a)))
(define-fun u1 () Int (ite found u (+ u 1)))
(define-fun dom1 () (Array Key Bool) (ite found dom (store dom (key a) true)))
(define-fun idxOf1 () (Array Key Int) (ite found idxOf (store idxOf (key a) u)))
; no-panic: index in range of unique (len u) for found; append in place for not found: u < n (cap>=n)
(define-fun safe () Bool (and (=> found (and (<= 0 idx) (< idx u))) (=> (not found) (< u n))))
(assert (not (and safe (inv A1 u1 (+ k 1) dom1 idxOf1))))
(check-sat)
