(set-logic ALL)
(declare-sort Rec 0)
; heap of ring nodes: ids are Int, 0 = nil
(declare-const nxt (Array Int Int))
(declare-const Value (Array Int Rec))
(declare-fun pos (Int) Int)        ; ghost: position of node in cycle
(declare-fun nodeAt (Int) Int)     ; ghost inverse
(declare-const cap Int)
(declare-fun inring (Int) Bool)
(define-fun addmod ((x Int) (y Int)) Int (ite (< (+ x y) cap) (+ x y) (- (+ x y) cap)))
; wf(ring)
(assert (> cap 0))
(assert (forall ((p Int)) (! (=> (and (<= 0 p) (< p cap)) (and (inring (nodeAt p)) (not (= (nodeAt p) 0)) (= (pos (nodeAt p)) p))) :pattern ((nodeAt p)))))
(assert (forall ((r Int)) (! (=> (inring r) (and (<= 0 (pos r)) (< (pos r) cap) (= (nodeAt (pos r)) r)
                                   (= (select nxt r) (nodeAt (addmod (pos r) 1))))) :pattern ((inring r)) :pattern ((select nxt r)))))
; queue state
(declare-const read0 Int) (declare-const qlen Int) (declare-const n Int)
(assert (inring read0))
(assert (and (<= 0 qlen) (<= qlen cap) (<= 0 n) (<= n qlen)))
(define-fun p0 () Int (pos read0))
; loop state at head (havocked) + invariant
(declare-const i Int) (declare-const read Int) (declare-const buf (Array Int Rec))
(define-fun inv ((i Int) (read Int) (buf (Array Int Rec))) Bool
  (and (<= 0 i) (<= i n) (inring read) (= read (nodeAt (addmod p0 i)))
       (forall ((k Int)) (! (=> (and (<= 0 k) (< k i)) (= (select buf k) (select Value (nodeAt (addmod p0 k))))) :pattern ((select buf k))))))
(assert (inv i read buf))
(assert (< i n))
; body: buf[i] = read.Value ; read = read.Next()  (next != nil since wf)
(define-fun buf1 () (Array Int Rec) (store buf i (select Value read)))
(define-fun read1 () Int (select nxt read))
(assert (not (and (not (= read 0)) (inv (+ i 1) read1 buf1))))
(check-sat)
