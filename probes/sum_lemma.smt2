(set-logic ALL)
; Sigma(a, n) = a[0]+...+a[n-1]
(define-fun-rec Sig ((a (Array Int Int)) (n Int)) Int
  (ite (<= n 0) 0 (+ (Sig a (- n 1)) (select a (- n 1)))))
; one-point update lemma: for 0<=i<n : Sig(store(a,i,a[i]+d), n) = Sig(a,n)+d
(declare-const a (Array Int Int)) (declare-const i Int) (declare-const d Int)
(assert (not (forall ((n Int))
   (=> (>= n 0)
       (= (Sig (store a i (+ (select a i) d)) n)
          (+ (Sig a n) (ite (and (<= 0 i) (< i n)) d 0)))))))
(check-sat)
