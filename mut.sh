#!/bin/sh
# usage: mut.sh <property> <file relative to /repo> <sed expression>   -- applies a mutation, runs the check, reverts
cd /repo && cp "$2" /tmp/mut_backup && sed -i "$3" "$2" && (git diff --stat | tail -1) && cd /verif && ./bin/govc check -property "$1" 2>&1 | grep -c VIOLATION; ./bin/govc check -property "$1" 2>&1 | grep VIOLATION | sed 's/.*obligation=//' | head -5; cp /tmp/mut_backup "/repo/$2"; cd /repo && git status --short | grep -v '^??' | head -3
