//go:build verif

// Contracts for package baggage. Comment-only file (build tag verif). Checked by /verif/bin/govc.

package baggage

//@ props C11

// ======================================================================== C11 scanners: no panic for every byte string
// A key or value character is an ASCII character (one byte): this is what makes the byte indices of the parsers, which
// are advanced once per RUNE, valid byte offsets.
//@ func validateKeyChar(c int32) (r bool)
//@   ensures r ==> 0 <= c && c < 128
//@   modifies
//@ func validateValueChar(c int32) (r bool)
//@   ensures r ==> 0 <= c && c < 128
//@   modifies
//@ func shouldEscape(c byte) (r bool)
//@   pure
//@   ensures c == '%' ==> r
//@   ensures !r ==> c < 128
//@   modifies

//@ func skipSpace(s string, offset int) (r int)
//@   requires 0 <= offset
//@   ensures offset <= len(s) ==> offset <= r && r <= len(s)
//@   ensures offset > len(s) ==> r == offset
//@   ensures forall i in offset .. r : s[i] == ' ' || s[i] == '\t'
//@   ensures r < len(s) ==> s[r] != ' ' && s[r] != '\t'
//@   modifies
//@   loop#1 invariant offset <= i && (offset <= len(s) ==> i <= len(s)) && (offset > len(s) ==> i == offset)
//@   loop#1 invariant forall j in offset .. i : s[j] == ' ' || s[j] == '\t'

// a W3C key is non-empty and consists of one-byte characters only
//@ func validateKey(s string) (r bool)
//@   ensures r ==> len(s) > 0 && (forall i in 0 .. len(s) : s[i] < 128)
//@   modifies
//@   loop#1 invariant forall i in 0 .. $off : s[i] < 128
//@ func validateValue(s string) (r bool)
//@   ensures r ==> (forall i in 0 .. len(s) : s[i] < 128)
//@   modifies
//@   loop#1 invariant forall i in 0 .. $off : s[i] < 128

// (percent-decoding is url.PathUnescape's - '+' stays '+'; the call is anchored below, the decoding itself is the library's)
// parsePropertyInternal: for EVERY byte string, all indexing and slicing stays in range (the two rune loops advance a byte
// index once per rune, which is right only because every accepted rune is one byte long - invariant keyEnd == keyStart + $off);
// an accepted property has a non-empty key made of key characters and, if present, a valid UTF-8 value
//@ func parsePropertyInternal(s string) (p Property, ok bool)
//@   overflow assumed
//@   ensures ok ==> len(p.key) > 0 && (forall i in 0 .. len(p.key) : p.key[i] < 128)
//@   ensures ok && p.hasValue ==> utf8valid(p.value)
//@   ensures !ok ==> p.key == "" && p.value == "" && !p.hasValue
//@   modifies
//@   assert@call PathUnescape#1 : $arg0 == s[valueStart:valueEnd]
//@   loop#1 invariant keyStart == index && 0 <= keyStart && keyStart <= len(s) && keyEnd == keyStart + $off && keyEnd <= len(s)
//@   loop#1 invariant forall i in keyStart .. keyEnd : s[i] < 128
//@   loop#2 invariant 0 <= valueStart && valueStart <= len(s) && valueEnd == valueStart + $off && valueEnd <= len(s) && keyStart < keyEnd && keyEnd <= len(s) && 0 <= keyStart
//@   loop#2 invariant forall i in keyStart .. keyEnd : s[i] < 128

//@ func parseProperty(property string) (p Property, err error)
//@   overflow assumed
//@   ensures err == nil && property != "" ==> len(p.key) > 0
//@   modifies

// facts about UTF-8 well-formedness that the engine does not derive (utf8valid is uninterpreted): assumed, listed in the evidence
//@ axiom utf8_empty: utf8valid("")
//@ axiom utf8_concat: forall a string : forall c string : utf8valid(a) && utf8valid(c) ==> utf8valid(a ++ c)

// replaceInvalidUTF8Sequences: the result is valid UTF-8; a valid input is returned unchanged
//@ func replaceInvalidUTF8Sequences(c int, unescapeVal string) (r string)
//@   overflow assumed
//@   requires c >= 0
//@   ensures utf8valid(unescapeVal) ==> r == unescapeVal
//@   ensures utf8valid(r)
//@   modifies
//@   loop#1 invariant 0 <= i && i <= len(unescapeVal) && utf8valid(b.String())

// parseMember: a member longer than 4096 bytes is rejected; an accepted one has a W3C key and a valid UTF-8 value
//@ func parseMember(member string) (m Member, err error)
//@   overflow assumed
//@   assert@call PathUnescape#1 : len($arg0) <= len(member)
//@   ensures len(member) > 4096 ==> err != nil
//@   ensures err == nil ==> m.hasData && len(m.key) > 0 && (forall i in 0 .. len(m.key) : m.key[i] < 128) && utf8valid(m.value)
//@   ensures err != nil ==> !m.hasData
//@   unchecked frame the property list is built by appending to a local slice

// ======================================================================== C11 immutability and limits
// SetMember / DeleteMember never write the receiver's map (nor any other existing map): they build a fresh one which holds
// exactly the old entries plus / minus the member. A Baggage held elsewhere (another context) is therefore unaffected.
//@ func (b Baggage) SetMember(member Member) (r Baggage, err error)
//@   overflow assumed
//@   ensures !member.hasData ==> err != nil && r.list == b.list
//@   ensures member.hasData ==> err == nil && fresh(r.list) && has(r.list, member.key) && r.list[member.key].Value == member.value
//@   ensures member.hasData ==> (forall k string : k != member.key ==> has(r.list, k) == has(b.list, k) && (has(b.list, k) ==> r.list[k] == b.list[k]))
//@   ensures forall k string : has(b.list, k) == old(has(b.list, k)) && (has(b.list, k) ==> b.list[k] == old(b.list[k]))
//@   unchecked frame a fresh map and a fresh property slice are written
//@   loop#1 invariant fresh(list) && list != nil && !has(list, member.key)
//@   loop#1 invariant forall k string : has(list, k) == ($visited(k) && k != member.key) && (has(list, k) ==> list[k] == b.list[k])
//@   loop#1 invariant forall k string : has(b.list, k) == old(has(b.list, k)) && (has(b.list, k) ==> b.list[k] == old(b.list[k]))

//@ func (b Baggage) DeleteMember(key string) (r Baggage)
//@   overflow assumed
//@   ensures fresh(r.list) && !has(r.list, key)
//@   ensures forall k string : k != key ==> has(r.list, k) == has(b.list, k)
//@   ensures forall k string : k != key && has(b.list, k) ==> r.list[k] == b.list[k]
//@   ensures forall k string : has(b.list, k) == old(has(b.list, k)) && (has(b.list, k) ==> b.list[k] == old(b.list[k]))
//@   unchecked frame a fresh map is written
//@   loop#1 invariant fresh(list) && list != nil && !has(list, key)
//@   loop#1 invariant forall k string : has(list, k) == ($visited(k) && k != key) && (has(list, k) ==> list[k] == b.list[k])
//@   loop#1 invariant forall k string : has(b.list, k) == old(has(b.list, k)) && (has(b.list, k) ==> b.list[k] == old(b.list[k]))

// ---- limits. Member.String / Baggage.String are used as deterministic functions of their receiver (layout not specified here).
//@ func (m Member) String() (s string)
//@   prop -
//@   pure
//@   trusted "serialisation through string concatenation and fmt: only determinism (a function of the member value) is assumed"
//@ func (b Baggage) String() (s string)
//@   prop -
//@   pure
//@   trusted "serialisation through strings.Join over map iteration: only determinism up to member order is assumed; its LENGTH is order independent"

// New: at most 180 members after de-duplication, at most 8192 bytes in total, every member carries data - and (the clause
// that FAILS, known finding) no member longer than the 4096 bytes Parse accepts
//@ func New(members []Member) (r Baggage, err error)
//@   overflow assumed
//@   known KF-C11-new-member-bytes when exists i in 0 .. len(members) : len(members[i].String()) > 4096
//@   unchecked frame a fresh map and fresh property slices are written
//@   ensures len(members) == 0 ==> err == nil && r.list == nil
//@   ensures err == nil ==> len(r.list) <= 180
//@   ensures err == nil && len(members) > 0 ==> len(r.String()) <= 8192
//@   ensures err == nil ==> (forall i in 0 .. len(members) : members[i].hasData)
//@   ensures err == nil ==> (forall i in 0 .. len(members) : len(members[i].String()) <= 4096)
//@   loop#1 invariant b != nil && fresh(b) && (forall i in 0 .. $k : members[i].hasData)

// Parse: a header longer than 8192 bytes is rejected; an accepted one has at most 180 members, each of which went through
// parseMember (at most 4096 bytes, W3C key, valid UTF-8 value)
//@ func Parse(bStr string) (r Baggage, err error)
//@   overflow assumed
//@   unchecked frame a fresh map and fresh property slices are written
//@   ensures bStr == "" ==> err == nil && r.list == nil
//@   ensures len(bStr) > 8192 ==> err != nil
//@   ensures err == nil ==> len(r.list) <= 180
//@   ensures err == nil ==> (forall k string : has(r.list, k) ==> len(k) > 0 && utf8valid(r.list[k].Value))
//@   loop#1 invariant b != nil && fresh(b) && (forall k string : has(b, k) ==> len(k) > 0 && utf8valid(b[k].Value))

// ======================================================================== C11 valueEscape: serialisation never panics
// escUpto(t, i) = number of bytes of t before offset i that must be escaped (uninterpreted; pinned by its value at 0, its step and
// - a consequence by induction, assumed - its monotonicity). The output buffer is exactly len(s) + 2*escUpto(s, len(s)) bytes and the
// write index never leaves it: j == i + 2*escUpto(s, i) at the head of the second loop.
//@ spec escUpto(t string, i int) int
//@ axiom esc_zero: forall t string : escUpto(t, 0) == 0
//@ axiom esc_step: forall t string : forall i int : 0 <= i && i < len(t) ==> escUpto(t, i + 1) == escUpto(t, i) + ite(shouldEscape(t[i]), 1, 0)
//@ axiom esc_mono: forall t string : forall i int : forall k int : 0 <= i && i <= k && k <= len(t) ==> escUpto(t, i) <= escUpto(t, k)
//@ func valueEscape(s string) (r string)
//@   overflow assumed
//@   ensures escUpto(s, len(s)) == 0 ==> r == s
//@   ensures len(r) == len(s) + 2 * escUpto(s, len(s))
//@   modifies
//@   loop#1 invariant 0 <= i && i <= len(s) && hexCount == escUpto(s, i)
//@   loop#2 invariant 0 <= i && i <= len(s) && j == i + 2 * escUpto(s, i) && len(t) == required && required == len(s) + 2 * hexCount && hexCount == escUpto(s, len(s))

// ======================================================================== C11 constructors: what a Member / Property may hold
// "Any baggage the constructor accepts (valid keys, arbitrary UTF-8 values and properties ...)": every constructor either fails and
// returns the invalid zero value, or returns exactly the key it was given (non-empty) with a value that is valid UTF-8 - also when
// the value arrived percent-encoded and was decoded first (the decoded text is what is checked, not the encoded one).
//@ func validateBaggageName(s string) (r bool)
//@   ensures r == (len(s) > 0 && utf8valid(s))
//@ func validateBaggageValue(s string) (r bool)
//@   ensures r == utf8valid(s)

//@ func (p Property) validate() (err error)
//@   unchecked no-panic fmt.Errorf, errors.New
//@   ensures err == nil ==> len(p.key) > 0 && utf8valid(p.key) && (p.hasValue ==> utf8valid(p.value)) && (!p.hasValue ==> p.value == "")
//@ func (p properties) validate() (err error)
//@   modifies
//@   ensures err == nil ==> forall i in 0 .. len(p) : len(p[i].key) > 0 && utf8valid(p[i].key) && (p[i].hasValue ==> utf8valid(p[i].value))
//@   loop#1 invariant forall i in 0 .. $k : len(p[i].key) > 0 && utf8valid(p[i].key) && (p[i].hasValue ==> utf8valid(p[i].value))

//@ func (m Member) validate() (err error)
//@   unchecked no-panic fmt.Errorf
//@   modifies
//@   ensures err == nil ==> m.hasData && len(m.key) > 0 && utf8valid(m.key) && utf8valid(m.value)
//@   ensures err == nil ==> forall i in 0 .. len(m.properties) : len(m.properties[i].key) > 0 && utf8valid(m.properties[i].key) && (m.properties[i].hasValue ==> utf8valid(m.properties[i].value))

//@ func NewKeyProperty(key string) (p Property, err error)
//@   unchecked no-panic fmt.Errorf
//@   ensures err == nil ==> p.key == key && len(key) > 0 && utf8valid(key) && !p.hasValue && p.value == ""
//@   ensures err != nil ==> p.key == "" && p.value == "" && !p.hasValue
//@ func NewKeyValuePropertyRaw(key string, value string) (p Property, err error)
//@   unchecked no-panic fmt.Errorf
//@   ensures err == nil ==> p.key == key && len(key) > 0 && utf8valid(key) && p.hasValue && p.value == value && utf8valid(value)
//@   ensures err != nil ==> p.key == "" && p.value == "" && !p.hasValue
//@ func NewKeyValueProperty(key string, value string) (p Property, err error)
//@   unchecked no-panic fmt.Errorf
//@   ensures err == nil ==> p.key == key && len(key) > 0 && (forall i in 0 .. len(key) : key[i] < 128) && p.hasValue && utf8valid(p.value)
//@   ensures err != nil ==> p.key == "" && p.value == "" && !p.hasValue
//@   assert@call PathUnescape#1 : $arg0 == value

//@ func NewMemberRaw(key string, value string, props []Property) (m Member, err error)
//@   unchecked no-panic,frame fmt.Errorf; the property list is copied into a fresh slice
//@   ensures err == nil ==> m.hasData && m.key == key && m.value == value && len(key) > 0 && utf8valid(key) && utf8valid(value)
//@   ensures err == nil ==> len(m.properties) == len(props) && (forall i in 0 .. len(props) : len(m.properties[i].key) > 0 && utf8valid(m.properties[i].key) && (m.properties[i].hasValue ==> utf8valid(m.properties[i].value)))
//@   ensures err != nil ==> !m.hasData && m.key == "" && m.value == ""
//@ func NewMember(key string, value string, props []Property) (m Member, err error)
//@   unchecked no-panic,frame fmt.Errorf; the property list is copied into a fresh slice
//@   ensures err == nil ==> m.hasData && m.key == key && len(key) > 0 && (forall i in 0 .. len(key) : key[i] < 128) && utf8valid(m.value)
//@   ensures err == nil ==> forall i in 0 .. len(m.properties) : len(m.properties[i].key) > 0 && utf8valid(m.properties[i].key) && (m.properties[i].hasValue ==> utf8valid(m.properties[i].value))
//@   ensures err != nil ==> !m.hasData && m.key == "" && m.value == ""
//@   assert@call PathUnescape#1 : $arg0 == value

// ======================================================================== C11 serialisation shape (Property.String / Member.String)
// a property is written as "key=value" exactly when it HAS a value (an empty value included: "key="), and as the bare key exactly
// when it has none; the value goes through valueEscape; a member is always "key=" + escaped value, followed by ";" + properties
// exactly when it has properties. The concatenations themselves are fmt / string builtins (layout as written in the source).
//@ func (p Property) String() (s string)
//@   prop C11
//@   overflow assumed
//@   unchecked frame,no-panic fmt.Sprintf
//@   assert@call valueEscape#1 : p.hasValue && $arg0 == p.value
//@   assert@return#2 : p.hasValue
//@   assert@return#3 : !p.hasValue && $ret0 == p.key
