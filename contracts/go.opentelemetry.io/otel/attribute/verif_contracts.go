//go:build verif

// Contracts for package attribute (properties C05, C12, C19). Comment-only file (build tag verif). Checked by /verif/bin/govc.

package attribute

//@ props C05

// the comparator handed to the stable sort orders by key
//@ func NewSetWithFiltered$1(a KeyValue, b KeyValue) (r int)
//@   pure
//@   ensures (r < 0) == (a.Key < b.Key) && (r == 0) == (a.Key == b.Key)

// sorted strictly by key <=> sorted and de-duplicated
//@ spec strictlySorted(s []KeyValue) bool = forall i in 0 .. len(s) : forall j in 0 .. i : s[j].Key < s[i].Key

// filteredToFront: partition by keep, kept attributes at the back in their original relative order (a strictly sorted
// input stays strictly sorted in the kept part), dropped attributes in front.
//@ func filteredToFront(slice []KeyValue, keep Filter) (j int)
//@   requires keep != nil
//@   modifies elems(slice)
//@   ensures 0 <= j && j <= len(slice)
//@   ensures forall k in j .. len(slice) : keep(slice[k])
//@   ensures forall k in 0 .. j : !keep(slice[k])
//@   ensures old(strictlySorted(slice)) ==> forall a in j .. len(slice) : forall b in j .. a : slice[b].Key < slice[a].Key
//@   loop#1 invariant -1 <= i && i < n && i < j && j <= n && n == len(slice)
//@   loop#1 invariant forall k in j .. n : keep(slice[k])
//@   loop#1 invariant forall k in i+1 .. j : !keep(slice[k])
//@   loop#1 invariant forall k in 0 .. i+1 : slice[k] == old(slice[k])
//@   loop#1 invariant old(strictlySorted(slice)) ==> (forall a in j .. n : forall b in j .. a : slice[b].Key < slice[a].Key) && (forall a in j .. n : forall b in 0 .. i+1 : slice[b].Key < slice[a].Key)
//@   loop#1 decreases i + 1

// NewSetWithFiltered: whatever the input order and duplicates, the part of kvs that becomes the set is strictly sorted
// by key (sorted and unique).
//@ func NewSetWithFiltered(kvs []KeyValue, filter Filter) (s Set, dropped []KeyValue)
//@   modifies elems(kvs)
//@   ensures len(kvs) == 0 ==> len(dropped) == 0
//@   assert@call computeDistinct#* : strictlySorted($arg0)
//@   loop#1 invariant -1 <= offset && offset < position && position <= len(kvs) - 1
//@   loop#1 invariant forall a in position .. len(kvs) : forall b in position .. a : kvs[b].Key < kvs[a].Key
//@   loop#1 invariant forall a in 0 .. offset+1 : !(kvs[position].Key < kvs[a].Key)
//@   loop#1 invariant forall a in 0 .. offset+1 : forall b in 0 .. a : !(kvs[a].Key < kvs[b].Key)
//@   loop#1 decreases offset + 1

// fixed-size array storage for 1..10 attributes: same length, same elements, same order
//@ func computeDistinctFixed(kvs []KeyValue) (r interface{})
//@   ensures (len(kvs) == 0 || len(kvs) > 10) == (r == nil)
//@   ensures len(kvs) == 1 ==> typeis(r, "[1]KeyValue") && (forall i in 0 .. 1 : cast(r, "[1]KeyValue")[i] == kvs[i])
//@   ensures len(kvs) == 2 ==> typeis(r, "[2]KeyValue") && (forall i in 0 .. 2 : cast(r, "[2]KeyValue")[i] == kvs[i])
//@   ensures len(kvs) == 3 ==> typeis(r, "[3]KeyValue") && (forall i in 0 .. 3 : cast(r, "[3]KeyValue")[i] == kvs[i])
//@   ensures len(kvs) == 4 ==> typeis(r, "[4]KeyValue") && (forall i in 0 .. 4 : cast(r, "[4]KeyValue")[i] == kvs[i])
//@   ensures len(kvs) == 5 ==> typeis(r, "[5]KeyValue") && (forall i in 0 .. 5 : cast(r, "[5]KeyValue")[i] == kvs[i])
//@   ensures len(kvs) == 6 ==> typeis(r, "[6]KeyValue") && (forall i in 0 .. 6 : cast(r, "[6]KeyValue")[i] == kvs[i])
//@   ensures len(kvs) == 7 ==> typeis(r, "[7]KeyValue") && (forall i in 0 .. 7 : cast(r, "[7]KeyValue")[i] == kvs[i])
//@   ensures len(kvs) == 8 ==> typeis(r, "[8]KeyValue") && (forall i in 0 .. 8 : cast(r, "[8]KeyValue")[i] == kvs[i])
//@   ensures len(kvs) == 9 ==> typeis(r, "[9]KeyValue") && (forall i in 0 .. 9 : cast(r, "[9]KeyValue")[i] == kvs[i])
//@   ensures len(kvs) == 10 ==> typeis(r, "[10]KeyValue") && (forall i in 0 .. 10 : cast(r, "[10]KeyValue")[i] == kvs[i])
