//go:build verif

// Contracts for package attribute (properties C05, C12, C19). Comment-only file (build tag verif). Checked by /verif/bin/govc.

package attribute

//@ props C05

// the comparator handed to the stable sort orders by key
//@ func NewSetWithFiltered$1(a KeyValue, b KeyValue) (r int)
//@   pure
//@   ensures (r < 0) == (a.Key < b.Key) && (r == 0) == (a.Key == b.Key)

// sorted strictly by key <=> sorted and de-duplicated
//@ spec strictlySorted(s []KeyValue) bool = forall i in 0 .. len(s) : forall j in 0 .. i : s[j].Key < s[i].Key

// filteredToFront: partition by keep, kept attributes at the back in their original relative order (a strictly sorted
// input stays strictly sorted in the kept part), dropped attributes in front.
//@ func filteredToFront(slice []KeyValue, keep Filter) (j int)
//@   requires keep != nil
//@   modifies elems(slice)
//@   ensures 0 <= j && j <= len(slice)
//@   ensures forall k in j .. len(slice) : keep(slice[k])
//@   ensures forall k in 0 .. j : !keep(slice[k])
//@   ensures old(strictlySorted(slice)) ==> forall a in j .. len(slice) : forall b in j .. a : slice[b].Key < slice[a].Key
//@   loop#1 invariant -1 <= i && i < n && i < j && j <= n && n == len(slice)
//@   loop#1 invariant forall k in j .. n : keep(slice[k])
//@   loop#1 invariant forall k in i+1 .. j : !keep(slice[k])
//@   loop#1 invariant forall k in 0 .. i+1 : slice[k] == old(slice[k])
//@   loop#1 invariant old(strictlySorted(slice)) ==> (forall a in j .. n : forall b in j .. a : slice[b].Key < slice[a].Key) && (forall a in j .. n : forall b in 0 .. i+1 : slice[b].Key < slice[a].Key)
//@   loop#1 decreases i + 1

// NewSetWithFiltered: whatever the input order and duplicates, the part of kvs that becomes the set is strictly sorted
// by key (sorted and unique).
//@ func NewSetWithFiltered(kvs []KeyValue, filter Filter) (s Set, dropped []KeyValue)
//@   modifies elems(kvs)
//@   ensures len(kvs) == 0 ==> len(dropped) == 0
//@   assert@call computeDistinct#* : strictlySorted($arg0)
//@   loop#1 invariant -1 <= offset && offset < position && position <= len(kvs) - 1
//@   loop#1 invariant forall a in position .. len(kvs) : forall b in position .. a : kvs[b].Key < kvs[a].Key
//@   loop#1 invariant forall a in 0 .. offset+1 : !(kvs[position].Key < kvs[a].Key)
//@   loop#1 invariant forall a in 0 .. offset+1 : forall b in 0 .. a : !(kvs[a].Key < kvs[b].Key)
//@   loop#1 decreases offset + 1

// fixed-size array storage for 1..10 attributes: same length, same elements, same order
//@ func computeDistinctFixed(kvs []KeyValue) (r interface{})
//@   ensures (len(kvs) == 0 || len(kvs) > 10) == (r == nil)
//@   ensures len(kvs) == 1 ==> typeis(r, "[1]KeyValue") && (forall i in 0 .. 1 : cast(r, "[1]KeyValue")[i] == kvs[i])
//@   ensures len(kvs) == 2 ==> typeis(r, "[2]KeyValue") && (forall i in 0 .. 2 : cast(r, "[2]KeyValue")[i] == kvs[i])
//@   ensures len(kvs) == 3 ==> typeis(r, "[3]KeyValue") && (forall i in 0 .. 3 : cast(r, "[3]KeyValue")[i] == kvs[i])
//@   ensures len(kvs) == 4 ==> typeis(r, "[4]KeyValue") && (forall i in 0 .. 4 : cast(r, "[4]KeyValue")[i] == kvs[i])
//@   ensures len(kvs) == 5 ==> typeis(r, "[5]KeyValue") && (forall i in 0 .. 5 : cast(r, "[5]KeyValue")[i] == kvs[i])
//@   ensures len(kvs) == 6 ==> typeis(r, "[6]KeyValue") && (forall i in 0 .. 6 : cast(r, "[6]KeyValue")[i] == kvs[i])
//@   ensures len(kvs) == 7 ==> typeis(r, "[7]KeyValue") && (forall i in 0 .. 7 : cast(r, "[7]KeyValue")[i] == kvs[i])
//@   ensures len(kvs) == 8 ==> typeis(r, "[8]KeyValue") && (forall i in 0 .. 8 : cast(r, "[8]KeyValue")[i] == kvs[i])
//@   ensures len(kvs) == 9 ==> typeis(r, "[9]KeyValue") && (forall i in 0 .. 9 : cast(r, "[9]KeyValue")[i] == kvs[i])
//@   ensures len(kvs) == 10 ==> typeis(r, "[10]KeyValue") && (forall i in 0 .. 10 : cast(r, "[10]KeyValue")[i] == kvs[i])

// ---- abstract view of a Set: its length and its i-th attribute. The storage is a reflect-built array inside an interface
// value (computeDistinctReflect) read back through reflect (Len/Get/Iter): those accessors are trusted to agree with the view.
//@ spec setLen(d Distinct) int
//@ spec setAt(d Distinct, i int) KeyValue
//@ axiom setLen_nonneg: forall d Distinct : setLen(d) >= 0 && setLen(d) <= 2305843009213693952

// computeDistinct: the fixed-size path is tried first with the very slice, the reflect path only for 0 or more than 10 attributes,
// again with the very slice; that the resulting storage shows exactly kvs through the (uninterpreted) view is ASSUMED (`assumes`),
// not proved - the reflect-built array cannot be related to the view by the engine
//@ func computeDistinct(kvs []KeyValue) (d Distinct)
//@   prop C05
//@   overflow assumed
//@   unchecked frame,no-panic the reflect path allocates through reflect
//@   assumes setLen(d) == len(kvs) && (forall i in 0 .. len(kvs) : setAt(d, i) == kvs[i])
//@   assert@call computeDistinctFixed#1 : $arg0 === kvs
//@   assert@call computeDistinctReflect#1 : $arg0 === kvs && (len(kvs) == 0 || len(kvs) > 10)
// computeDistinctReflect: the array type has exactly len(kvs) elements (not the capacity, not a rounded size) of the key-value
// type, and element i of it is addressed when kvs[i] is copied
//@ func computeDistinctReflect(kvs []KeyValue) (r interface{})
//@   prop C05
//@   overflow assumed
//@   unchecked frame,no-panic storage built and written through reflect
//@   assert@call ArrayOf#1 : $arg0 == len(kvs) && $arg1 == keyValueType
//@   assert@call Value.Index#* : $arg1 == i && 0 <= i && i < len(kvs)
//@ func (l *Set) Len() (n int)
//@   prop -
//@   trusted "reads the reflect-built storage"
//@   ensures n == ite(l == nil, 0, setLen(l.equivalent))
//@ func (l *Set) Get(idx int) (kv KeyValue, ok bool)
//@   prop -
//@   trusted "reads the reflect-built storage"
//@   ensures ok == (l != nil && 0 <= idx && idx < setLen(l.equivalent))
//@   ensures ok ==> kv == setAt(l.equivalent, idx)
//@ func (l *Set) ToSlice() (s []KeyValue)
//@   prop -
//@   trusted "reads the reflect-built storage"
//@   ensures fresh(s) && len(s) == ite(l == nil, 0, setLen(l.equivalent)) && (forall i in 0 .. len(s) : s[i] == setAt(l.equivalent, i))

// Value (binary search through reflect and sort.Search): the storage access and the search itself are outside the contracts
// (reflect.Value and the sort.Search callback are not modelled); what is decided is the shape of the answer around them - "not found"
// without searching only for a nil or empty-storage set, whatever the key; a hit only when the key at the position found equals
// the key asked for, and then with that attribute's value; a miss otherwise
//@ func (l *Set) Value(k Key) (v Value, ok bool)
//@   prop C05
//@   unchecked no-panic,frame reflect-built storage read through reflect.Value; sort.Search with a callback
//@   ensures l == nil ==> !ok
//@   assert@return#1 : (l == nil || l.equivalent.iface == nil) && !$ret1
//@   assert@return#2 : idx >= vlen && !$ret1
//@   assert@return#3 : idx < vlen && k == keyValue.Key && $ret1 && $ret0 == keyValue.Value
//@   assert@return#4 : idx < vlen && k != keyValue.Key && !$ret1
//@ func (l *Set) HasValue(k Key) (ok bool)
//@   prop C05
//@   unchecked no-panic,frame calls Value
//@   ensures l == nil ==> !ok

// Filter: the original set is unaltered (frame: nothing that existed before the call is written), the result holds
// exactly the attributes satisfying re, the rest is returned as dropped, nothing is lost.
//@ func (l *Set) Filter(re Filter) (r Set, dropped []KeyValue)
//@   requires l != nil
//@   ensures re == nil ==> r == *l && len(dropped) == 0
//@   ensures re != nil ==> forall i in 0 .. len(dropped) : !re(dropped[i])
//@   ensures re != nil ==> forall i in 0 .. setLen(r.equivalent) : re(setAt(r.equivalent, i))
//@   ensures setLen(r.equivalent) + len(dropped) == setLen(l.equivalent)
//@   loop#1 invariant -1 <= first && first < n && n == setLen(l.equivalent)
//@   loop#1 invariant forall k in first+1 .. n : re(setAt(l.equivalent, k))
//@   loop#1 decreases first + 1

// Iterator.ToSlice: the WHOLE contents of the set the iterator walks, in order, wherever the iterator stood before the call (it is
// rewound first)
//@ func (i *Iterator) ToSlice() (s []KeyValue)
//@   prop C05
//@   overflow assumed
//@   unchecked frame the iterator is rewound and advanced; a fresh slice is filled
//@   requires i != nil && i.storage != nil && i.idx >= -1 && i.idx <= setLen(i.storage.equivalent)
//@   ensures len(s) == setLen(i.storage.equivalent)
//@   ensures forall j in 0 .. len(s) : s[j] == setAt(i.storage.equivalent, j)
//@   loop#1 invariant i.storage == old(i.storage) && i.idx == len(slice) - 1 && -1 <= i.idx && i.idx < l && l == setLen(i.storage.equivalent) && cap(slice) == l
//@   loop#1 invariant forall j in 0 .. len(slice) : slice[j] == setAt(i.storage.equivalent, j)

// ---- iterators: one merge step of two sorted sets, the first iterator wins on equal keys (C05, used by C19)
//@ func (l *Set) Iter() (it Iterator)
//@   prop -
//@   trusted "constructor: Iterator{storage: l, idx: -1}; l nil is replaced by the empty set"
//@   ensures it.storage != nil && it.idx == -1 && ite(l == nil, setLen(it.storage.equivalent) == 0, it.storage.equivalent == l.equivalent)

//@ func (i *Iterator) Next() (ok bool)
//@   requires i != nil && i.storage != nil && i.idx >= -1 && i.idx <= setLen(i.storage.equivalent)
//@   modifies i
//@   ensures i.idx == old(i.idx) + 1 && i.storage == old(i.storage)
//@   ensures ok == (i.idx < setLen(i.storage.equivalent))
//@ func (i *Iterator) Attribute() (kv KeyValue)
//@   requires i != nil && i.storage != nil
//@   ensures 0 <= i.idx && i.idx < setLen(i.storage.equivalent) ==> kv == setAt(i.storage.equivalent, i.idx)

// a oneIterator caches the attribute at its position; done <=> position past the end
//@ spec oneOK(oi oneIterator) bool = oi.iter.storage != nil && 0 <= oi.iter.idx && oi.iter.idx <= setLen(oi.iter.storage.equivalent) && oi.done == (oi.iter.idx >= setLen(oi.iter.storage.equivalent)) && (!oi.done ==> oi.attr == setAt(oi.iter.storage.equivalent, oi.iter.idx))
//@ func (oi *oneIterator) advance()
//@   requires oi != nil && oi.iter.storage != nil && oi.iter.idx >= -1 && oi.iter.idx < setLen(oi.iter.storage.equivalent)
//@   modifies oi
//@   ensures oneOK(*oi) && oi.iter.idx == old(oi.iter.idx) + 1 && oi.iter.storage == old(oi.iter.storage)

//@ func (m *MergeIterator) Next() (ok bool)
//@   requires m != nil && oneOK(m.one) && oneOK(m.two)
//@   modifies m
//@   ensures oneOK(m.one) && oneOK(m.two) && m.one.iter.storage == old(m.one.iter.storage) && m.two.iter.storage == old(m.two.iter.storage)
//@   ensures ok == !(old(m.one.done) && old(m.two.done))
//@   ensures !ok ==> m.one.iter.idx == old(m.one.iter.idx) && m.two.iter.idx == old(m.two.iter.idx)
//@   ensures ok && !old(m.one.done) && (old(m.two.done) || !(old(m.two.attr.Key) < old(m.one.attr.Key))) ==> m.current == old(m.one.attr) && m.one.iter.idx == old(m.one.iter.idx) + 1
//@   ensures ok && !old(m.one.done) && !old(m.two.done) && old(m.one.attr.Key) == old(m.two.attr.Key) ==> m.two.iter.idx == old(m.two.iter.idx) + 1
//@   ensures ok && !old(m.one.done) && (old(m.two.done) || old(m.one.attr.Key) < old(m.two.attr.Key)) ==> m.two.iter.idx == old(m.two.iter.idx)
//@   ensures ok && !old(m.two.done) && (old(m.one.done) || old(m.two.attr.Key) < old(m.one.attr.Key)) ==> m.current == old(m.two.attr) && m.two.iter.idx == old(m.two.iter.idx) + 1 && m.one.iter.idx == old(m.one.iter.idx)
//@ func (m *MergeIterator) Attribute() (kv KeyValue)
//@   requires m != nil
//@   ensures kv == m.current
//@ axiom setLen_invalid: forall d Distinct : d.iface == nil ==> setLen(d) == 0
