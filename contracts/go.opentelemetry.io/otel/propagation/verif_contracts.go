//go:build verif

// Contracts for package propagation. Comment-only file (build tag verif). Checked by /verif/bin/govc.

package propagation

//@ props C03

// carriers are third-party: Get is used as a deterministic function of the key (assumed)
//@ interface TextMapCarrier.Get(key string) (v string)
//@   pure

// ======================================================================== C03 traceparent: malformed headers are never accepted
//@ spec lowerHex(c byte) bool = ('0' <= c && c <= '9') || ('a' <= c && c <= 'f')
//@ spec hexv(c byte) int = ite('0' <= c && c <= '9', int(c) - 48, int(c) - 87)

// upperHex: some BYTE of v is one of 'A'..'F' (multi-byte characters never contain such a byte)
//@ func upperHex(v string) (r bool)
//@   ensures r == (exists i in 0 .. len(v) : 'A' <= v[i] && v[i] <= 'F')
//@   modifies
//@   loop#1 invariant forall i in 0 .. $off : !('A' <= v[i] && v[i] <= 'F')

// extractPart: accepted only if the text up to the first '-' (or the end) consists of exactly n LOWER-CASE hex digits; then *h is
// what followed the delimiter (of dst only the first byte's value is restated here - it is what the version and flags checks need; the rest is hex.Decode's job: library model). For every input, *h is advanced in the same way.
//@ func extractPart(dst []byte, h *string, n int) (ok bool)
//@   overflow assumed
//@   requires h != nil && n >= 0 && 2 * len(dst) == n
//@   modifies h, elems(dst)
//@   ensures ok ==> len(old(*h)) >= n && (forall i in 0 .. n : lowerHex(old(*h)[i]))
//@   ensures ok ==> (len(old(*h)) == n && *h == "") || (len(old(*h)) > n && old(*h)[n] == '-' && *h == old(*h)[n+1:])
//@   ensures ok && n >= 2 ==> int(dst[0]) == 16 * hexv(old(*h)[0]) + hexv(old(*h)[1])

// extract: a span context is only ever returned for a header of the form  vv-tttttttttttttttttttttttttttttttt-ssssssssssssssss-ff[-...]
// with LOWER-CASE hex digits only, version vv != ff, and for version 00 nothing after the flags and flags <= 02; in every other
// case the result is the zero (invalid) span context. (tp = the traceparent header of the carrier)
//@ spec tpShape(tp string) bool = len(tp) >= 55 && lowerHex(tp[0]) && lowerHex(tp[1]) && tp[2] == '-' && (forall i in 3 .. 35 : lowerHex(tp[i])) && tp[35] == '-' && (forall i in 36 .. 52 : lowerHex(tp[i])) && tp[52] == '-' && lowerHex(tp[53]) && lowerHex(tp[54]) && (len(tp) == 55 || tp[55] == '-')
//@ func (tc TraceContext) extract(carrier TextMapCarrier) (sc trace.SpanContext)
//@   overflow assumed
//@   unchecked frame local arrays and the parsed tracestate are written
//@   requires carrier != nil
//@   ensures sc.IsValid() ==> tpShape(carrier.Get("traceparent"))
//@   ensures sc.IsValid() ==> !(carrier.Get("traceparent")[0] == 'f' && carrier.Get("traceparent")[1] == 'f')
//@   assert@call NewSpanContext#1 : version == 16 * hexv(carrier.Get("traceparent")[0]) + hexv(carrier.Get("traceparent")[1]) && version <= 254 && (version == 0 ==> h == "" && opts[0] <= 2)
//@   ensures sc.IsValid() ==> sc.remote && sc.traceFlags <= 1

// ======================================================================== C03 Inject
// nothing is written for an invalid span context; otherwise the tracestate header is written exactly when the tracestate is
// non-empty (with its String()), and the traceparent header is always written, built from version "00", the trace ID (16 bytes),
// the span ID (8 bytes) and ONE flag byte that keeps only the sampled bit, each preceded by '-' and hex-encoded
//@ ghost var injTS int
//@ func (tc TraceContext) Inject(ctx context.Context, carrier TextMapCarrier)
//@   overflow assumed
//@   unchecked frame,no-panic the carrier is third-party code; strings.Builder and encoding/hex
//@   requires carrier != nil
//@   assert@call Set#1 : sc.IsValid() && $arg1 == "tracestate" && $arg2 == ts && ts != ""
//@   ghost@entry : injTS = 0
//@   ghost@call Set#1 : injTS = 1
//@   loop#1 invariant ts != "" ==> injTS == 1
//@   assert@call Set#2 : sc.IsValid() && $arg1 == "traceparent" && int(flags) == int(sc.traceFlags) % 2 && (ts != "" ==> injTS == 1)
//@   assert@call WriteString#1 : $arg1 == versionPart
//@   assert@call WriteByte#* : $arg1 == '-'
//@   assert@call Encode#* : $arg1 === src && ($k == 0 ==> len(src) == 16) && ($k == 1 ==> len(src) == 8) && ($k == 2 ==> len(src) == 1)
