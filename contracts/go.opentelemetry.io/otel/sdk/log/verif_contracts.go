//go:build verif

// Contracts for package sdk/log (properties C06, C17, C20). Comment-only file (build tag verif). Checked by /verif/bin/govc.

package log

// representation invariant of a log record: nFront counts the used slots of the inline array, counters are non-negative
//@ typeinv Record = 0 <= self.nFront && self.nFront <= 5 && 0 <= self.dropped

//@ props C17

// the index maps come from a sync.Pool whose New makes an empty map and whose Put is always preceded by clear():
// getIndex hands out an empty map owned by the caller (assumed)
//@ func getIndex() (m map[string]int)
//@   prop -
//@   trusted "sync.Pool hands out an exclusively owned map that putIndex cleared before returning it to the pool"
//@   ensures m != nil && fresh(m) && (forall k string : !has(m, k))
//@ func putIndex(index map[string]int)
//@   prop -
//@   trusted "clear(index) and return it to the sync.Pool"
//@   modifies index
//@ func logAttrDropped()
//@   prop -
//@   trusted "logs once through internal/global (go-logr)"

//@ func (r *Record) addDropped(n int)
//@   overflow assumed
//@   requires r != nil && n >= 0
//@   modifies r.dropped
//@   ensures r.dropped == old(r.dropped) + n
//@ func (r *Record) setDropped(n int)
//@   requires r != nil && n >= 0
//@   modifies r.dropped
//@   ensures r.dropped == n

// head: at most n attributes are kept when the limit is positive, the rest is counted as dropped
//@ func head(kvs []log.KeyValue, n int) (out []log.KeyValue, dropped int)
//@   ensures n > 0 && len(kvs) > n ==> len(out) == n && dropped == len(kvs) - n && samearray(out, kvs)
//@   ensures n < 0 || (n > 0 && len(kvs) <= n) ==> out === kvs && dropped == 0
//@   ensures n == 0 ==> len(out) == 0 && dropped == len(kvs)
//@   known KF-C17-count-limit-zero when n == 0 && len(kvs) > 0

// dedup: in place over the caller's array; keys unique afterwards, every dropped duplicate is counted, no key is lost
//@ spec uniqueKeys(l []log.KeyValue) bool = forall i in 0 .. len(l) : forall j in 0 .. i : l[i].Key != l[j].Key
//@ spec indexed(l []log.KeyValue, m map[string]int) bool = (forall i in 0 .. len(l) : has(m, l[i].Key) && m[l[i].Key] == i) && (forall k string : has(m, k) ==> 0 <= m[k] && m[k] < len(l) && l[m[k]].Key == k)
//@ func dedup(kvs []log.KeyValue) (unique []log.KeyValue, dropped int)
//@   overflow assumed
//@   modifies elems(kvs)
//@   ensures samearray(unique, kvs) && len(unique) + dropped == len(kvs) && dropped >= 0
//@   ensures uniqueKeys(unique)
//@   ensures forall i in 0 .. len(kvs) : exists j in 0 .. len(unique) : unique[j].Key == old(kvs[i].Key)
//@   loop#1 invariant samearray(unique, kvs) && cap(unique) == cap(kvs) && 0 <= len(unique) && len(unique) + dropped == $k && dropped >= 0 && index != nil
//@   loop#1 invariant indexed(unique, index)
//@   loop#1 invariant forall i in $k .. len(kvs) : kvs[i] == old(kvs[i])
//@   loop#1 invariant forall i in 0 .. $k : has(index, old(kvs[i].Key))
//@   loop#1 invariant framed()

// ---- value-length limit: limitedV(limit, v) is an abstract predicate ("v went through the limiter with this limit");
// it is established only by applyValueLimits, so a stored attribute satisfies it only if it was limited on the way in.
//@ spec limitedV(limit int, v log.Value) bool
//@ spec limitedKV(limit int, kv log.KeyValue) bool = limitedV(limit, kv.Value)
// accessors and constructors of log.Value (module log): deterministic functions of the value (assumed); AsSlice/AsMap return
// the value's own storage (same slice for the same value)
//@ extern go.opentelemetry.io/otel/log Value.Kind() (k log.Kind)
//@   pure
//@   trusted "accessor of module log"
//@ extern go.opentelemetry.io/otel/log Value.AsString() (s string)
//@   pure
//@   trusted "accessor of module log"
//@ extern go.opentelemetry.io/otel/log Value.AsSlice() (sl []log.Value)
//@   pure
//@   trusted "accessor of module log"
//@ extern go.opentelemetry.io/otel/log Value.AsMap() (kvs []log.KeyValue)
//@   pure
//@   trusted "accessor of module log"
//@ extern go.opentelemetry.io/otel/log StringValue(v string) (r log.Value)
//@   pure
//@   trusted "constructor of module log"
//@ extern go.opentelemetry.io/otel/log SliceValue(vs []log.Value) (r log.Value)
//@   trusted "constructor of module log"
//@   modifies
//@ extern go.opentelemetry.io/otel/log MapValue(kvs []log.KeyValue) (r log.Value)
//@   trusted "constructor of module log"
//@   modifies

// applyValueLimits (verified, except that limitedV of the RESULT is its definition: `assumes`): a string longer than the limit is
// replaced by truncate(limit, s); every element of a slice value is replaced by its limited version; a map value is de-duplicated,
// the duplicates are counted as dropped, and every entry is replaced by its limited version; other kinds pass through unchanged
//@ func (r *Record) applyValueLimits(val log.Value) (out log.Value)
//@   prop C17
//@   overflow assumed
//@   unchecked frame,no-panic the slices returned by log.Value accessors (module log) are rewritten in place; accessors are unknown calls
//@   requires r != nil
//@   modifies r.dropped
//@   assumes limitedV(r.attributeValueLengthLimit, out)
//@   ensures r.dropped >= old(r.dropped)
//@   assert@call truncate#1 : $arg0 == r.attributeValueLengthLimit && $arg1 == s && len(s) > r.attributeValueLengthLimit
//@   assert@call Record.applyValueLimits#1 : $arg1 == sl[i]
//@   assert@store elem#1 : limitedV(r.attributeValueLengthLimit, $val)
//@   assert@call dedup#1 : true
//@   assert@call Record.addDropped#1 : $arg1 == dropped
//@   assert@call Record.applyAttrLimits#1 : $arg1 == kvs[i]
//@   assert@store elem#2 : limitedKV(r.attributeValueLengthLimit, $val)
//@   assert@call SliceValue#1 : $arg0 === sl && (forall j in 0 .. len(sl) : limitedV(r.attributeValueLengthLimit, sl[j]))
//@   assert@call MapValue#1 : $arg0 === kvs && (forall j in 0 .. len(kvs) : limitedKV(r.attributeValueLengthLimit, kvs[j]))
//@   loop#1 invariant r.dropped >= old(r.dropped) && r.attributeValueLengthLimit == old(r.attributeValueLengthLimit) && (forall j in 0 .. $k : limitedV(r.attributeValueLengthLimit, sl[j]))
//@   loop#2 invariant r.dropped >= old(r.dropped) && r.attributeValueLengthLimit == old(r.attributeValueLengthLimit) && (forall j in 0 .. $k : limitedKV(r.attributeValueLengthLimit, kvs[j]))
//@ func (r *Record) applyAttrLimits(attr log.KeyValue) (out log.KeyValue)
//@   requires r != nil
//@   modifies r.dropped
//@   ensures out.Key == attr.Key && limitedKV(r.attributeValueLengthLimit, out) && r.dropped >= old(r.dropped)

// addAttrs: every attribute offered is stored (inline slots first, then the back slice), each one limited on the way in
//@ func (r *Record) addAttrs(attrs []log.KeyValue)
//@   overflow assumed
//@   requires r != nil
//@   modifies r.front, r.nFront, r.back, r.dropped, elems(attrs), elemscap(r.back)
//@   ensures r.nFront + len(r.back) == old(r.nFront) + old(len(r.back)) + len(attrs) && r.nFront >= old(r.nFront) && r.nFront <= 5 && r.dropped >= old(r.dropped)
//@   ensures r.attributeValueLengthLimit == old(r.attributeValueLengthLimit) && r.attributeCountLimit == old(r.attributeCountLimit)
//@   assert@store front#* : limitedKV(r.attributeValueLengthLimit, $val)
//@   assert@call Grow#1 : forall k in i .. len(attrs) : limitedKV(r.attributeValueLengthLimit, attrs[k])
//@   loop#1 invariant 0 <= i && i <= len(attrs) && r.nFront == old(r.nFront) + i && r.nFront <= 5 && r.back === old(r.back) && r.dropped >= old(r.dropped) && framed()
//@   loop#2 invariant forall k in i .. i + $k : limitedKV(r.attributeValueLengthLimit, attrs[k])
//@   loop#2 invariant r.nFront == old(r.nFront) + i && r.back === old(r.back) && r.dropped >= old(r.dropped) && framed()

// attrIndex: key -> position; negative values -i-1 address the inline array, non-negative ones the back slice
//@ func (r *Record) attrIndex() (index map[string]int)
//@   requires r != nil
//@   ensures index != nil && fresh(index)
//@   ensures forall k string : has(index, k) ==> (index[k] < 0 ==> 0 <= -(index[k] + 1) && -(index[k] + 1) < r.nFront) && (index[k] >= 0 ==> index[k] < len(r.back))
//@   loop#1 invariant 0 <= i && i <= r.nFront && index != nil && fresh(index) && framed()
//@   loop#1 invariant forall k string : has(index, k) ==> index[k] < 0 && 0 <= -(index[k] + 1) && -(index[k] + 1) < r.nFront
//@   loop#2 invariant 0 <= i && i <= len(r.back)
//@   loop#2 invariant index != nil && fresh(index)
//@   loop#2 invariant framed()
//@   loop#2 invariant forall k string : has(index, k) ==> (index[k] < 0 ==> 0 <= -(index[k] + 1) && -(index[k] + 1) < r.nFront) && (index[k] >= 0 ==> index[k] < len(r.back))

// SetAttributes: the count limit holds afterwards, and every stored attribute was limited on the way in; the count limit is
// applied to the DE-DUPLICATED list (so the earliest distinct keys are the ones retained)
//@ func (r *Record) SetAttributes(attrs []log.KeyValue)
//@   overflow assumed
//@   known KF-C17-count-limit-zero when r.attributeCountLimit == 0
//@   requires r != nil
//@   modifies r.front, r.nFront, r.back, r.dropped, elems(attrs)
//@   ensures r.attributeCountLimit > 0 ==> r.nFront + len(r.back) <= r.attributeCountLimit
//@   ensures r.nFront + len(r.back) <= len(attrs)
//@   assert@call head#1 : uniqueKeys($arg0)
//@   assert@store front#* : limitedKV(r.attributeValueLengthLimit, $val)
//@   assert@store elem#* : limitedKV(r.attributeValueLengthLimit, $val)
//@   loop#1 invariant 0 <= i && i <= len(attrs) && r.nFront == i && r.nFront <= 5 && r.dropped >= 0
//@   loop#1 invariant r.attributeCountLimit == old(r.attributeCountLimit) && r.attributeValueLengthLimit == old(r.attributeValueLengthLimit)
//@   loop#1 invariant framed("frame.S_")
//@   loop#1 invariant framed("frame.elems")
//@   loop#2 invariant r.dropped >= 0 && r.nFront <= 5 && 0 <= r.nFront && r.attributeCountLimit == old(r.attributeCountLimit) && r.attributeValueLengthLimit == old(r.attributeValueLengthLimit) && framed("frame.S_") && fresh(r.back) && framed("frame.elems")

// AddAttributes: whether an attribute is new or overwrites an existing key, what is stored in the record was limited
// on the way in; with a positive count limit the record never holds more than the limit
//@ func (r *Record) AddAttributes(attrs []log.KeyValue)
//@   overflow assumed
//@   known KF-C17-count-limit-zero when r.attributeCountLimit == 0
//@   unchecked frame both dedup paths write the caller's slice and the record; only the stores into the record are pinned down here
//@   requires r != nil && disjoint(attrs, r.back)
//@   ensures r.attributeCountLimit > 0 && old(r.nFront) + old(len(r.back)) <= r.attributeCountLimit ==> r.nFront + len(r.back) <= r.attributeCountLimit
//@   assert@call head#1 : uniqueKeys($arg0)
//@   assert@store front#* : limitedKV(r.attributeValueLengthLimit, $val)
//@   assert@store elem#2 : limitedKV(r.attributeValueLengthLimit, $val)
//@   loop#1 invariant indexed(unique, uIndex) && samearray(unique, attrs) && cap(unique) == cap(attrs) && len(unique) <= $k && uIndex != nil && rIndex != nil
//@   loop#1 invariant r.nFront == old(r.nFront) && len(r.back) == old(len(r.back)) && r.attributeCountLimit == old(r.attributeCountLimit) && r.attributeValueLengthLimit == old(r.attributeValueLengthLimit) && r.nFront <= 5 && 0 <= r.nFront && r.dropped >= 0 && r.back === old(r.back)
//@   loop#1 invariant forall k string : has(rIndex, k) ==> (rIndex[k] < 0 ==> 0 <= -(rIndex[k] + 1) && -(rIndex[k] + 1) < r.nFront) && (rIndex[k] >= 0 ==> rIndex[k] < len(r.back))

// ---- truncate: same code and same contract text as sdk/trace.truncate (C04)
//@ func truncate(limit int, s string) (r string)
//@   ensures limit < 0 || len(s) <= limit ==> r == s
//@   loop#1 invariant 0 <= count && count <= limit && count == runes_upto(s, $off)
//@   loop#2 invariant 0 <= i && i <= len(s) && count <= limit
//@   assert@return#2 : runes_upto(s, i) == limit
//@   assert@return#3 : count == runes_upto(s, len(s)) && count <= limit

// ======================================================================== C06 the record queue of the batch processor
// A queue is a fixed cyclic list of q.cap ring nodes. Ghost view: rnode(q, i) is the i-th node (0 <= i < q.cap) and
// rpos(n) the position of node n; both are uninterpreted - a precondition wf(q) says that SOME such numbering exists,
// and every obligation is proved for all numberings. The abstract content of the queue is the sequence
//   content(q, 0), ..., content(q, q.len-1)      (oldest first),   content(q, i) = Value of the node i steps after q.read.
//@ spec rnode(q *queue, i int) *ring
//@ spec rpos(n *ring) int
//@ spec wrap(c int, x int) int = ite(x >= c, x - c, x)
//@ spec wf(q *queue) bool = q.cap >= 1 && 0 <= q.len && q.len <= q.cap && (forall i in 0 .. q.cap : rnode(q, i) != nil && rpos(rnode(q, i)) == i && rnode(q, i).next == rnode(q, wrap(q.cap, i + 1))) && 0 <= rpos(q.read) && rpos(q.read) < q.cap && rnode(q, rpos(q.read)) == q.read && 0 <= rpos(q.write) && rpos(q.write) < q.cap && rnode(q, rpos(q.write)) == q.write && rpos(q.write) == wrap(q.cap, rpos(q.read) + q.len)
//@ spec content(q *queue, i int) Record = rnode(q, wrap(q.cap, rpos(q.read) + i)).Value

//@ guarded_by queue.Mutex: len, read, write
// wf is the invariant of the queue's lock: whoever acquires it finds a well-formed queue and must leave one
//@ lockinv queue.Mutex: wf(self)

//@ func (r *ring) Next() (n *ring)
//@   prop C06
//@   requires r != nil && r.next != nil
//@   ensures n == r.next
//@   modifies

// Enqueue: appended at the end; when full, the OLDEST record is dropped (and counted) and all others keep their order
//@ func (q *queue) Enqueue(r Record) (n int)
//@   prop C06
//@   acquires q.Mutex
//@   overflow assumed
//@   unchecked frame the written ring node is named through the ghost numbering
//@   requires q != nil
//@   ensures q.cap == old(q.cap) && n == q.len
//@   ensures old(q.len) < q.cap ==> q.len == old(q.len) + 1 && q.dropped.v == old(q.dropped.v) && content(q, old(q.len)) == r && (forall i in 0 .. old(q.len) : content(q, i) == old(content(q, i)))
//@   ensures old(q.len) == q.cap ==> q.len == q.cap && q.dropped.v == old(q.dropped.v) + 1
//@   ensures old(q.len) == q.cap ==> content(q, q.cap - 1) == r
//@   ensures old(q.len) == q.cap ==> (forall i in 0 .. q.cap - 1 : content(q, i) == old(content(q, i + 1)))

//@ func (q *queue) Len() (n int)
//@   prop C06
//@   acquires q.Mutex
//@   requires q != nil
//@   ensures n == q.len
//@   modifies

// TryDequeue: the oldest min(len(buf), q.len) records are copied to buf in order and offered to write as ONE batch that is
// never longer than buf; they leave the queue only if write accepted them, otherwise the queue is exactly as before
//@ func (q *queue) TryDequeue(buf []Record, write func([]Record) bool) (n int)
//@   prop C06
//@   acquires q.Mutex
//@   overflow assumed
//@   unchecked frame buf is written; ring nodes are only read
//@   requires q != nil && write != nil
//@   ensures q.cap == old(q.cap) && n == q.len
//@   ensures forall i in 0 .. min(len(buf), old(q.len)) : buf[i] == old(content(q, i))
//@   ensures (q.len == old(q.len) - min(len(buf), old(q.len)) && (forall i in 0 .. q.len : content(q, i) == old(content(q, i + min(len(buf), q.len))))) || (q.len == old(q.len) && q.read == old(q.read) && (forall i in 0 .. q.len : content(q, i) == old(content(q, i))))
//@   assert@call write#1 : len($arg0) == min(len(buf), old(q.len)) && len($arg0) <= len(buf) && samearray($arg0, buf) && q.len == old(q.len)
//@   assert@store len#1 : write(buf[:n]) && n == min(len(buf), old(q.len))
//@   assert@store read#2 : !write(buf[:n]) && $val == old(q.read)
//@   loop#1 invariant 0 <= i && i <= n && n == min(len(buf), q.len) && q.len == old(q.len) && q.cap == old(q.cap) && q.write == old(q.write) && origRead == old(q.read)
//@   loop#1 invariant q.read == rnode(q, wrap(q.cap, rpos(old(q.read)) + i))
//@   loop#1 invariant forall j in 0 .. i : buf[j] == old(content(q, j))
//@   loop#1 invariant forall j in 0 .. q.cap : rnode(q, j) != nil && rpos(rnode(q, j)) == j && rnode(q, j).next == rnode(q, wrap(q.cap, j + 1)) && rnode(q, j).Value == old(rnode(q, j).Value)

// Flush: everything, oldest first; the queue is empty afterwards
//@ func (q *queue) Flush() (out []Record)
//@   prop C06
//@   acquires q.Mutex
//@   overflow assumed
//@   unchecked frame ring nodes are only read
//@   requires q != nil
//@   ensures q.len == 0 && q.cap == old(q.cap) && len(out) == old(q.len) && fresh(out)
//@   ensures forall i in 0 .. len(out) : out[i] == old(content(q, i))
//@   loop#1 invariant 0 <= $k && len(out) == old(q.len) && fresh(out) && q.len == old(q.len) && q.cap == old(q.cap) && q.write == old(q.write)
//@   loop#1 invariant q.read == rnode(q, wrap(q.cap, rpos(old(q.read)) + $k))
//@   loop#1 invariant forall j in 0 .. $k : out[j] == old(content(q, j))
//@   loop#1 invariant forall j in 0 .. q.cap : rnode(q, j) != nil && rpos(rnode(q, j)) == j && rnode(q, j).next == rnode(q, wrap(q.cap, j + 1)) && rnode(q, j).Value == old(rnode(q, j).Value)

// chunkExporter: every export handed on is a non-empty piece of at most c.size records, the pieces are consecutive
// (each starts where the previous one ended) and after a complete run they cover the whole input
//@ ghost var chunked int
//@ func (c chunkExporter) Export(ctx context.Context, records []Record) (err error)
//@   prop C06
//@   overflow assumed
//@   unchecked frame third-party exporter
//@   requires c.size >= 1 && c.Exporter != nil
//@   ghost@entry : chunked = 0
//@   assert@call Export#* : i == chunked && 0 <= i && i < j && j <= len(records) && j - i <= c.size && len($arg2) == j - i && $arg2 === records[i:j] && (j == len(records) || j - i == c.size)
//@   ghost@call Export#* : chunked = j
//@   assert@return#2 : chunked == len(records)
//@   loop#1 invariant n == len(records) && 0 <= i && j == min(i + c.size, n) && chunked == min(i, n)
//@   loop#1 modifies ghost chunked

// Clone: the copy shares no attribute storage with the original
//@ func (r *Record) Clone() (res Record)
//@   prop C06 C17
//@   requires r != nil
//@   ensures len(res.back) == len(r.back) && (forall i in 0 .. len(r.back) : res.back[i] == r.back[i]) && (len(r.back) > 0 ==> fresh(res.back)) && res.nFront == r.nFront && res.front == r.front
//@   modifies

// ---- bufferExporter: the input channel is sent to only with inputMu held and only while not stopped, and closed only
// with inputMu held, after stopped was set, by the one call that set it. (These are the premises of "no send on a closed
// channel"; the conclusion itself is an argument over all interleavings and is not mechanised.)
//@ guarded_by bufferExporter.inputMu: input
//@ func (e *bufferExporter) enqueue(ctx context.Context, records []Record, rCh chan<- error) (err error)
//@   prop C06
//@   acquires e.inputMu
//@   unchecked frame channel operations
//@   requires e != nil && ctx != nil
//@   assert@call send#* : holds(e.inputMu) && e.stopped.v == 0 && $arg0 == e.input && samearray($arg1.records, records) && len($arg1.records) == len(records)
//@ func (e *bufferExporter) EnqueueExport(records []Record) (ok bool)
//@   prop C06
//@   acquires e.inputMu
//@   unchecked frame channel operations
//@   requires e != nil
//@   assert@call send#* : holds(e.inputMu) && e.stopped.v == 0 && $arg0 == e.input && samearray($arg1.records, records) && len($arg1.records) == len(records)
//@ func (e *bufferExporter) Shutdown(ctx context.Context) (err error)
//@   prop C06
//@   acquires e.inputMu
//@   unchecked frame channel operations, third-party exporter
//@   requires e != nil && ctx != nil && e.Exporter != nil
//@   ensures e.stopped.v != 0
//@   assert@call close#* : holds(e.inputMu) && e.stopped.v != 0 && old(e.stopped.v) == 0 && $arg0 == e.input
//@ func (e *bufferExporter) Export(ctx context.Context, records []Record) (err error)
//@   prop -
//@   trusted "synchronous export through the buffer (channels): only its no-write frame is assumed"
//@ func (e *bufferExporter) ForceFlush(ctx context.Context) (err error)
//@   prop -
//@   trusted "flush through the buffer (channels): only its no-write frame is assumed"
//@ func (e *bufferExporter) Ready() (ok bool)
//@   prop -
//@   trusted "channel length/capacity: only its no-write frame is assumed"

// ---- BatchProcessor
// OnEmit: nothing is enqueued once the processor is stopped; what is enqueued is a clone that shares no attribute storage
//@ func (b *BatchProcessor) OnEmit(ctx context.Context, r *Record) (err error)
//@   prop C06
//@   unchecked frame the queue is written through its own contract
//@   requires b != nil && r != nil
//@   ensures err == nil
//@   assert@call queue.Enqueue#* : b.stopped.v == 0 && $arg0 == b.q
//@   assert@call queue.Enqueue#* : len($arg1.back) == len(r.back)
//@   assert@call queue.Enqueue#* : len(r.back) > 0 ==> !samearray($arg1.back, r.back)
//@   assert@call queue.Enqueue#* : forall i in 0 .. len(r.back) : $arg1.back[i] == r.back[i]

// Shutdown: only the call that flips `stopped` flushes; the final export is the whole queue content, oldest first, handed
// to the exporter chain (which chunks it)
//@ ghost var bpExpShut int
//@ func (b *BatchProcessor) Shutdown(ctx context.Context) (err error)
//@   prop C06 C15
//@   unchecked frame channel operations, exporter chain
//@   requires b != nil && ctx != nil && b.exporter != nil && b.exporter.Exporter != nil
//@   ensures b.stopped.v != 0
// the call that flips `stopped` shuts the exporter chain down EXACTLY ONCE on every path - also when the context is done before
// the poll goroutine has stopped (no later call could make up for it: they all return at the stopped check); other calls never do
//@   modifies ghost bpExpShut
//@   ghost@entry : bpExpShut = 0
//@   ghost@call bufferExporter.Shutdown#* : bpExpShut = bpExpShut + 1
//@   assert@call bufferExporter.Shutdown#* : old(b.stopped.v) == 0 && $arg0 == b.exporter
//@   assert@return#* : (old(b.stopped.v) == 0 && b.q != nil ==> bpExpShut == 1) && (old(b.stopped.v) != 0 ==> bpExpShut == 0)
//@   assert@call queue.Flush#* : old(b.stopped.v) == 0 && b.stopped.v != 0
//@   assert@call bufferExporter.Export#* : old(b.stopped.v) == 0 && len($arg2) == old(b.q.len)

// ForceFlush: a stopped processor exports nothing
//@ func (b *BatchProcessor) ForceFlush(ctx context.Context) (err error)
//@   prop C06
//@   unchecked frame,no-panic closure-driven flush loop
//@   requires b != nil && ctx != nil && b.exporter != nil
//@   assert@call bufferExporter.ForceFlush#* : old(b.stopped.v) == 0 && b.q != nil
// the flush buffer has room for the whole queue (its capacity, not one batch), so one successful dequeue empties the queue
//@   assert@store buf#1 : len($val) == b.q.cap
//@   loop#1 invariant b.stopped.v == old(b.stopped.v)
//@   loop#1 invariant b.q == old(b.q)
//@   loop#1 invariant b.q != nil

// the flush attempt: the whole buffer is offered to the queue of this processor, and what was dequeued goes to the export queue
//@ func (b *BatchProcessor) ForceFlush$1() (r bool)
//@   prop C06
//@   unchecked frame,no-panic the export queue is a channel
//@   requires b != nil && b.q != nil && b.exporter != nil
//@   assert@call queue.TryDequeue#1 : $arg0 == b.q && $arg1 === buf

// newQueue: ASSUMED to establish the lock invariant (a cyclic list of `size` distinct nodes). Not proved: wf is stated over an
// uninterpreted numbering of the nodes, and establishing it needs a witness for that numbering, which the contract
// language cannot give. Listed under assumptions.
//@ func newQueue(size int) (q *queue)
//@   prop -
//@   trusted "constructor: assumed to build a cyclic list of size distinct ring nodes, i.e. to establish wf(q) with len 0 (not proved)"
//@   requires size >= 1
//@   ensures q != nil && fresh(q) && wf(q) && q.len == 0 && q.cap == size

// the poll goroutine's write callback: a buffer that was handed to the export queue is never written again - after a
// successful EnqueueExport the goroutine continues with a freshly allocated buffer of the same length
//@ func (b *BatchProcessor) poll$1$1(r []Record) (ok bool)
//@   prop C06
//@   unchecked frame,no-panic the export queue is a channel
//@   requires b != nil && b.exporter != nil
//@   ensures ok && old(len(buf)) > 0 ==> fresh(buf) && len(buf) == old(len(buf))
//@   ensures !ok ==> samearray(buf, old(buf)) && len(buf) == old(len(buf))

// ======================================================================== C20 log SDK configuration resolvers
// the building blocks of newBatchConfig: a value below 1 is cleared (unset, so that the environment or the default applies);
// a set value is never overridden by the environment; the fallback applies exactly to unset values; clamping keeps Set
//@ func clearLessThanOne$1(s setting[$N]) (r setting[$N])
//@   prop C20
//@   instances int; time.Duration
//@   ensures s.Value < 1 ==> !r.Set && r.Value == 0
//@   ensures s.Value >= 1 ==> r == s
//@   modifies
//@ func clampMax$1(s setting[$N]) (r setting[$N])
//@   prop C20
//@   instances int
//@   ensures r.Set == s.Set && r.Value == ite(s.Value > n, n, s.Value)
//@   modifies
//@ func fallback$1(s setting[$N]) (r setting[$N])
//@   prop C20
//@   instances int; time.Duration
//@   ensures !s.Set ==> r.Set && r.Value == val
//@   ensures s.Set ==> r == s
//@   modifies
//@ func getenv$1(s setting[$N]) (r setting[$N])
//@   prop C20
//@   instances int; time.Duration
//@   overflow assumed
//@   unchecked frame error handler
//@   ensures s.Set ==> r == s
//@   ensures !s.Set && !r.Set ==> r == s

// ======================================================================== C15 logger provider lifecycle
// Logger: the stopped flag is read before anything else; the logger cache is consulted (and a recording logger created or handed
// out) only on the path on which that read said "not stopped" - a cached scope is no exception. Once stopped, the answer is the
// no-op logger. (The flag is an atomic; "p.stopped.v == 0 at the lock" is the sequential reading: this call has seen it false.)
//@ guarded_by LoggerProvider.loggersMu: loggers
//@ func (p *LoggerProvider) Logger(name string, opts []log.LoggerOption) (l log.Logger)
//@   prop C15
//@   acquires p.loggersMu
//@   overflow assumed
//@   unchecked frame,no-panic logging, option evaluation and the no-op provider are other modules
//@   requires p != nil
//@   assert@call Lock#1 : old(p.stopped.v) == 0 && p.stopped.v == 0
//@   assert@call newLogger#* : old(p.stopped.v) == 0 && holds(p.loggersMu) && $arg0 == p
//@   assert@return#1 : old(p.stopped.v) != 0
//@   ensures old(p.stopped.v) != 0 ==> !typeis(l, "*logger")

// Shutdown: the flag is set by one atomic swap; only the caller that saw it unset shuts the processors down, each exactly once
// and in order; every later (or concurrent losing) call does nothing
//@ func (p *LoggerProvider) Shutdown(ctx context.Context) (err error)
//@   prop C15
//@   overflow assumed
//@   unchecked frame,no-panic processors are third-party code
//@   requires p != nil
//@   ensures p.stopped.v != 0
//@   ensures old(p.stopped.v) != 0 ==> err == nil
//@   assert@call Shutdown#* : old(p.stopped.v) == 0 && $arg0 == old(p).processors[$k]
//@   loop#1 invariant old(p).stopped.v != 0

// ForceFlush: a stopped provider flushes nothing; otherwise every processor is flushed once, in order
//@ func (p *LoggerProvider) ForceFlush(ctx context.Context) (err error)
//@   prop C15
//@   overflow assumed
//@   unchecked frame,no-panic processors are third-party code
//@   requires p != nil
//@   ensures old(p.stopped.v) != 0 ==> err == nil
//@   assert@call ForceFlush#* : old(p.stopped.v) == 0 && $arg0 == old(p).processors[$k]

// timeoutExporter: the wrapped exporter is called synchronously - Export returns only after the wrapped Export has returned (so the
// single export goroutine never has two Export calls of the user's exporter in flight) - with the same records, under a context
// that carries the timeout; no goroutine is spawned here
//@ func (e *timeoutExporter) Export(ctx context.Context, records []Record) (err error)
//@   prop C06
//@   overflow assumed
//@   unchecked frame,no-panic context and third-party exporter
//@   requires e != nil
//@   modifies ghost teCalls
//@   ghost@entry : teCalls = 0
//@   ghost@call Export#* : teCalls = teCalls + 1
//@   assert@call Export#* : $arg2 === records
//@   assert@call WithTimeout#1 : $arg0 == ctx && $arg1 == e.timeout
//@   assert@return#* : teCalls == 1
//@ ghost var teCalls int

// ======================================================================== C17 the record a logger builds (logger.go)
// newRecord: the limits of the new record are the provider's - count limit from the count limit, value-length limit from the
// value-length limit - and they are in place BEFORE the first attribute is added (attributes are added one by one through
// AddAttributes, which enforces them); scalar fields are copied from the API record
//@ func (l *logger) newRecord(ctx context.Context, r log.Record) (nr Record)
//@   prop C17
//@   overflow assumed
//@   unchecked frame,no-panic API record accessors are another module; attributes are added through a callback
//@   requires l != nil && l.provider != nil
//@   ensures nr.attributeCountLimit == l.provider.attributeCountLimit && nr.attributeValueLengthLimit == l.provider.attributeValueLengthLimit
//@   ensures nr.resource == l.provider.resource
//@   assert@call Record.WalkAttributes#1 : newRecord.attributeCountLimit == l.provider.attributeCountLimit && newRecord.attributeValueLengthLimit == l.provider.attributeValueLengthLimit
//@ func (l *logger) newRecord$1(kv log.KeyValue) (ok bool)
//@   prop C17
//@   overflow assumed
//@   unchecked frame,no-panic the record under construction is captured by reference
//@   ensures ok
//@   assert@call Record.AddAttributes#1 : len($arg1) == 1 && $arg1[0] == kv

// newChunkExporter: chunking is installed for EVERY positive size (1 included: a backlog flushed by Shutdown / ForceFlush is still cut
// into single records), with exactly that size, around exactly that exporter; only a size <= 0 means "no chunking"
//@ func newChunkExporter(exporter Exporter, size int) (r Exporter)
//@   prop C06
//@   ensures size <= 0 ==> r == exporter
//@   ensures size > 0 ==> typeis(r, "*chunkExporter") && cast(r, "*chunkExporter").size == size && cast(r, "*chunkExporter").Exporter == exporter
//@ func newTimeoutExporter(exp Exporter, timeout time.Duration) (r Exporter)
//@   prop C06
//@   ensures timeout <= 0 ==> r == exp
//@   ensures timeout > 0 ==> typeis(r, "*timeoutExporter") && cast(r, "*timeoutExporter").timeout == timeout && cast(r, "*timeoutExporter").Exporter == exp
