//go:build verif

// Contracts for package sdk/log (properties C06, C17, C20). Comment-only file (build tag verif). Checked by /verif/bin/govc.

package log

// representation invariant of a log record: nFront counts the used slots of the inline array, counters are non-negative
//@ typeinv Record = 0 <= self.nFront && self.nFront <= 5 && 0 <= self.dropped
