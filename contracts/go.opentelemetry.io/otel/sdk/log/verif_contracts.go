//go:build verif

// Contracts for package sdk/log (properties C06, C17, C20). Comment-only file (build tag verif). Checked by /verif/bin/govc.

package log

// representation invariant of a log record: nFront counts the used slots of the inline array, counters are non-negative
//@ typeinv Record = 0 <= self.nFront && self.nFront <= 5 && 0 <= self.dropped

//@ props C17

// the index maps come from a sync.Pool whose New makes an empty map and whose Put is always preceded by clear():
// getIndex hands out an empty map owned by the caller (assumed)
//@ func getIndex() (m map[string]int)
//@   prop -
//@   trusted "sync.Pool hands out an exclusively owned map that putIndex cleared before returning it to the pool"
//@   ensures m != nil && fresh(m) && (forall k string : !has(m, k))
//@ func putIndex(index map[string]int)
//@   prop -
//@   trusted "clear(index) and return it to the sync.Pool"
//@   modifies index
//@ func logAttrDropped()
//@   prop -
//@   trusted "logs once through internal/global (go-logr)"

//@ func (r *Record) addDropped(n int)
//@   overflow assumed
//@   requires r != nil && n >= 0
//@   modifies r.dropped
//@   ensures r.dropped == old(r.dropped) + n
//@ func (r *Record) setDropped(n int)
//@   requires r != nil && n >= 0
//@   modifies r.dropped
//@   ensures r.dropped == n

// head: at most n attributes are kept when the limit is positive, the rest is counted as dropped
//@ func head(kvs []log.KeyValue, n int) (out []log.KeyValue, dropped int)
//@   ensures n > 0 && len(kvs) > n ==> len(out) == n && dropped == len(kvs) - n && samearray(out, kvs)
//@   ensures n < 0 || (n > 0 && len(kvs) <= n) ==> out === kvs && dropped == 0
//@   ensures n == 0 ==> len(out) == 0 && dropped == len(kvs)
//@   known KF-C17-count-limit-zero when n == 0 && len(kvs) > 0

// dedup: in place over the caller's array; keys unique afterwards, every dropped duplicate is counted, no key is lost
//@ spec uniqueKeys(l []log.KeyValue) bool = forall i in 0 .. len(l) : forall j in 0 .. i : l[i].Key != l[j].Key
//@ spec indexed(l []log.KeyValue, m map[string]int) bool = (forall i in 0 .. len(l) : has(m, l[i].Key) && m[l[i].Key] == i) && (forall k string : has(m, k) ==> 0 <= m[k] && m[k] < len(l) && l[m[k]].Key == k)
//@ func dedup(kvs []log.KeyValue) (unique []log.KeyValue, dropped int)
//@   overflow assumed
//@   modifies elems(kvs)
//@   ensures samearray(unique, kvs) && len(unique) + dropped == len(kvs) && dropped >= 0
//@   ensures uniqueKeys(unique)
//@   ensures forall i in 0 .. len(kvs) : exists j in 0 .. len(unique) : unique[j].Key == old(kvs[i].Key)
//@   loop#1 invariant samearray(unique, kvs) && cap(unique) == cap(kvs) && 0 <= len(unique) && len(unique) + dropped == $k && dropped >= 0 && index != nil
//@   loop#1 invariant indexed(unique, index)
//@   loop#1 invariant forall i in $k .. len(kvs) : kvs[i] == old(kvs[i])
//@   loop#1 invariant forall i in 0 .. $k : has(index, old(kvs[i].Key))
//@   loop#1 invariant framed()

// ---- value-length limit: limitedV(limit, v) is an abstract predicate ("v went through the limiter with this limit");
// it is established only by applyValueLimits, so a stored attribute satisfies it only if it was limited on the way in.
//@ spec limitedV(limit int, v log.Value) bool
//@ spec limitedKV(limit int, kv log.KeyValue) bool = limitedV(limit, kv.Value)
//@ func (r *Record) applyValueLimits(val log.Value) (out log.Value)
//@   prop -
//@   trusted "recursion over log.Value trees through the accessors of module log; establishes the abstract predicate limitedV"
//@   requires r != nil
//@   modifies r.dropped
//@   ensures limitedV(r.attributeValueLengthLimit, out) && r.dropped >= old(r.dropped)
//@ func (r *Record) applyAttrLimits(attr log.KeyValue) (out log.KeyValue)
//@   requires r != nil
//@   modifies r.dropped
//@   ensures out.Key == attr.Key && limitedKV(r.attributeValueLengthLimit, out) && r.dropped >= old(r.dropped)

// addAttrs: every attribute offered is stored (inline slots first, then the back slice), each one limited on the way in
//@ func (r *Record) addAttrs(attrs []log.KeyValue)
//@   overflow assumed
//@   requires r != nil
//@   modifies r.front, r.nFront, r.back, r.dropped, elems(attrs), elemscap(r.back)
//@   ensures r.nFront + len(r.back) == old(r.nFront) + old(len(r.back)) + len(attrs) && r.nFront >= old(r.nFront) && r.nFront <= 5 && r.dropped >= old(r.dropped)
//@   ensures r.attributeValueLengthLimit == old(r.attributeValueLengthLimit) && r.attributeCountLimit == old(r.attributeCountLimit)
//@   assert@store front#* : limitedKV(r.attributeValueLengthLimit, $val)
//@   assert@call Grow#1 : forall k in i .. len(attrs) : limitedKV(r.attributeValueLengthLimit, attrs[k])
//@   loop#1 invariant 0 <= i && i <= len(attrs) && r.nFront == old(r.nFront) + i && r.nFront <= 5 && r.back === old(r.back) && r.dropped >= old(r.dropped) && framed()
//@   loop#2 invariant forall k in i .. i + $k : limitedKV(r.attributeValueLengthLimit, attrs[k])
//@   loop#2 invariant r.nFront == old(r.nFront) + i && r.back === old(r.back) && r.dropped >= old(r.dropped) && framed()

// attrIndex: key -> position; negative values -i-1 address the inline array, non-negative ones the back slice
//@ func (r *Record) attrIndex() (index map[string]int)
//@   requires r != nil
//@   ensures index != nil && fresh(index)
//@   ensures forall k string : has(index, k) ==> (index[k] < 0 ==> 0 <= -(index[k] + 1) && -(index[k] + 1) < r.nFront) && (index[k] >= 0 ==> index[k] < len(r.back))
//@   loop#1 invariant 0 <= i && i <= r.nFront && index != nil && fresh(index) && framed()
//@   loop#1 invariant forall k string : has(index, k) ==> index[k] < 0 && 0 <= -(index[k] + 1) && -(index[k] + 1) < r.nFront
//@   loop#2 invariant 0 <= i && i <= len(r.back)
//@   loop#2 invariant index != nil && fresh(index)
//@   loop#2 invariant framed()
//@   loop#2 invariant forall k string : has(index, k) ==> (index[k] < 0 ==> 0 <= -(index[k] + 1) && -(index[k] + 1) < r.nFront) && (index[k] >= 0 ==> index[k] < len(r.back))

// SetAttributes: the count limit holds afterwards, and every stored attribute was limited on the way in; the count limit is
// applied to the DE-DUPLICATED list (so the earliest distinct keys are the ones retained)
//@ func (r *Record) SetAttributes(attrs []log.KeyValue)
//@   overflow assumed
//@   known KF-C17-count-limit-zero when r.attributeCountLimit == 0
//@   requires r != nil
//@   modifies r.front, r.nFront, r.back, r.dropped, elems(attrs)
//@   ensures r.attributeCountLimit > 0 ==> r.nFront + len(r.back) <= r.attributeCountLimit
//@   ensures r.nFront + len(r.back) <= len(attrs)
//@   assert@call head#1 : uniqueKeys($arg0)
//@   assert@store front#* : limitedKV(r.attributeValueLengthLimit, $val)
//@   assert@store elem#* : limitedKV(r.attributeValueLengthLimit, $val)
//@   loop#1 invariant 0 <= i && i <= len(attrs) && r.nFront == i && r.nFront <= 5 && r.dropped >= 0
//@   loop#1 invariant r.attributeCountLimit == old(r.attributeCountLimit) && r.attributeValueLengthLimit == old(r.attributeValueLengthLimit)
//@   loop#1 invariant framed("frame.S_")
//@   loop#1 invariant framed("frame.elems")
//@   loop#2 invariant r.dropped >= 0 && r.nFront <= 5 && 0 <= r.nFront && r.attributeCountLimit == old(r.attributeCountLimit) && r.attributeValueLengthLimit == old(r.attributeValueLengthLimit) && framed("frame.S_") && fresh(r.back) && framed("frame.elems")

// AddAttributes: whether an attribute is new or overwrites an existing key, what is stored in the record was limited
// on the way in; with a positive count limit the record never holds more than the limit
//@ func (r *Record) AddAttributes(attrs []log.KeyValue)
//@   overflow assumed
//@   known KF-C17-count-limit-zero when r.attributeCountLimit == 0
//@   unchecked frame both dedup paths write the caller's slice and the record; only the stores into the record are pinned down here
//@   requires r != nil && disjoint(attrs, r.back)
//@   ensures r.attributeCountLimit > 0 && old(r.nFront) + old(len(r.back)) <= r.attributeCountLimit ==> r.nFront + len(r.back) <= r.attributeCountLimit
//@   assert@call head#1 : uniqueKeys($arg0)
//@   assert@store front#* : limitedKV(r.attributeValueLengthLimit, $val)
//@   assert@store elem#2 : limitedKV(r.attributeValueLengthLimit, $val)
//@   loop#1 invariant indexed(unique, uIndex) && samearray(unique, attrs) && cap(unique) == cap(attrs) && len(unique) <= $k && uIndex != nil && rIndex != nil
//@   loop#1 invariant r.nFront == old(r.nFront) && len(r.back) == old(len(r.back)) && r.attributeCountLimit == old(r.attributeCountLimit) && r.attributeValueLengthLimit == old(r.attributeValueLengthLimit) && r.nFront <= 5 && 0 <= r.nFront && r.dropped >= 0 && r.back === old(r.back)
//@   loop#1 invariant forall k string : has(rIndex, k) ==> (rIndex[k] < 0 ==> 0 <= -(rIndex[k] + 1) && -(rIndex[k] + 1) < r.nFront) && (rIndex[k] >= 0 ==> rIndex[k] < len(r.back))

// ---- truncate: same code and same contract text as sdk/trace.truncate (C04)
//@ func truncate(limit int, s string) (r string)
//@   ensures limit < 0 || len(s) <= limit ==> r == s
//@   loop#1 invariant 0 <= count && count <= limit && count == runes_upto(s, $off)
//@   loop#2 invariant 0 <= i && i <= len(s) && count <= limit
//@   assert@return#2 : runes_upto(s, i) == limit
//@   assert@return#3 : count == runes_upto(s, len(s)) && count <= limit
