//go:build verif

// Contracts for package sdk/trace (properties C01, C04, C09, C10, C15, C20). Comment-only file: with the
// build tag off it is not part of the build; with it on it adds no code. Checked by /verif/bin/govc.

package trace

// ======================================================================== C09 sampling
// Third-party samplers are deterministic functions of the sampler value and the parameters (assumed).
//@ interface Sampler.ShouldSample(parameters SamplingParameters) (r SamplingResult)
//@   pure
//@   ensures r.Decision == Drop || r.Decision == RecordOnly || r.Decision == RecordAndSample

// low 8 bytes of the trace ID, big endian
//@ spec low8(a [16]byte) uint64 = uint64(a[8])<<56 | uint64(a[9])<<48 | uint64(a[10])<<40 | uint64(a[11])<<32 | uint64(a[12])<<24 | uint64(a[13])<<16 | uint64(a[14])<<8 | uint64(a[15])
//@ spec parentTS(p SamplingParameters) trace.TraceState = trace.SpanContextFromContext(p.ParentContext).traceState

// The ratio sampler's decision is a function of the low 8 bytes of the trace ID and the bound only.
//@ func (ts traceIDRatioSampler) ShouldSample(p SamplingParameters) (r SamplingResult)
//@   prop C09
//@   mode bv
//@   ensures r.Decision == ite(low8(p.TraceID) >> 1 < ts.traceIDUpperBound, RecordAndSample, Drop)
//@   ensures r.Tracestate == parentTS(p)
//@   ensures len(r.Attributes) == 0

//@ func TraceIDRatioBased(fraction float64) (s Sampler)
//@   prop C09
//@   mode bv
//@   ensures fraction >= 1 ==> typeis(s, "alwaysOnSampler")
//@   ensures fraction < 1 ==> typeis(s, "*traceIDRatioSampler")
//@   ensures fraction <= 0 ==> cast(s, "*traceIDRatioSampler").traceIDUpperBound == 0
//@   ensures 0 < fraction && fraction < 1 ==> cast(s, "*traceIDRatioSampler").traceIDUpperBound == uint64(fraction * 9223372036854775808.0)

//@ func (as alwaysOnSampler) ShouldSample(p SamplingParameters) (r SamplingResult)
//@   prop C09
//@   ensures r.Decision == RecordAndSample && r.Tracestate == parentTS(p) && len(r.Attributes) == 0
//@ func (as alwaysOffSampler) ShouldSample(p SamplingParameters) (r SamplingResult)
//@   prop C09
//@   ensures r.Decision == Drop && r.Tracestate == parentTS(p) && len(r.Attributes) == 0

// sampled at ratio r ==> sampled at every r' >= r: the bound is monotone in the ratio (floating point, exact)
//@ props C09
//@ lemma ratio_bound_monotone bv: forall a float64 : forall b float64 : 0 <= a && a <= b && b < 1 ==> uint64(a * 9223372036854775808.0) <= uint64(b * 9223372036854775808.0)
// the bound never exceeds 2^63, so among the 2^63 possible values of (low8 >> 1) exactly `bound` are sampled: share = floor(r*2^63)/2^63
//@ lemma ratio_bound_range bv: forall a float64 : 0 <= a && a < 1 ==> uint64(a * 9223372036854775808.0) < 9223372036854775808
//@ lemma ratio_share_tight bv: forall a float64 : 0 <= a && a < 1 ==> float64(uint64(a * 9223372036854775808.0)) <= a * 9223372036854775808.0 && a * 9223372036854775808.0 - float64(uint64(a * 9223372036854775808.0)) < 1.0

// ParentBased: the decision is the delegate's decision per the (valid, remote, sampled) table.
//@ spec parentSC(p SamplingParameters) trace.SpanContext = trace.SpanContextFromContext(p.ParentContext)
//@ func (pb parentBased) ShouldSample(p SamplingParameters) (r SamplingResult)
//@   prop C09
//@   requires pb.root != nil && pb.config.remoteParentSampled != nil && pb.config.remoteParentNotSampled != nil && pb.config.localParentSampled != nil && pb.config.localParentNotSampled != nil
//@   ensures !parentSC(p).IsValid() ==> r == pb.root.ShouldSample(p)
//@   ensures parentSC(p).IsValid() && parentSC(p).remote && parentSC(p).IsSampled() ==> r == pb.config.remoteParentSampled.ShouldSample(p)
//@   ensures parentSC(p).IsValid() && parentSC(p).remote && !parentSC(p).IsSampled() ==> r == pb.config.remoteParentNotSampled.ShouldSample(p)
//@   ensures parentSC(p).IsValid() && !parentSC(p).remote && parentSC(p).IsSampled() ==> r == pb.config.localParentSampled.ShouldSample(p)
//@   ensures parentSC(p).IsValid() && !parentSC(p).remote && !parentSC(p).IsSampled() ==> r == pb.config.localParentNotSampled.ShouldSample(p)

// defaults: a child follows its parent's sampled flag
//@ func configureSamplersForParentBased(samplers []ParentBasedSamplerOption) (c samplerConfig)
//@   prop C09
//@   requires forall i in 0 .. len(samplers) : samplers[i] != nil
//@   ensures len(samplers) == 0 ==> typeis(c.remoteParentSampled, "alwaysOnSampler") && typeis(c.remoteParentNotSampled, "alwaysOffSampler") && typeis(c.localParentSampled, "alwaysOnSampler") && typeis(c.localParentNotSampled, "alwaysOffSampler")
//@   loop#1 invariant $k == 0 ==> typeis(c.remoteParentSampled, "alwaysOnSampler") && typeis(c.remoteParentNotSampled, "alwaysOffSampler") && typeis(c.localParentSampled, "alwaysOnSampler") && typeis(c.localParentNotSampled, "alwaysOffSampler")

// ---- tracer.newSpan: trace continuity, flag <=> decision, recording <=> not Drop
//@ spec validTID(t trace.TraceID) bool = exists i in 0 .. 16 : t[i] != 0
//@ spec validSID(t trace.SpanID) bool = exists i in 0 .. 8 : t[i] != 0
// Third-party ID generators return valid IDs (assumed; the SDK's own generator is under contract below).
//@ interface IDGenerator.NewIDs(ctx context.Context) (tid trace.TraceID, sid trace.SpanID)
//@   ensures validTID(tid) && validSID(sid)
//@ interface IDGenerator.NewSpanID(ctx context.Context, traceID trace.TraceID) (sid trace.SpanID)
//@   ensures validSID(sid)

//@ func (tr *tracer) newNonRecordingSpan(sc trace.SpanContext) (r nonRecordingSpan)
//@   prop C09
//@   ensures r.sc == sc && r.tracer == tr

// newRecordingSpan (verified): context, parent, name and tracer are the arguments; an explicit start time is used as given, else
// the clock; every link of the config goes through AddLink, the sampler's attributes are set BEFORE the caller's (so the caller's
// win on equal keys), both through SetAttributes (limits apply)
//@ func (tr *tracer) newRecordingSpan(psc trace.SpanContext, sc trace.SpanContext, name string, sr SamplingResult, config *trace.SpanConfig) (r *recordingSpan)
//@   prop C09 C04
//@   overflow assumed
//@   unchecked frame,no-panic option plumbing of module trace (config accessors), the clock and the queues' constructors are outside the contracts; AddLink/SetAttributes write the new span
//@   requires tr != nil && tr.provider != nil && config != nil
//@   modifies
//@   ensures r != nil && fresh(r) && r.spanContext == sc && r.parent == psc && r.name == name
//@   assert@call recordingSpan.AddLink#* : $arg0 == s && fresh(s) && s.spanContext == sc && s.parent == psc && s.name == name && s.tracer == tr
//@   assert@call recordingSpan.SetAttributes#1 : $arg0 == s && $arg1 === sr.Attributes && s.spanContext == sc && s.parent == psc && s.name == name && s.tracer == tr && s.startTime === startTime
//@   assert@call recordingSpan.SetAttributes#2 : $arg0 == s
//@   assert@return#* : $ret0 == s
//@   loop#1 invariant fresh(s) && s != nil

//@ func (tr *tracer) newSpan(ctx context.Context, name string, config *trace.SpanConfig) (r trace.Span)
//@   prop C09
//@   requires tr != nil && tr.provider != nil && config != nil && tr.provider.idGenerator != nil && tr.provider.sampler != nil
//@   ensures typeis(r, "nonRecordingSpan") || typeis(r, "*recordingSpan")
//@   assert@call ShouldSample#1 : config.newRoot ==> !validTID(psc.traceID)
//@   assert@call ShouldSample#1 : validTID(psc.traceID) ==> tid == psc.traceID
//@   assert@call ShouldSample#1 : validTID(tid) && validSID(sid) && $arg1.TraceID == tid && $arg1.Name == name
//@   assert@call tracer.newNonRecordingSpan#1 : samplingResult.Decision == Drop
//@   assert@call tracer.newNonRecordingSpan#1 : sc.traceID == tid && sc.spanID == sid && sc.traceState == samplingResult.Tracestate && !sc.IsSampled() && sc.traceFlags / 2 == psc.traceFlags / 2 && !sc.remote
//@   assert@call tracer.newRecordingSpan#1 : samplingResult.Decision != Drop
//@   assert@call tracer.newRecordingSpan#1 : sc.traceID == tid && sc.spanID == sid && sc.traceState == samplingResult.Tracestate && sc.IsSampled() == (samplingResult.Decision == RecordAndSample) && sc.traceFlags / 2 == psc.traceFlags / 2 && !sc.remote

// ======================================================================== C20 configuration: bad values never crash the host
// No run-time panic for every integer the environment or an option can supply (make(chan)/make([]T) sizes).
//@ func NewBatchSpanProcessor(exporter SpanExporter, options []BatchSpanProcessorOption) (sp SpanProcessor)
//@   prop C20 C01
//@   overflow assumed
//@   requires forall i in 0 .. len(options) : options[i] != nil
//@   ensures sp != nil

// ======================================================================== ReadOnlySpan accessors (used by exporters, C13)
// A finished span handed to an exporter is a snapshot: its accessors are deterministic functions of the span value (assumed of
// third-party implementations; the SDK's snapshot type returns its fields).
//@ interface ReadOnlySpan.Name() (r string)
//@   pure
//@ interface ReadOnlySpan.SpanContext() (r trace.SpanContext)
//@   pure
//@ interface ReadOnlySpan.Parent() (r trace.SpanContext)
//@   pure
//@ interface ReadOnlySpan.SpanKind() (r trace.SpanKind)
//@   pure
//@ interface ReadOnlySpan.StartTime() (r time.Time)
//@   pure
//@ interface ReadOnlySpan.EndTime() (r time.Time)
//@   pure
//@ interface ReadOnlySpan.Attributes() (r []attribute.KeyValue)
//@   pure
//@ interface ReadOnlySpan.Links() (r []Link)
//@   pure
//@ interface ReadOnlySpan.Events() (r []Event)
//@   pure
//@ interface ReadOnlySpan.Status() (r Status)
//@   pure
//@ interface ReadOnlySpan.DroppedAttributes() (r int)
//@   pure
//@ interface ReadOnlySpan.DroppedLinks() (r int)
//@   pure
//@ interface ReadOnlySpan.DroppedEvents() (r int)
//@   pure
//@ interface ReadOnlySpan.ChildSpanCount() (r int)
//@   pure
//@ interface ReadOnlySpan.InstrumentationScope() (r instrumentation.Scope)
//@   pure
//@ interface ReadOnlySpan.Resource() (r *resource.Resource)
//@   pure

// ======================================================================== C04 span contents against a reference model
// bounded FIFO: capacity 0 drops everything, negative capacity is unbounded, otherwise the oldest element is evicted
//@ typeinv evictedQueue = self.capacity > 0 ==> len(self.queue) <= self.capacity
//@ func (eq *evictedQueue[T]) add(value T)
//@   prop C04
//@   instances Event; Link
//@   overflow assumed
//@   requires eq != nil
//@   modifies eq, elemscap(eq.queue)
//@   ensures eq.capacity == old(eq.capacity)
//@   ensures old(eq.capacity) == 0 ==> eq.queue === old(eq.queue) && eq.droppedCount == old(eq.droppedCount) + 1
//@   ensures old(eq.capacity) != 0 && !(old(eq.capacity) > 0 && old(len(eq.queue)) == old(eq.capacity)) ==> len(eq.queue) == old(len(eq.queue)) + 1 && eq.droppedCount == old(eq.droppedCount) && eq.queue[len(eq.queue)-1] == value && (forall i in 0 .. old(len(eq.queue)) : eq.queue[i] == old(eq.queue[i]))
//@   ensures old(eq.capacity) > 0 && old(len(eq.queue)) == old(eq.capacity) ==> len(eq.queue) == old(len(eq.queue)) && eq.droppedCount == old(eq.droppedCount) + 1 && eq.queue[len(eq.queue)-1] == value && (forall i in 0 .. len(eq.queue)-1 : eq.queue[i] == old(eq.queue[i+1]))

// status precedence Unset < Error < Ok; description only with Error; nothing changes once the span has ended
//@ func (s *recordingSpan) SetStatus(code codes.Code, description string)
//@   prop C04 C10
//@   acquires s.mu
//@   modifies s.status
//@   ensures s != nil && (!old(s.endTime.IsZero()) || old(s.status.Code) > code) ==> s.status == old(s.status)
//@   ensures s != nil && old(s.endTime.IsZero()) && old(s.status.Code) <= code ==> s.status.Code == code && s.status.Description == ite(code == codes.Error, description, "")

//@ func (s *recordingSpan) SetName(name string)
//@   prop C04 C10
//@   acquires s.mu
//@   modifies s.name
//@   ensures s != nil ==> s.name == ite(old(s.endTime.IsZero()), name, old(s.name))

//@ func (s *recordingSpan) addChild()
//@   prop C04 C10
//@   acquires s.mu
//@   overflow assumed
//@   modifies s.childSpanCount
//@   ensures s != nil ==> s.childSpanCount == ite(old(s.endTime.IsZero()), old(s.childSpanCount) + 1, old(s.childSpanCount))

//@ func (s *recordingSpan) isRecording() (r bool)
//@   prop C04 C10
//@   holds s.mu
//@   ensures r == (s != nil && s.endTime.IsZero())

//@ func (s *recordingSpan) IsRecording() (r bool)
//@   prop C10
//@   acquires s.mu
//@   ensures r == (s != nil && s.endTime.IsZero())

// per-event attribute cap, then the FIFO contract
//@ func (s *recordingSpan) addEvent(name string, o []trace.EventOption)
//@   prop C04 C10
//@   holds s.mu
//@   unchecked frame the option plumbing in trace.NewEventConfig (other module) is not under contract
//@   requires s != nil && s.tracer != nil && s.tracer.provider != nil
//@   modifies s.events, elemscap(s.events.queue)
//@   assert@call evictedQueue[Event].add#1 : e.Name == name
//@   assert@call evictedQueue[Event].add#1 : limit == 0 ==> len(e.Attributes) == 0 && e.DroppedAttributeCount == len(c.attributes)
//@   assert@call evictedQueue[Event].add#1 : limit > 0 && len(c.attributes) > limit ==> len(e.Attributes) == limit && e.DroppedAttributeCount == len(c.attributes) - limit && (forall i in 0 .. limit : e.Attributes[i] == c.attributes[i])
//@   assert@call evictedQueue[Event].add#1 : limit < 0 || (limit > 0 && len(c.attributes) <= limit) ==> e.Attributes === c.attributes && e.DroppedAttributeCount == 0

//@ func (s *recordingSpan) AddEvent(name string, o []trace.EventOption)
//@   prop C04 C10
//@   acquires s.mu
//@   unchecked frame the option plumbing in trace.NewEventConfig (other module) is not under contract
//@   requires s == nil || (s.tracer != nil && s.tracer.provider != nil)
//@   ensures s != nil && !old(s.endTime.IsZero()) ==> s.events == old(s.events)

// RecordError: the recording check and the event append happen in ONE critical section (a check made before the lock is
// taken says nothing about the span once the lock is held: a concurrent End may have completed in between)
//@ func (s *recordingSpan) RecordError(err error, opts []trace.EventOption)
//@   prop C04 C10
//@   acquires s.mu
//@   unchecked frame,no-panic error formatting, stack capture and the option plumbing (other module) are not under contract
//@   requires s == nil || (s.tracer != nil && s.tracer.provider != nil)
//@   ensures s != nil && !old(s.endTime.IsZero()) ==> s.events == old(s.events)
//@   assert@call recordingSpan.addEvent#1 : s.endTime.IsZero()

// per-link attribute cap; the empty link is ignored; nothing after End
//@ ghost var lnkAdded int
//@ func (s *recordingSpan) AddLink(link trace.Link)
//@   prop C04 C10
//@   acquires s.mu
//@   requires s == nil || (s.tracer != nil && s.tracer.provider != nil)
//@   modifies s.links, elemscap(s.links.queue)
//@   ensures s != nil && !old(s.endTime.IsZero()) ==> s.links == old(s.links)
//@   assert@call evictedQueue[Link].add#1 : l.SpanContext == link.SpanContext
// a link that is not added was either given to an ended (or nil) span or carried no attributes AS GIVEN - a link whose attributes
// were all removed by the per-link cap is still a link (it is stored with its dropped count and takes part in the FIFO)
//@   modifies ghost lnkAdded
//@   ghost@entry : lnkAdded = 0
//@   ghost@call evictedQueue[Link].add#1 : lnkAdded = 1
//@   assert@return#* : lnkAdded == 1 || s == nil || !s.endTime.IsZero() || len(link.Attributes) == 0
//@   assert@call evictedQueue[Link].add#1 : limit == 0 ==> len(l.Attributes) == 0 && l.DroppedAttributeCount == len(link.Attributes)
//@   assert@call evictedQueue[Link].add#1 : limit > 0 && len(link.Attributes) > limit ==> len(l.Attributes) == limit && l.DroppedAttributeCount == len(link.Attributes) - limit && (forall i in 0 .. limit : l.Attributes[i] == link.Attributes[i])
//@   assert@call evictedQueue[Link].add#1 : limit < 0 || (limit > 0 && len(link.Attributes) <= limit) ==> l.Attributes === link.Attributes && l.DroppedAttributeCount == 0

// ======================================================================== C10 locking discipline of a span
//@ guarded_by recordingSpan.mu: name, endTime, status, childSpanCount, attributes, droppedAttributes, events, links, executionTracerTaskEnd

// ghost: number of End calls that committed to ending the span (stored an end time). The lock invariant ties it to the
// end time, so it can only hold if the recording check and the end-time store happen in ONE critical section: then
// exactly one End wins in every interleaving and the span is delivered to the processors at most once.
//@ ghost var ends map[*recordingSpan]int
//@ lockinv recordingSpan.mu: ends[self] == ite(self.endTime.IsZero(), 0, 1)

//@ func monotonicEndTime(start time.Time) (r time.Time)
//@   prop -
//@   trusted "start.Add(time.Since(start)): a wall-clock reading, never the zero time"
//@   ensures !r.IsZero()

// snapshot: what is handed to processors and exporters is a field-by-field copy of the span taken in ONE critical section: every
// scalar field equals the span's, the dropped counts are the span's, events and links are COPIES of the queues (same length and
// elements, different backing array), the attribute list is the span's de-duplicated list
//@ func (s *recordingSpan) snapshot() (r ReadOnlySpan)
//@   prop C04 C10
//@   acquires s.mu
//@   overflow assumed
//@   unchecked frame de-duplication rewrites the span's attribute list in place (its own contract); fresh copies are built
//@   requires s != nil && s.tracer != nil && s.tracer.provider != nil
//@   ensures r != nil && typeis(r, "*snapshot")
//@   ensures cast(r, "*snapshot").name == s.name && cast(r, "*snapshot").spanKind == s.spanKind && cast(r, "*snapshot").childSpanCount == s.childSpanCount && cast(r, "*snapshot").status == s.status
//@   ensures cast(r, "*snapshot").startTime === s.startTime && cast(r, "*snapshot").endTime === s.endTime && cast(r, "*snapshot").spanContext == s.spanContext && cast(r, "*snapshot").parent == s.parent
//@   ensures cast(r, "*snapshot").resource == s.tracer.provider.resource && cast(r, "*snapshot").instrumentationScope == s.tracer.instrumentationScope
//@   ensures cast(r, "*snapshot").droppedAttributeCount == s.droppedAttributes
//@   ensures len(s.events.queue) > 0 ==> cast(r, "*snapshot").droppedEventCount == s.events.droppedCount && len(cast(r, "*snapshot").events) == len(s.events.queue) && !samearray(cast(r, "*snapshot").events, s.events.queue) && (forall i in 0 .. len(s.events.queue) : cast(r, "*snapshot").events[i] === s.events.queue[i])
//@   ensures len(s.links.queue) > 0 ==> cast(r, "*snapshot").droppedLinkCount == s.links.droppedCount && len(cast(r, "*snapshot").links) == len(s.links.queue) && !samearray(cast(r, "*snapshot").links, s.links.queue) && (forall i in 0 .. len(s.links.queue) : cast(r, "*snapshot").links[i] === s.links.queue[i])
//@   ensures len(s.events.queue) == 0 ==> len(cast(r, "*snapshot").events) == 0 && cast(r, "*snapshot").droppedEventCount == 0
//@   ensures len(s.links.queue) == 0 ==> len(cast(r, "*snapshot").links) == 0 && cast(r, "*snapshot").droppedLinkCount == 0
//@   ensures len(s.attributes) > 0 ==> cast(r, "*snapshot").attributes === s.attributes
//@ func (s *recordingSpan) dedupeAttrs()
//@   prop C04
//@   holds s.mu
//@   unchecked frame the attribute list is rewritten in place by dedupeAttrsFromRecord (own contract)
//@   requires s != nil
//@   modifies s.attributes, elemscap(s.attributes)

//@ func (s *recordingSpan) End(options []trace.SpanEndOption)
//@   prop C10 C01
//@   acquires s.mu
//@   unchecked no-panic,frame processors are third-party values loaded from an atomic pointer; option plumbing in trace.NewSpanEndConfig is not under contract
//@   requires s == nil || (s.tracer != nil && s.tracer.provider != nil)
//@   modifies ghost ends
//@   ghost@store endTime#* : ends = store(ends, s, ends[s] + 1)
//@   assert@call OnEnd#* : !holds(s.mu)
//@   assert@call recordingSpan.snapshot#* : !holds(s.mu)
//@   ensures s != nil ==> ends[s] <= old(ends[s]) + 1
//@   loop#1 invariant s != nil ==> ends[s] <= old(ends[s]) + 1

// ---- attributes of a span (C04)
//@ func (s *recordingSpan) addDroppedAttr(incr int)
//@   prop C04 C10
//@   holds s.mu
//@   overflow assumed
//@   requires s != nil
//@   modifies s.droppedAttributes
//@   ensures s.droppedAttributes == old(s.droppedAttributes) + incr

// in-place de-duplication over the shared backing array: afterwards keys are unique, record maps each key to its index,
// no attribute key is lost, the slice never grows
//@ spec uniqueKeys(l []attribute.KeyValue) bool = forall i in 0 .. len(l) : forall j in 0 .. i : l[i].Key != l[j].Key
//@ spec indexed(l []attribute.KeyValue, m map[attribute.Key]int) bool = (forall i in 0 .. len(l) : has(m, l[i].Key) && m[l[i].Key] == i) && (forall k attribute.Key : has(m, k) ==> 0 <= m[k] && m[k] < len(l) && l[m[k]].Key == k)
//@ func (s *recordingSpan) dedupeAttrsFromRecord(record map[attribute.Key]int)
//@   prop C04 C10
//@   holds s.mu
//@   requires s != nil && record != nil && (forall k attribute.Key : !has(record, k))
//@   modifies s.attributes, elems(s.attributes), record
//@   ensures len(s.attributes) <= old(len(s.attributes)) && samearray(s.attributes, old(s.attributes)) && cap(s.attributes) == old(cap(s.attributes))
//@   ensures indexed(s.attributes, record)
//@   ensures uniqueKeys(s.attributes)
//@   ensures forall i in 0 .. old(len(s.attributes)) : has(record, old(s.attributes[i].Key))
//@   loop#1 invariant s.attributes === old(s.attributes) && framed()
//@   loop#1 invariant samearray(unique, old(s.attributes)) && cap(unique) == cap(old(s.attributes)) && 0 <= len(unique) && len(unique) <= $k
//@   loop#1 invariant indexed(unique, record)
//@   loop#1 invariant forall i in $k .. len(s.attributes) : s.attributes[i] == old(s.attributes[i])
//@   loop#1 invariant forall i in 0 .. $k : has(record, old(s.attributes[i].Key))

//@ spec attrLimit(s *recordingSpan) int = s.tracer.provider.spanLimits.AttributeCountLimit

//@ func truncateAttr(limit int, attr attribute.KeyValue) (r attribute.KeyValue)
//@   prop C04
//@   pure
//@   unchecked no-panic,frame string-slice values are unpacked and rebuilt through reflect (attribute/internal)
//@   ensures r.Key == attr.Key
//@   ensures limit < 0 ==> r == attr
//@   ensures attr.Value.vtype != attribute.STRING && attr.Value.vtype != attribute.STRINGSLICE ==> r == attr

// over-capacity insert: existing keys are updated even when full, new keys are appended only while below the limit,
// keys stay unique, the count limit is never exceeded, drops are only ever counted up
//@ func (s *recordingSpan) addOverCapAttrs(limit int, attrs []attribute.KeyValue)
//@   prop C04 C10
//@   holds s.mu
//@   overflow assumed
//@   requires s != nil && s.tracer != nil && s.tracer.provider != nil && limit > 0 && len(s.attributes) <= limit
//@   modifies s.attributes, elemscap(s.attributes), s.droppedAttributes
//@   ensures uniqueKeys(s.attributes) && len(s.attributes) <= limit
//@   ensures s.droppedAttributes >= old(s.droppedAttributes)
//@   assert@store elem#* : $val == truncateAttr(s.tracer.provider.spanLimits.AttributeValueLengthLimit, attrs[$k])
//@   loop#1 invariant indexed(s.attributes, exists)
//@   loop#1 invariant len(s.attributes) <= limit && s.droppedAttributes >= old(s.droppedAttributes) && exists != nil
//@   loop#1 invariant fresh(s.attributes) || (samearray(s.attributes, old(s.attributes)) && cap(s.attributes) == cap(old(s.attributes)))
//@   loop#1 invariant framed()

// SetAttributes: nothing after End; limit 0 drops everything; otherwise the count limit holds afterwards, and on the fast
// path every offered attribute is either stored or counted as dropped
//@ func (s *recordingSpan) SetAttributes(attributes []attribute.KeyValue)
//@   prop C04 C10
//@   acquires s.mu
//@   overflow assumed
//@   unchecked frame the array part of the frame (in-place append window after slices.Grow) is undecided by all three solvers; the object part is kept as a loop invariant
//@   requires s == nil || (s.tracer != nil && s.tracer.provider != nil && (attrLimit(s) > 0 ==> len(s.attributes) <= attrLimit(s)))
//@   modifies s.attributes, elemscap(s.attributes), s.droppedAttributes
//@   ensures s != nil && !old(s.endTime.IsZero()) ==> s.attributes === old(s.attributes) && s.droppedAttributes == old(s.droppedAttributes)
//@   ensures s != nil && old(s.endTime.IsZero()) && attrLimit(s) == 0 ==> s.attributes === old(s.attributes) && s.droppedAttributes == old(s.droppedAttributes) + len(attributes)
//@   ensures s != nil && attrLimit(s) > 0 ==> len(s.attributes) <= attrLimit(s)
//@   ensures s != nil && old(s.endTime.IsZero()) && attrLimit(s) != 0 && !(attrLimit(s) > 0 && old(len(s.attributes)) + len(attributes) > attrLimit(s)) ==> len(s.attributes) + s.droppedAttributes == old(len(s.attributes)) + old(s.droppedAttributes) + len(attributes)
//@   assert@call recordingSpan.addOverCapAttrs#1 : limit > 0 && len(s.attributes) + len(attributes) > limit
//@   assert@store elem#* : $val == truncateAttr(s.tracer.provider.spanLimits.AttributeValueLengthLimit, attributes[$k])
//@   loop#1 invariant len(s.attributes) + s.droppedAttributes == old(len(s.attributes)) + old(s.droppedAttributes) + $k
//@   loop#1 invariant len(s.attributes) <= old(len(s.attributes)) + $k
//@   loop#1 invariant s.droppedAttributes >= old(s.droppedAttributes)
//@   loop#1 invariant fresh(s.attributes) || (samearray(s.attributes, old(s.attributes)) && cap(s.attributes) == cap(old(s.attributes)))
//@   loop#1 invariant framed("frame.S_")

// ---- truncate: at most `limit` characters are kept (runes_upto(s, i) = number of runes - valid or not - that start before
// byte offset i; an uninterpreted function constrained by its step lemma at every loop position)
// second loop (input with an invalid byte): vcount(t, i) = number of characters the byte-wise scan of t keeps before offset i
// (an ASCII byte or a well-formed multi-byte character counts, a byte that starts no well-formed character is skipped).
// vcount is uninterpreted; it is pinned down by its value at 0 and its step - both hold for the function defined by the scan.
//@ spec vcount(t string, i int) int
//@ ghost var trCount int
//@ axiom vcount_zero: forall t string : vcount(t, 0) == 0
//@ axiom vcount_step: forall t string : forall i int : 0 <= i && i < len(t) ==> vcount(t, i + max(1, snd(utf8.DecodeRuneInString(t[i:])))) == vcount(t, i) + ite(t[i] >= 128 && snd(utf8.DecodeRuneInString(t[i:])) == 1, 0, 1)
//@ func truncate(limit int, s string) (r string)
//@   prop C04
//@   ensures limit < 0 || len(s) <= limit ==> r == s
//@   loop#1 invariant 0 <= count && count <= limit && count == runes_upto(s, $off)
//@   loop#2 invariant 0 <= i && i <= len(s) && count <= limit
//@   ghost@call Grow#1 : trCount = count
//@   loop#2 invariant count == trCount + vcount(s, i)
//@   modifies ghost trCount
//@   assert@return#2 : runes_upto(s, i) == limit
//@   assert@return#3 : count == runes_upto(s, len(s)) && count <= limit

// ======================================================================== C15 provider lifecycle
//@ spec procs(p *TracerProvider) spanProcessorStates = p.getSpanProcessors()
//@ spec registered(l spanProcessorStates, sp SpanProcessor) bool = exists i in 0 .. len(l) : l[i] != nil && l[i].sp == sp

// Unregister: a processor that is not registered changes nothing; otherwise exactly its (last) entry is removed and the
// others keep their order; the old list object is not written (copy-on-write)
//@ func (p *TracerProvider) UnregisterSpanProcessor(sp SpanProcessor)
//@   prop C15 C10
//@   acquires p.mu
//@   unchecked frame a new list is published through an atomic pointer; sync.Once state of the removed entry
//@   requires p != nil && sp != nil && p.spanProcessors.v != 0 && (forall i in 0 .. len(procs(p)) : procs(p)[i] != nil)
//@   ensures !old(p.isShutdown.v != 0) && !old(registered(procs(p), sp)) ==> len(procs(p)) == old(len(procs(p))) && (forall i in 0 .. len(procs(p)) : procs(p)[i] == old(procs(p)[i]))
//@   ensures !old(p.isShutdown.v != 0) && old(registered(procs(p), sp)) ==> len(procs(p)) == old(len(procs(p))) - 1
// copy-on-write: the list that was published at entry (which concurrent End/ForceFlush calls may still be iterating) is not written
//@   ensures forall i in 0 .. old(len(procs(p))) : old(procs(p))[i] == old(procs(p)[i])
//@   loop#1 invariant (stopOnce == nil && (forall q in 0 .. $k : spss[q].sp != sp)) || (stopOnce != nil && 0 <= idx && idx < $k && spss[idx] == stopOnce && spss[idx].sp == sp)
//@   loop#1 invariant forall q in 0 .. len(spss) : spss[q] != nil && spss[q] == old(procs(p)[q])
//@   loop#1 invariant stopOnce == nil ==> (forall q in 0 .. $k : old(procs(p)[q].sp) != sp)

// Register: new list = old list followed by a fresh state for sp
//@ func (p *TracerProvider) RegisterSpanProcessor(sp SpanProcessor)
//@   prop C15 C10
//@   acquires p.mu
//@   unchecked frame a new list is published through an atomic pointer
//@   requires p != nil && p.spanProcessors.v != 0
//@   ensures !old(p.isShutdown.v != 0) ==> len(procs(p)) == old(len(procs(p))) + 1 && procs(p)[len(procs(p))-1].sp == sp && (forall i in 0 .. old(len(procs(p))) : procs(p)[i] == old(procs(p)[i]))
//@   ensures old(p.isShutdown.v != 0) ==> p.spanProcessors.v == old(p.spanProcessors.v)
//@   ensures forall i in 0 .. old(len(procs(p))) : old(procs(p))[i] == old(procs(p)[i])

// simple span processor: the exporter is only ever called with the lock held, for sampled spans, and never when it is nil
//@ guarded_by simpleSpanProcessor.exporterMu: exporter
//@ ghost var sspAsk int
//@ ghost var sspExp int
//@ func (ssp *simpleSpanProcessor) OnEnd(s ReadOnlySpan)
//@   prop C15 C09
//@   acquires ssp.exporterMu
//@   requires ssp != nil && s != nil
//@   assert@call ExportSpans#1 : holds(ssp.exporterMu) && s.SpanContext().traceFlags & 1 == 1
// ... and EVERY sampled span is exported (whatever other flag bits it carries) once an exporter is there: the span context is
// only looked at when the exporter is non-nil (ghost sspAsk), and then a set sampled bit leads to the export (ghost sspExp)
//@   modifies ghost sspAsk, ghost sspExp
//@   ghost@entry : sspAsk = 0
//@   ghost@entry : sspExp = 0
//@   ghost@call SpanContext#1 : sspAsk = 1
//@   ghost@call ExportSpans#1 : sspExp = 1
//@   assert@return#* : sspAsk == 1 && s.SpanContext().traceFlags & 1 == 1 ==> sspExp == 1
//@ func (ssp *simpleSpanProcessor) Shutdown(ctx context.Context) (err error)
//@   prop C15
//@   acquires simpleSpanProcessor.exporterMu
//@   unchecked frame channel and goroutine plumbing
//@   requires ssp != nil && ctx != nil

// Shutdown: only the call that wins the compare-and-swap does anything (a second call is a no-op returning nil); when it
// completes normally the processor list is empty; each processor is shut down through its sync.Once (at most once over
// Unregister and Shutdown together - sync.Once semantics assumed).
//@ func (p *TracerProvider) Shutdown(ctx context.Context) (err error)
//@   prop C15
//@   acquires p.mu
//@   unchecked frame a new list is published through an atomic pointer; sync.Once states of the entries
//@   requires p != nil && ctx != nil && p.spanProcessors.v != 0 && (forall i in 0 .. len(procs(p)) : procs(p)[i] != nil && procs(p)[i].sp != nil)
//@   ensures old(p.isShutdown.v != 0) ==> err == nil && p.spanProcessors.v == old(p.spanProcessors.v)
//@   ensures p.isShutdown.v != 0
//@   assert@return#4 : len(procs(p)) == 0
//@   canary@return#3 KF-C15-shutdown-cancelled-ctx : len(procs(p)) == 0
//@   loop#1 invariant p.isShutdown.v != 0 && p.spanProcessors.v == old(p.spanProcessors.v)

// Tracer: a provider that has been shut down hands out the no-op tracer - the flag is read before anything else, and again under
// the lock before the tracer table is consulted or written, so neither a cached nor a new recording tracer escapes after Shutdown
//@ guarded_by TracerProvider.mu: namedTracer
//@ func (p *TracerProvider) Tracer$1() (t trace.Tracer, ok bool)
//@   prop C15
//@   acquires TracerProvider.mu
//@   overflow assumed
//@   unchecked frame,no-panic the no-op provider is another module; the tracer table is a map of pointers
//@   requires p != nil
//@   ensures p.isShutdown.v != 0 ==> ok && !typeis(t, "*tracer")
//@   assert@call mapupdate#* : p.isShutdown.v == 0
//@   assert@return#1 : p.isShutdown.v != 0
//@ func (p *TracerProvider) Tracer(name string, opts []trace.TracerOption) (t trace.Tracer)
//@   prop C15
//@   acquires p.mu
//@   overflow assumed
//@   unchecked frame,no-panic logging, option evaluation and the no-op provider are other modules
//@   requires p != nil
//@   assert@return#1 : old(p.isShutdown.v) != 0
//@   assert@call TracerProvider.Tracer$1#1 : old(p.isShutdown.v) == 0

// ForceFlush: every registered processor is flushed, in registration order, until the context is done or one fails
//@ func (p *TracerProvider) ForceFlush(ctx context.Context) (err error)
//@   prop C15
//@   overflow assumed
//@   unchecked frame,no-panic processors are third-party code
//@   requires p != nil && ctx != nil && p.spanProcessors.v != 0 && (forall i in 0 .. len(procs(p)) : procs(p)[i] != nil)
//@   assert@call ForceFlush#* : $arg0 == spss[$k].sp

// ======================================================================== C01 batch span processor
// The batch is only touched under batchMutex and never holds more than MaxExportBatchSize spans. Only the worker goroutine
// (processQueue, then drainQueue - called one after the other by the goroutine NewBatchSpanProcessor starts) appends to it;
// everybody else (exportSpans, also when called from ForceFlush) only ever shrinks it: that is the rely of the worker.
//@ guarded_by batchSpanProcessor.batchMutex: batch
//@ lockinv batchSpanProcessor.batchMutex: len(self.batch) <= self.o.MaxExportBatchSize
//@ lockrely batchSpanProcessor.batchMutex owner processQueue, drainQueue: len(self.batch) <= old(len(self.batch))

// exportSpans: the exporter is called only with batchMutex held, with the whole batch (1..Max spans), and the batch is
// emptied in the same critical section whether or not the export failed - so no span is handed over twice
//@ func (bsp *batchSpanProcessor) exportSpans(ctx context.Context) (err error)
//@   prop C01
//@   acquires bsp.batchMutex
//@   unchecked frame,no-panic timer, context and third-party exporter; bsp.e is nil only if nothing was ever enqueued (channel history)
//@   requires bsp != nil
//@   modifies bsp.batch, elemscap(bsp.batch)
//@   ensures len(bsp.batch) == 0
//@   assert@call ExportSpans#* : holds(bsp.batchMutex) && len($arg2) >= 1 && len($arg2) <= bsp.o.MaxExportBatchSize && samearray($arg2, bsp.batch) && len($arg2) == len(bsp.batch)

// known finding: a configured maximum of 0 is used as "export every span at once": batches of 1 (processQueue) and of any
// size (drainQueue, whose test is == 0) leave the processor
//@ func (bsp *batchSpanProcessor) processQueue()
//@   prop C01
//@   acquires bsp.batchMutex
//@   known KF-C01-batch-size-zero when bsp.o.MaxExportBatchSize == 0
//@   unchecked frame,no-panic timers, channels and the error handler are outside the contracts
//@   requires bsp != nil && bsp.o.MaxExportBatchSize >= 0 && len(bsp.batch) == 0
//@   modifies bsp.batch, elemscap(bsp.batch)
//@   ensures bsp.o.MaxExportBatchSize > 0 ==> len(bsp.batch) < bsp.o.MaxExportBatchSize
//@   loop#1 invariant bsp.o.MaxExportBatchSize > 0 ==> len(bsp.batch) < bsp.o.MaxExportBatchSize

//@ ghost var bspFinal int
//@ func (bsp *batchSpanProcessor) drainQueue()
//@   prop C01
//@   acquires bsp.batchMutex
//@   known KF-C01-batch-size-zero when bsp.o.MaxExportBatchSize == 0
//@   unchecked frame,no-panic channels and the error handler are outside the contracts
//@   requires bsp != nil && bsp.o.MaxExportBatchSize >= 0 && (bsp.o.MaxExportBatchSize > 0 ==> len(bsp.batch) < bsp.o.MaxExportBatchSize)
//@   modifies bsp.batch, elemscap(bsp.batch)
//@   ensures len(bsp.batch) == 0
//@   loop#1 invariant bsp.o.MaxExportBatchSize > 0 ==> len(bsp.batch) < bsp.o.MaxExportBatchSize
// the drain ends only when a receive found the queue empty (the default case of the select, $sel == -1) and the final export
// has been made in that very branch: an export error in the middle of the drain does not abandon the rest of the queue
//@   ghost@call batchSpanProcessor.exportSpans#2 : bspFinal = 1
//@   assert@call batchSpanProcessor.exportSpans#2 : $sel == -1
//@   assert@call batchSpanProcessor.exportSpans#1 : $sel == 0
//@   assert@return#* : bspFinal == 1 && $sel == -1

// enqueue: an unsampled span is neither queued nor counted; a sampled one is either sent to the queue (exactly once) or, in
// non-blocking mode with a full queue, counted as dropped (exactly once) - never both, never neither
//@ ghost var bspSent int
//@ ghost var bspDropped int
//@ func (bsp *batchSpanProcessor) enqueueDrop(ctx context.Context, sd ReadOnlySpan) (ok bool)
//@   prop C01 C09
//@   unchecked frame channel send, atomic counter
//@   requires bsp != nil && sd != nil
//@   ghost@entry : bspSent = 0
//@   ghost@entry : bspDropped = 0
//@   assert@call send#* : sd.SpanContext().IsSampled() && $arg0 == bsp.queue && $arg1 == sd
//@   ghost@call send#* : bspSent = bspSent + 1
//@   assert@call AddUint32#* : $arg1 == 1
//@   ghost@call AddUint32#* : bspDropped = bspDropped + 1
//@   assert@return#* : (sd.SpanContext().IsSampled() ==> bspSent + bspDropped == 1) && (!sd.SpanContext().IsSampled() ==> bspSent + bspDropped == 0) && ($ret0 == (bspSent == 1))

//@ func (bsp *batchSpanProcessor) enqueueBlockOnQueueFull(ctx context.Context, sd ReadOnlySpan) (ok bool)
//@   prop C01 C09
//@   unchecked frame,no-panic channel send; ctx comes from context.TODO()
//@   requires bsp != nil && sd != nil
//@   ghost@entry : bspSent = 0
//@   assert@call send#* : sd.SpanContext().IsSampled() && $arg0 == bsp.queue && $arg1 == sd
//@   ghost@call send#* : bspSent = bspSent + 1
//@   assert@return#* : bspSent <= 1 && ($ret0 == (bspSent == 1)) && (!sd.SpanContext().IsSampled() ==> bspSent == 0)

// OnEnd: nothing is enqueued after Shutdown set `stopped`, nor without an exporter
//@ func (bsp *batchSpanProcessor) OnEnd(s ReadOnlySpan)
//@   prop C01
//@   unchecked frame
//@   requires bsp != nil && s != nil
//@   assert@call batchSpanProcessor.enqueue#* : bsp.stopped.v == 0 && bsp.e != nil && $arg1 == s
//@ func (bsp *batchSpanProcessor) enqueue(sd ReadOnlySpan)
//@   prop C01
//@   unchecked frame
//@   requires bsp != nil && sd != nil
//@   assert@call batchSpanProcessor.enqueueDrop#* : !bsp.o.BlockOnQueueFull && $arg2 == sd
//@   assert@call batchSpanProcessor.enqueueBlockOnQueueFull#* : bsp.o.BlockOnQueueFull && $arg2 == sd

// ForceFlush: the flush marker is enqueued with the BLOCKING enqueue in every mode (it must never be dropped: the wait for
// "everything queued before me has been batched" hangs on it), it is a forceFlushSpan, and the export that follows goes
// through exportSpans; nothing is enqueued or exported once stopped is set or without an exporter
//@ func (bsp *batchSpanProcessor) ForceFlush(ctx context.Context) (err error)
//@   prop C01
//@   unchecked frame,no-panic channels, spawned goroutine
//@   requires bsp != nil && ctx != nil
//@   assert@call batchSpanProcessor.enqueueBlockOnQueueFull#1 : typeis($arg2, "forceFlushSpan") && bsp.stopped.v == 0 && bsp.e != nil

// Shutdown: EVERY call goes through stopOnce.Do (exactly once per call) - so a call that is not the first returns only after
// the first one's shutdown sequence has completed (sync.Once semantics), never earlier
//@ ghost var bspOnce int
//@ func (bsp *batchSpanProcessor) Shutdown(ctx context.Context) (err error)
//@   prop C01 C15
//@   unchecked frame,no-panic channels, spawned goroutine, sync.Once body
//@   requires bsp != nil && ctx != nil
//@   modifies ghost bspOnce
//@   ghost@entry : bspOnce = 0
//@   ghost@call Once.Do#* : bspOnce = bspOnce + 1
//@   assert@return#* : bspOnce == 1

// ======================================================================== C20 sampler from the environment (sampler_env.go)
// OTEL_TRACES_SAMPLER selects the sampler (after trimming and lower-casing), OTEL_TRACES_SAMPLER_ARG the ratio; an unset sampler
// variable means "no sampler, no error" (the default or an option applies); every name maps to its own sampler; an unknown name is an
// error and yields no sampler; a missing ratio argument means 1.0; an unparsable, negative or > 1 ratio is reported and replaced by 1.0
//@ func samplerFromEnv() (s Sampler, err error)
//@   prop C20
//@   overflow assumed
//@   unchecked frame,no-panic environment, sampler constructors
//@   assert@call LookupEnv#1 : $arg0 == "OTEL_TRACES_SAMPLER"
//@   assert@call LookupEnv#2 : $arg0 == "OTEL_TRACES_SAMPLER_ARG"
//@   assert@return#1 : !ok && $ret0 == nil && $ret1 == nil
//@   assert@call AlwaysSample#1 : ok && sampler == "always_on"
//@   assert@call NeverSample#1 : ok && sampler == "always_off"
//@   assert@call TraceIDRatioBased#1 : ok && sampler == "traceidratio" && !hasSamplerArg && $arg0 === 1.0
//@   assert@call parseTraceIDRatio#1 : ok && sampler == "traceidratio" && hasSamplerArg && $arg0 == samplerArg
//@   assert@call AlwaysSample#2 : ok && sampler == "parentbased_always_on"
//@   assert@call NeverSample#2 : ok && sampler == "parentbased_always_off"
//@   assert@call TraceIDRatioBased#2 : ok && sampler == "parentbased_traceidratio" && !hasSamplerArg && $arg0 === 1.0
//@   assert@call parseTraceIDRatio#2 : ok && sampler == "parentbased_traceidratio" && hasSamplerArg && $arg0 == samplerArg
//@   assert@return#10 : $ret0 == nil && $ret1 != nil
//@ func parseTraceIDRatio(arg string) (s Sampler, err error)
//@   prop C20
//@   overflow assumed
//@   unchecked frame,no-panic strconv.ParseFloat and the sampler constructor
//@   assert@call ParseFloat#1 : $arg0 == arg && $arg1 == 64
//@   assert@call TraceIDRatioBased#1 : $arg0 === 1.0
//@   assert@call TraceIDRatioBased#2 : $arg0 === 1.0 && v < 0.0
//@   assert@call TraceIDRatioBased#3 : $arg0 === 1.0 && v > 1.0
//@   assert@call TraceIDRatioBased#4 : $arg0 === v && !(v < 0.0) && !(v > 1.0)
//@   assert@return#1 : $ret1 != nil
//@   assert@return#2 : $ret1 != nil
//@   assert@return#3 : $ret1 != nil
//@   assert@return#4 : $ret1 == nil

// ======================================================================== C09 random ID generator (id_generator.go)
// every ID handed out is valid (non-zero): a draw is repeated until the ID drawn - the one that is returned - is non-zero. The
// random source is only used under the generator's mutex. (Uniqueness is probabilistic and not decided; termination is not claimed.)
//@ guarded_by randomIDGenerator.Mutex: randSource
//@ func (gen *randomIDGenerator) NewSpanID(ctx context.Context, traceID trace.TraceID) (sid trace.SpanID)
//@   prop C09
//@   acquires gen.Mutex
//@   overflow assumed
//@   unchecked frame,no-panic math/rand fills the local array
//@   requires gen != nil
//@   ensures sid.IsValid()
//@   assert@call Rand.Read#* : holds(gen.Mutex) && len($arg1) == 8
//@ func (gen *randomIDGenerator) NewIDs(ctx context.Context) (tid trace.TraceID, sid trace.SpanID)
//@   prop C09
//@   acquires gen.Mutex
//@   overflow assumed
//@   unchecked frame,no-panic math/rand fills the local arrays
//@   requires gen != nil
//@   ensures tid.IsValid() && sid.IsValid()
//@   assert@call Rand.Read#1 : holds(gen.Mutex) && len($arg1) == 16
//@   assert@call Rand.Read#2 : holds(gen.Mutex) && len($arg1) == 8
//@   loop#2 invariant tid.IsValid()

// ======================================================================== C20 span limits from the environment (span_limits.go)
// every limit is read from ITS OWN environment variable (through the sdk/internal/env reader of that name) with ITS OWN default:
// unlimited (-1) for the value length, 128 for every count
//@ func NewSpanLimits() (l SpanLimits)
//@   prop C20
//@   overflow assumed
//@   unchecked frame,no-panic environment readers are another package
//@   ensures l.AttributeValueLengthLimit == env.SpanAttributeValueLength(-1)
//@   ensures l.AttributeCountLimit == env.SpanAttributeCount(128)
//@   ensures l.EventCountLimit == env.SpanEventCount(128)
//@   ensures l.LinkCountLimit == env.SpanLinkCount(128)
//@   ensures l.AttributePerEventCountLimit == env.SpanEventAttributeCount(128)
//@   ensures l.AttributePerLinkCountLimit == env.SpanLinkAttributeCount(128)
