//go:build verif

// Contracts for package sdk/metric/internal/aggregate (properties C02, C07, C08, C12). Comment-only file (build tag verif).
// Checked by /verif/bin/govc.

package aggregate

// ======================================================================== C12 cardinality limit
// limiter.Attributes: below the limit (or for an attribute set that already has a stream) the set keeps its identity;
// otherwise the measurement goes to the single overflow set. A non-positive limit means no limit.
//@ func (l limiter[V]) Attributes(attrs attribute.Set, measurements map[attribute.Distinct]V) (r attribute.Set)
//@   prop C12
//@   instances sumValue[int64]; sumValue[float64]
//@   ensures l.aggLimit <= 0 ==> r == attrs
//@   ensures l.aggLimit > 0 && (has(measurements, attrs.Equivalent()) || len(measurements) < l.aggLimit - 1) ==> r == attrs
//@   ensures l.aggLimit > 0 && !has(measurements, attrs.Equivalent()) && len(measurements) >= l.aggLimit - 1 ==> r == overflowSet

// exemplar plumbing (sync.Pool, reservoirs) is outside every property here
//@ func collectExemplars(out *[]metricdata.Exemplar[N], f func(*[]exemplar.Exemplar))
//@   prop -
//@   instances int64; float64
//@   trusted "exemplar collection through a sync.Pool and a third-party reservoir; writes only *out"
//@   modifies out

// ======================================================================== C02 sums are conserved
//@ guarded_by valueMap.Mutex: values

// measure: exactly one stream - the one the limiter selects - grows by exactly `value`; every other stream is untouched
//@ func (s *valueMap[N]) measure(ctx context.Context, value N, fltrAttr attribute.Set, droppedAttr []attribute.KeyValue)
//@   prop C02 C12
//@   instances int64; float64
//@   acquires s.Mutex
//@   overflow assumed
//@   requires s != nil && s.values != nil && s.newRes != nil
//@   requires (forall a attribute.Set : s.newRes(a) != nil) && (forall k attribute.Distinct : has(s.values, k) ==> s.values[k].res != nil)
//@   modifies s.values
//@   ensures has(s.values, old(s.limit.Attributes(fltrAttr, s.values).Equivalent()))
//@   ensures s.values[old(s.limit.Attributes(fltrAttr, s.values).Equivalent())].n === ite(old(has(s.values, s.limit.Attributes(fltrAttr, s.values).Equivalent())), old(s.values[s.limit.Attributes(fltrAttr, s.values).Equivalent()].n), 0) + value
//@   ensures s.values[old(s.limit.Attributes(fltrAttr, s.values).Equivalent())].attrs == old(s.limit.Attributes(fltrAttr, s.values))
//@   ensures forall k attribute.Distinct : k != old(s.limit.Attributes(fltrAttr, s.values).Equivalent()) ==> has(s.values, k) == old(has(s.values, k)) && (has(s.values, k) ==> s.values[k] === old(s.values[k]))

// ======================================================================== C08 delta and cumulative views
// delta: one data point per stream over [old start, t], then the streams are forgotten and the interval moves on;
// cumulative: the same points over [start, t] and nothing is forgotten. The contract difference IS the property.
//@ func (s *sum[N]) delta(dest *metricdata.Aggregation) (n int)
//@   prop C02 C08
//@   instances int64; float64
//@   acquires valueMap.Mutex
//@   overflow assumed
//@   unchecked frame the destination's previous data point slice may be reused in place
//@   requires s != nil && s.valueMap != nil && s.values != nil && dest != nil
//@   requires forall k attribute.Distinct : has(s.values, k) ==> s.values[k].res != nil
//@   ensures n == old(len(s.values)) && len(s.values) == 0 && s.start === now()
//@   ensures typeis(*dest, "metricdata.Sum[$N]") && cast(*dest, "metricdata.Sum[$N]").Temporality == metricdata.DeltaTemporality && cast(*dest, "metricdata.Sum[$N]").IsMonotonic == s.monotonic
//@   ensures len(cast(*dest, "metricdata.Sum[$N]").DataPoints) == n
//@   ensures forall j in 0 .. n : cast(*dest, "metricdata.Sum[$N]").DataPoints[j].StartTime === old(s.start) && cast(*dest, "metricdata.Sum[$N]").DataPoints[j].Time === now()
//@   ensures forall j in 0 .. n : exists k attribute.Distinct : old(has(s.values, k)) && cast(*dest, "metricdata.Sum[$N]").DataPoints[j].Value === old(s.values[k].n) && cast(*dest, "metricdata.Sum[$N]").DataPoints[j].Attributes == old(s.values[k].attrs)
//@   loop#1 invariant i == $iter && 0 <= i && i <= n && len(dPts) == n && s.start === old(s.start)
//@   loop#1 invariant forall j in 0 .. i : dPts[j].StartTime === old(s.start) && dPts[j].Time === t
//@   loop#1 invariant forall j in 0 .. i : exists k attribute.Distinct : old(has(s.values, k)) && dPts[j].Value === old(s.values[k].n) && dPts[j].Attributes == old(s.values[k].attrs)
//@   loop#1 invariant forall k attribute.Distinct : has(s.values, k) == old(has(s.values, k)) && (has(s.values, k) ==> s.values[k] === old(s.values[k]))

//@ func (s *sum[N]) cumulative(dest *metricdata.Aggregation) (n int)
//@   prop C02 C08
//@   instances int64; float64
//@   acquires valueMap.Mutex
//@   overflow assumed
//@   unchecked frame the destination's previous data point slice may be reused in place
//@   requires s != nil && s.valueMap != nil && s.values != nil && dest != nil
//@   requires forall k attribute.Distinct : has(s.values, k) ==> s.values[k].res != nil
//@   ensures n == old(len(s.values)) && s.start === old(s.start)
//@   ensures forall k attribute.Distinct : has(s.values, k) == old(has(s.values, k)) && (has(s.values, k) ==> s.values[k] === old(s.values[k]))
//@   ensures typeis(*dest, "metricdata.Sum[$N]") && cast(*dest, "metricdata.Sum[$N]").Temporality == metricdata.CumulativeTemporality && cast(*dest, "metricdata.Sum[$N]").IsMonotonic == s.monotonic
//@   ensures len(cast(*dest, "metricdata.Sum[$N]").DataPoints) == n
//@   ensures forall j in 0 .. n : cast(*dest, "metricdata.Sum[$N]").DataPoints[j].StartTime === old(s.start) && cast(*dest, "metricdata.Sum[$N]").DataPoints[j].Time === now()
//@   ensures forall j in 0 .. n : exists k attribute.Distinct : old(has(s.values, k)) && cast(*dest, "metricdata.Sum[$N]").DataPoints[j].Value === old(s.values[k].n) && cast(*dest, "metricdata.Sum[$N]").DataPoints[j].Attributes == old(s.values[k].attrs)
//@   loop#1 invariant i == $iter && 0 <= i && i <= n && len(dPts) == n && s.start === old(s.start)
//@   loop#1 invariant forall j in 0 .. i : dPts[j].StartTime === old(s.start) && dPts[j].Time === t
//@   loop#1 invariant forall j in 0 .. i : exists k attribute.Distinct : old(has(s.values, k)) && dPts[j].Value === old(s.values[k].n) && dPts[j].Attributes == old(s.values[k].attrs)
//@   loop#1 invariant forall k attribute.Distinct : has(s.values, k) == old(has(s.values, k)) && (has(s.values, k) ==> s.values[k] === old(s.values[k]))
