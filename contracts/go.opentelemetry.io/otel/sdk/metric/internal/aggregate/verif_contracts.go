//go:build verif

// Contracts for package sdk/metric/internal/aggregate (properties C02, C07, C08, C12). Comment-only file (build tag verif).
// Checked by /verif/bin/govc.

package aggregate

// ======================================================================== C12 cardinality limit
// limiter.Attributes: below the limit (or for an attribute set that already has a stream) the set keeps its identity;
// otherwise the measurement goes to the single overflow set. A non-positive limit means no limit.
//@ func (l limiter[V]) Attributes(attrs attribute.Set, measurements map[attribute.Distinct]V) (r attribute.Set)
//@   prop C12
//@   instances sumValue[int64]; sumValue[float64]
//@   ensures l.aggLimit <= 0 ==> r == attrs
//@   ensures l.aggLimit > 0 && (has(measurements, attrs.Equivalent()) || len(measurements) < l.aggLimit - 1) ==> r == attrs
//@   ensures l.aggLimit > 0 && !has(measurements, attrs.Equivalent()) && len(measurements) >= l.aggLimit - 1 ==> r == overflowSet

// exemplar plumbing (sync.Pool, reservoirs) is outside every property here
//@ func collectExemplars(out *[]metricdata.Exemplar[N], f func(*[]exemplar.Exemplar))
//@   prop -
//@   instances int64; float64
//@   trusted "exemplar collection through a sync.Pool and a third-party reservoir; writes only *out"
//@   modifies out

// ======================================================================== C02 sums are conserved
//@ guarded_by valueMap.Mutex: values

// measure: exactly one stream - the one the limiter selects - grows by exactly `value`; every other stream is untouched
//@ func (s *valueMap[N]) measure(ctx context.Context, value N, fltrAttr attribute.Set, droppedAttr []attribute.KeyValue)
//@   prop C02 C08 C12
//@   instances int64; float64
//@   acquires s.Mutex
//@   overflow assumed
//@   requires s != nil && s.values != nil && s.newRes != nil
//@   requires (forall a attribute.Set : s.newRes(a) != nil) && (forall k attribute.Distinct : has(s.values, k) ==> s.values[k].res != nil)
//@   modifies s.values
//@   ensures has(s.values, old(s.limit.Attributes(fltrAttr, s.values).Equivalent()))
//@   ensures s.values[old(s.limit.Attributes(fltrAttr, s.values).Equivalent())].n === ite(old(has(s.values, s.limit.Attributes(fltrAttr, s.values).Equivalent())), old(s.values[s.limit.Attributes(fltrAttr, s.values).Equivalent()].n), 0) + value
//@   ensures s.values[old(s.limit.Attributes(fltrAttr, s.values).Equivalent())].attrs == old(s.limit.Attributes(fltrAttr, s.values))
//@   ensures forall k attribute.Distinct : k != old(s.limit.Attributes(fltrAttr, s.values).Equivalent()) ==> has(s.values, k) == old(has(s.values, k)) && (has(s.values, k) ==> s.values[k] === old(s.values[k]))

// ======================================================================== C08 delta and cumulative views
// delta: one data point per stream over [old start, t], then the streams are forgotten and the interval moves on;
// cumulative: the same points over [start, t] and nothing is forgotten. The contract difference IS the property.
//@ func (s *sum[N]) delta(dest *metricdata.Aggregation) (n int)
//@   prop C02 C08
//@   instances int64; float64
//@   acquires valueMap.Mutex
//@   overflow assumed
//@   unchecked frame the destination's previous data point slice may be reused in place
//@   requires s != nil && s.valueMap != nil && s.values != nil && dest != nil
//@   requires forall k attribute.Distinct : has(s.values, k) ==> s.values[k].res != nil
//@   ensures n == old(len(s.values)) && len(s.values) == 0 && s.start === now()
//@   ensures typeis(*dest, "metricdata.Sum[$N]") && cast(*dest, "metricdata.Sum[$N]").Temporality == metricdata.DeltaTemporality && cast(*dest, "metricdata.Sum[$N]").IsMonotonic == s.monotonic
//@   ensures len(cast(*dest, "metricdata.Sum[$N]").DataPoints) == n
//@   ensures forall j in 0 .. n : cast(*dest, "metricdata.Sum[$N]").DataPoints[j].StartTime === old(s.start) && cast(*dest, "metricdata.Sum[$N]").DataPoints[j].Time === now()
//@   ensures forall j in 0 .. n : exists k attribute.Distinct : old(has(s.values, k)) && cast(*dest, "metricdata.Sum[$N]").DataPoints[j].Value === old(s.values[k].n) && cast(*dest, "metricdata.Sum[$N]").DataPoints[j].Attributes == old(s.values[k].attrs)
//@   loop#1 invariant i == $iter && 0 <= i && i <= n && len(dPts) == n && s.start === old(s.start)
//@   loop#1 invariant forall j in 0 .. i : dPts[j].StartTime === old(s.start) && dPts[j].Time === t
//@   loop#1 invariant forall j in 0 .. i : exists k attribute.Distinct : old(has(s.values, k)) && dPts[j].Value === old(s.values[k].n) && dPts[j].Attributes == old(s.values[k].attrs)
//@   loop#1 invariant forall k attribute.Distinct : has(s.values, k) == old(has(s.values, k)) && (has(s.values, k) ==> s.values[k] === old(s.values[k]))

//@ func (s *sum[N]) cumulative(dest *metricdata.Aggregation) (n int)
//@   prop C02 C08
//@   instances int64; float64
//@   acquires valueMap.Mutex
//@   overflow assumed
//@   unchecked frame the destination's previous data point slice may be reused in place
//@   requires s != nil && s.valueMap != nil && s.values != nil && dest != nil
//@   requires forall k attribute.Distinct : has(s.values, k) ==> s.values[k].res != nil
//@   ensures n == old(len(s.values)) && s.start === old(s.start)
//@   ensures forall k attribute.Distinct : has(s.values, k) == old(has(s.values, k)) && (has(s.values, k) ==> s.values[k] === old(s.values[k]))
//@   ensures typeis(*dest, "metricdata.Sum[$N]") && cast(*dest, "metricdata.Sum[$N]").Temporality == metricdata.CumulativeTemporality && cast(*dest, "metricdata.Sum[$N]").IsMonotonic == s.monotonic
//@   ensures len(cast(*dest, "metricdata.Sum[$N]").DataPoints) == n
//@   ensures forall j in 0 .. n : cast(*dest, "metricdata.Sum[$N]").DataPoints[j].StartTime === old(s.start) && cast(*dest, "metricdata.Sum[$N]").DataPoints[j].Time === now()
//@   ensures forall j in 0 .. n : exists k attribute.Distinct : old(has(s.values, k)) && cast(*dest, "metricdata.Sum[$N]").DataPoints[j].Value === old(s.values[k].n) && cast(*dest, "metricdata.Sum[$N]").DataPoints[j].Attributes == old(s.values[k].attrs)
//@   loop#1 invariant i == $iter && 0 <= i && i <= n && len(dPts) == n && s.start === old(s.start)
//@   loop#1 invariant forall j in 0 .. i : dPts[j].StartTime === old(s.start) && dPts[j].Time === t
//@   loop#1 invariant forall j in 0 .. i : exists k attribute.Distinct : old(has(s.values, k)) && dPts[j].Value === old(s.values[k].n) && dPts[j].Attributes == old(s.values[k].attrs)
//@   loop#1 invariant forall k attribute.Distinct : has(s.values, k) == old(has(s.values, k)) && (has(s.values, k) ==> s.values[k] === old(s.values[k]))

// precomputed (asynchronous) sums: a delta point is the observed value minus the value observed for the same attribute
// set in the PRECEDING cycle (zero if it was not observed then); afterwards `reported` holds exactly this cycle's
// observations - no entry of an earlier cycle survives - and the observations are forgotten
// (the float64 difference is named so that the quantified clauses need no floating-point reasoning)
//@ spec deltaF(v float64, seen bool, prev float64) float64 = v - ite(seen, prev, 0.0)
//@ func (s *precomputedSum[N]) delta(dest *metricdata.Aggregation) (n int)
//@   prop C08 C12
//@   instances int64; float64
//@   acquires valueMap.Mutex
//@   overflow assumed
//@   unchecked frame the destination's previous data point slice may be reused in place
//@   requires s != nil && s.valueMap != nil && s.values != nil && dest != nil
//@   requires forall k attribute.Distinct : has(s.values, k) ==> s.values[k].res != nil
//@   requires !fresh(s.reported)   // memory-model typing fact: a map that exists at entry is not one allocated later
//@   ensures n == old(len(s.values)) && len(s.values) == 0 && s.start === now()
//@   ensures typeis(*dest, "metricdata.Sum[$N]") && cast(*dest, "metricdata.Sum[$N]").Temporality == metricdata.DeltaTemporality && cast(*dest, "metricdata.Sum[$N]").IsMonotonic == s.monotonic
//@   ensures len(cast(*dest, "metricdata.Sum[$N]").DataPoints) == n
//@   ensures forall j in 0 .. n : cast(*dest, "metricdata.Sum[$N]").DataPoints[j].StartTime === old(s.start) && cast(*dest, "metricdata.Sum[$N]").DataPoints[j].Time === now()
//@   @int64 ensures forall j in 0 .. n : exists k attribute.Distinct : old(has(s.values, k)) && cast(*dest, "metricdata.Sum[$N]").DataPoints[j].Value === old(s.values[k].n) - ite(old(has(s.reported, k)), old(s.reported[k]), 0) && cast(*dest, "metricdata.Sum[$N]").DataPoints[j].Attributes == old(s.values[k].attrs)
//@   @float64 ensures forall j in 0 .. n : exists k attribute.Distinct : old(has(s.values, k)) && cast(*dest, "metricdata.Sum[$N]").DataPoints[j].Value === deltaF(old(s.values[k].n), old(has(s.reported, k)), old(s.reported[k])) && cast(*dest, "metricdata.Sum[$N]").DataPoints[j].Attributes == old(s.values[k].attrs)
//@   ensures forall k attribute.Distinct : has(s.reported, k) == old(has(s.values, k)) && (has(s.reported, k) ==> s.reported[k] === old(s.values[k].n))
//@   loop#1 invariant i == $iter && 0 <= i && i <= n && len(dPts) == n && s.start === old(s.start) && s.reported == old(s.reported) && fresh(newReported)
//@   loop#1 invariant forall j in 0 .. i : dPts[j].StartTime === old(s.start) && dPts[j].Time === t
//@   @int64 loop#1 invariant forall j in 0 .. i : exists k attribute.Distinct : old(has(s.values, k)) && dPts[j].Value === old(s.values[k].n) - ite(old(has(s.reported, k)), old(s.reported[k]), 0) && dPts[j].Attributes == old(s.values[k].attrs)
//@   @float64 loop#1 invariant forall j in 0 .. i : exists k attribute.Distinct : old(has(s.values, k)) && dPts[j].Value === deltaF(old(s.values[k].n), old(has(s.reported, k)), old(s.reported[k])) && dPts[j].Attributes == old(s.values[k].attrs)
//@   loop#1 invariant forall k attribute.Distinct : has(s.values, k) == old(has(s.values, k)) && (has(s.values, k) ==> s.values[k] === old(s.values[k]))
//@   loop#1 invariant forall k attribute.Distinct : (has(s.reported, k) == old(has(s.reported, k))) && (has(s.reported, k) ==> s.reported[k] === old(s.reported[k]))
//@   loop#1 invariant forall k attribute.Distinct : has(newReported, k) == $visited(k) && (has(newReported, k) ==> old(has(s.values, k)) && newReported[k] === old(s.values[k].n))

// cumulative: the observed values as they are, over [start, t]; `reported` is not touched
//@ func (s *precomputedSum[N]) cumulative(dest *metricdata.Aggregation) (n int)
//@   prop C08
//@   instances int64; float64
//@   acquires valueMap.Mutex
//@   overflow assumed
//@   unchecked frame the destination's previous data point slice may be reused in place
//@   requires s != nil && s.valueMap != nil && s.values != nil && dest != nil
//@   requires forall k attribute.Distinct : has(s.values, k) ==> s.values[k].res != nil
//@   ensures n == old(len(s.values)) && len(s.values) == 0 && s.start === old(s.start) && s.reported == old(s.reported)
//@   ensures typeis(*dest, "metricdata.Sum[$N]") && cast(*dest, "metricdata.Sum[$N]").Temporality == metricdata.CumulativeTemporality && cast(*dest, "metricdata.Sum[$N]").IsMonotonic == s.monotonic
//@   ensures len(cast(*dest, "metricdata.Sum[$N]").DataPoints) == n
//@   ensures forall j in 0 .. n : cast(*dest, "metricdata.Sum[$N]").DataPoints[j].StartTime === old(s.start) && cast(*dest, "metricdata.Sum[$N]").DataPoints[j].Time === now()
//@   ensures forall j in 0 .. n : exists k attribute.Distinct : old(has(s.values, k)) && cast(*dest, "metricdata.Sum[$N]").DataPoints[j].Value === old(s.values[k].n) && cast(*dest, "metricdata.Sum[$N]").DataPoints[j].Attributes == old(s.values[k].attrs)
//@   loop#1 invariant i == $iter && 0 <= i && i <= n && len(dPts) == n && s.start === old(s.start) && s.reported == old(s.reported)
//@   loop#1 invariant forall j in 0 .. i : dPts[j].StartTime === old(s.start) && dPts[j].Time === t
//@   loop#1 invariant forall j in 0 .. i : exists k attribute.Distinct : old(has(s.values, k)) && dPts[j].Value === old(s.values[k].n) && dPts[j].Attributes == old(s.values[k].attrs)
//@   loop#1 invariant forall k attribute.Distinct : has(s.values, k) == old(has(s.values, k)) && (has(s.values, k) ==> s.values[k] === old(s.values[k]))

// gauges (last value): a measurement REPLACES the value of exactly the stream the limiter selects; every other stream is untouched
//@ guarded_by lastValue.Mutex: values
//@ func (s *lastValue[N]) measure(ctx context.Context, value N, fltrAttr attribute.Set, droppedAttr []attribute.KeyValue)
//@   prop C08 C12
//@   instances int64; float64
//@   acquires s.Mutex
//@   overflow assumed
//@   requires s != nil && s.values != nil && s.newRes != nil
//@   requires (forall a attribute.Set : s.newRes(a) != nil) && (forall k attribute.Distinct : has(s.values, k) ==> s.values[k].res != nil)
//@   modifies s.values
//@   ensures has(s.values, old(s.limit.Attributes(fltrAttr, s.values).Equivalent()))
//@   ensures s.values[old(s.limit.Attributes(fltrAttr, s.values).Equivalent())].value === value
//@   ensures s.values[old(s.limit.Attributes(fltrAttr, s.values).Equivalent())].attrs == old(s.limit.Attributes(fltrAttr, s.values))
//@   ensures forall k attribute.Distinct : k != old(s.limit.Attributes(fltrAttr, s.values).Equivalent()) ==> has(s.values, k) == old(has(s.values, k)) && (has(s.values, k) ==> s.values[k] === old(s.values[k]))

// copyDpts: one data point per stream, carrying the stream's last value and attributes, over [start, t]; the streams are not changed
//@ func (s *lastValue[N]) copyDpts(dest *[]metricdata.DataPoint[$N], t time.Time) (n int)
//@   prop C08
//@   instances int64; float64
//@   holds s.Mutex
//@   overflow assumed
//@   unchecked frame the destination's previous data point slice may be reused in place
//@   requires s != nil && s.values != nil && dest != nil
//@   requires forall k attribute.Distinct : has(s.values, k) ==> s.values[k].res != nil
//@   modifies dest, elemscap(*dest)
//@   ensures n == len(s.values) && len(*dest) == n
//@   ensures forall j in 0 .. n : (*dest)[j].StartTime === s.start && (*dest)[j].Time === t
//@   ensures forall j in 0 .. n : exists k attribute.Distinct : has(s.values, k) && (*dest)[j].Value === s.values[k].value && (*dest)[j].Attributes == s.values[k].attrs
//@   loop#1 invariant i == $iter && 0 <= i && i <= n && len(*dest) == n && n == len(s.values)
//@   loop#1 invariant forall j in 0 .. i : (*dest)[j].StartTime === s.start && (*dest)[j].Time === t
//@   loop#1 invariant forall j in 0 .. i : exists k attribute.Distinct : has(s.values, k) && (*dest)[j].Value === s.values[k].value && (*dest)[j].Attributes == s.values[k].attrs
//@   loop#1 invariant forall k attribute.Distinct : has(s.values, k) == old(has(s.values, k)) && (has(s.values, k) ==> s.values[k] === old(s.values[k]))

// delta forgets the streams and moves the interval on; cumulative keeps both
//@ func (s *lastValue[N]) delta(dest *metricdata.Aggregation) (n int)
//@   prop C08
//@   instances int64; float64
//@   acquires s.Mutex
//@   overflow assumed
//@   unchecked frame the destination's previous data point slice may be reused in place
//@   requires s != nil && s.values != nil && dest != nil
//@   requires forall k attribute.Distinct : has(s.values, k) ==> s.values[k].res != nil
//@   ensures n == old(len(s.values)) && len(s.values) == 0 && s.start === now()
//@   ensures typeis(*dest, "metricdata.Gauge[$N]") && len(cast(*dest, "metricdata.Gauge[$N]").DataPoints) == n
//@   assert@call lastValue.copyDpts#1 : $arg2 === now() && holds(s.Mutex)
//@ func (s *lastValue[N]) cumulative(dest *metricdata.Aggregation) (n int)
//@   prop C08
//@   instances int64; float64
//@   acquires s.Mutex
//@   overflow assumed
//@   unchecked frame the destination's previous data point slice may be reused in place
//@   requires s != nil && s.values != nil && dest != nil
//@   requires forall k attribute.Distinct : has(s.values, k) ==> s.values[k].res != nil
//@   ensures n == old(len(s.values)) && len(s.values) == old(len(s.values)) && s.start === old(s.start)
//@   ensures forall k attribute.Distinct : has(s.values, k) == old(has(s.values, k)) && (has(s.values, k) ==> s.values[k] === old(s.values[k]))
//@   ensures typeis(*dest, "metricdata.Gauge[$N]") && len(cast(*dest, "metricdata.Gauge[$N]").DataPoints) == n
//@   assert@call lastValue.copyDpts#1 : $arg2 === now() && holds(s.Mutex)

// ======================================================================== C07 explicit-bucket histograms
//@ spec sortedF(a []float64) bool = forall i in 0 .. len(a) : forall j in 0 .. i : a[j] <= a[i]

// bin: exactly one bucket count and the total count grow by one; min/max follow the recorded value
//@ func (b *buckets[N]) bin(idx int, value N)
//@   prop C07
//@   instances int64; float64
//@   overflow assumed
//@   requires b != nil && 0 <= idx && idx < len(b.counts)
//@   modifies b.count, b.min, b.max, elems(b.counts)
//@   ensures b.counts[idx] == old(b.counts[idx]) + 1 && (forall j in 0 .. len(b.counts) : j != idx ==> b.counts[j] == old(b.counts[j]))
//@   ensures b.count == old(b.count) + 1
//@   ensures b.min === ite(value < old(b.min), value, old(b.min))
//@   ensures b.max === ite(value < old(b.min), old(b.max), ite(value > old(b.max), value, old(b.max)))

//@ func (b *buckets[N]) sum(value N)
//@   prop C07
//@   instances int64; float64
//@   overflow assumed
//@   requires b != nil
//@   modifies b.total
//@   ensures b.total === old(b.total) + value

//@ func newBuckets(attrs attribute.Set, n int) (b *buckets[N])
//@   prop C07
//@   instances int64; float64
//@   requires n >= 0
//@   ensures b != nil && fresh(b) && len(b.counts) == n && fresh(b.counts) && b.count == 0 && b.attrs == attrs && (forall j in 0 .. n : b.counts[j] == 0)

//@ guarded_by histValues.valuesMu: values

// measure: the value lands in the bucket (lower, upper] that contains it; one bucket set per attribute identity with
// exactly len(bounds)+1 counts; a new bucket set starts with min = max = the first value
//@ func (s *histValues[N]) measure(ctx context.Context, value N, fltrAttr attribute.Set, droppedAttr []attribute.KeyValue)
//@   prop C07 C12
//@   instances int64; float64
//@   acquires s.valuesMu
//@   overflow assumed
//@   unchecked frame bucket objects reached through the map are written; only the bucket chosen by the limiter is touched (site assertions)
//@   requires s != nil && s.values != nil && s.newRes != nil && sortedF(s.bounds) && (forall i in 0 .. len(s.bounds) : !isNaN(s.bounds[i]))
//@   requires (forall a attribute.Set : s.newRes(a) != nil) && (forall k attribute.Distinct : has(s.values, k) ==> s.values[k] != nil && s.values[k].res != nil && len(s.values[k].counts) == len(s.bounds) + 1)
//@   assert@call buckets.bin#1 : $arg1 == idx && 0 <= idx && idx <= len(s.bounds) && $arg2 === value
//@   @float64 assert@call buckets.bin#1 : isNaN(value) || ((idx == 0 || s.bounds[idx-1] < value) && (idx == len(s.bounds) || value <= s.bounds[idx]))
//@   @float64 assert@call buckets.bin#1 : isNaN(value) ==> idx == len(s.bounds)
//@   assert@call buckets.bin#1 : has(s.values, attr.Equivalent()) && s.values[attr.Equivalent()] == $arg0 && len($arg0.counts) == len(s.bounds) + 1
//@   @int64 assert@call buckets.bin#1 : (idx == 0 || s.bounds[idx-1] < float64(value)) && (idx == len(s.bounds) || float64(value) <= s.bounds[idx])

// known finding: for int64 instruments the placement above is by the float64 ROUNDING of the value, not by the value: the
// statement "a bound below float64(v) is below v" is false for |v| > 2^53 (expected to be refuted while the finding exists)
//@ props C07
//@ canary KF-C07-int64-bucket-rounding int64_bucket_is_exact bv: forall v int64 : forall b float64 : float64(v) <= b ==> exactLE(v, b)

// explicit-bucket histogram collection: one data point per stream over [start, t] carrying the stream's count, sum and bucket
// counts; delta hands over the streams' own count slices and forgets the streams; cumulative keeps the streams and hands over a
// COPY of each count slice (the stream keeps counting into its own)
//@ guarded_by histValues.valuesMu: values
//@ func (s *histogram[N]) delta(dest *metricdata.Aggregation) (n int)
//@   prop C08 C07
//@   instances int64; float64
//@   acquires histValues.valuesMu
//@   overflow assumed
//@   unchecked frame the destination's previous data point slice may be reused in place
//@   requires s != nil && s.histValues != nil && s.values != nil && dest != nil
//@   requires forall k attribute.Distinct : has(s.values, k) ==> s.values[k] != nil && s.values[k].res != nil
//@   ensures n == old(len(s.values)) && len(s.values) == 0 && s.start === now()
//@   ensures typeis(*dest, "metricdata.Histogram[$N]") && cast(*dest, "metricdata.Histogram[$N]").Temporality == metricdata.DeltaTemporality && len(cast(*dest, "metricdata.Histogram[$N]").DataPoints) == n
//@   ensures forall j in 0 .. n : cast(*dest, "metricdata.Histogram[$N]").DataPoints[j].StartTime === old(s.start) && cast(*dest, "metricdata.Histogram[$N]").DataPoints[j].Time === now()
//@   ensures forall j in 0 .. n : exists k attribute.Distinct : old(has(s.values, k)) && cast(*dest, "metricdata.Histogram[$N]").DataPoints[j].Count == old(s.values[k].count) && cast(*dest, "metricdata.Histogram[$N]").DataPoints[j].Attributes == old(s.values[k].attrs) && cast(*dest, "metricdata.Histogram[$N]").DataPoints[j].BucketCounts === old(s.values[k].counts) && (!s.noSum ==> cast(*dest, "metricdata.Histogram[$N]").DataPoints[j].Sum === old(s.values[k].total))
//@   loop#1 invariant i == $iter && 0 <= i && i <= n && len(hDPts) == n && s.start === old(s.start)
//@   loop#1 invariant forall j in 0 .. i : hDPts[j].StartTime === old(s.start) && hDPts[j].Time === t
//@   loop#1 invariant forall j in 0 .. i : exists k attribute.Distinct : old(has(s.values, k)) && hDPts[j].Count == old(s.values[k].count) && hDPts[j].Attributes == old(s.values[k].attrs) && hDPts[j].BucketCounts === old(s.values[k].counts) && (!s.noSum ==> hDPts[j].Sum === old(s.values[k].total))
//@   loop#1 invariant forall k attribute.Distinct : has(s.values, k) == old(has(s.values, k)) && (has(s.values, k) ==> s.values[k] == old(s.values[k]) && *s.values[k] === old(*s.values[k]))

//@ func (s *histogram[N]) cumulative(dest *metricdata.Aggregation) (n int)
//@   prop C08 C07
//@   instances int64; float64
//@   acquires histValues.valuesMu
//@   overflow assumed
//@   unchecked frame the destination's previous data point slice may be reused in place
//@   requires s != nil && s.histValues != nil && s.values != nil && dest != nil
//@   requires forall k attribute.Distinct : has(s.values, k) ==> s.values[k] != nil && s.values[k].res != nil
//@   ensures n == old(len(s.values)) && len(s.values) == old(len(s.values)) && s.start === old(s.start)
//@   ensures forall k attribute.Distinct : has(s.values, k) == old(has(s.values, k)) && (has(s.values, k) ==> s.values[k] == old(s.values[k]) && *s.values[k] === old(*s.values[k]))
//@   ensures typeis(*dest, "metricdata.Histogram[$N]") && cast(*dest, "metricdata.Histogram[$N]").Temporality == metricdata.CumulativeTemporality && len(cast(*dest, "metricdata.Histogram[$N]").DataPoints) == n
//@   ensures forall j in 0 .. n : cast(*dest, "metricdata.Histogram[$N]").DataPoints[j].StartTime === old(s.start) && cast(*dest, "metricdata.Histogram[$N]").DataPoints[j].Time === now()
//@   ensures forall j in 0 .. n : exists k attribute.Distinct : old(has(s.values, k)) && cast(*dest, "metricdata.Histogram[$N]").DataPoints[j].Count == old(s.values[k].count) && cast(*dest, "metricdata.Histogram[$N]").DataPoints[j].Attributes == old(s.values[k].attrs) && len(cast(*dest, "metricdata.Histogram[$N]").DataPoints[j].BucketCounts) == old(len(s.values[k].counts)) && (len(s.values[k].counts) > 0 ==> !samearray(cast(*dest, "metricdata.Histogram[$N]").DataPoints[j].BucketCounts, old(s.values[k].counts)))
//@   loop#1 invariant i == $iter && 0 <= i && i <= n && len(hDPts) == n && s.start === old(s.start)
//@   loop#1 invariant forall j in 0 .. i : hDPts[j].StartTime === old(s.start) && hDPts[j].Time === t
//@   loop#1 invariant forall j in 0 .. i : exists k attribute.Distinct : old(has(s.values, k)) && hDPts[j].Count == old(s.values[k].count) && hDPts[j].Attributes == old(s.values[k].attrs) && len(hDPts[j].BucketCounts) == old(len(s.values[k].counts)) && (len(s.values[k].counts) > 0 ==> !samearray(hDPts[j].BucketCounts, old(s.values[k].counts)))
//@   loop#1 invariant forall k attribute.Distinct : has(s.values, k) == old(has(s.values, k)) && (has(s.values, k) ==> s.values[k] == old(s.values[k]) && *s.values[k] === old(*s.values[k]))

// ======================================================================== C07 base-2 exponential histograms
// scaleChange: the number of halvings after which bin and the current window fit into maxSize buckets (or more than 30)
//@ spec shr64(x int, c int32) int = x >> int(c)
//@ func (p *expoHistogramDataPoint[N]) scaleChange(bin int32, startBin int32, length int) (r int32)
//@   prop C07
//@   instances int64; float64
//@   mode bv
//@   requires p != nil && length >= 0 && length <= 1073741824
//@   ensures length == 0 ==> r == 0
//@   ensures r >= 0 && r <= 31
//@   ensures length != 0 && startBin < bin ==> r > 30 || shr64(int(bin), r) - shr64(int(startBin), r) < p.maxSize
//@   ensures length != 0 && startBin >= bin ==> r > 30 || shr64(int(startBin) + length - 1, r) - shr64(int(bin), r) < p.maxSize
//@   loop#1 invariant count >= 0 && count <= 30
//@   loop#1 invariant startBin < bin ==> low == shr64(int(startBin), count) && high == shr64(int(bin), count)
//@   loop#1 invariant startBin >= bin ==> low == shr64(int(bin), count) && high == shr64(int(startBin) + length - 1, count)
//@   loop#1 decreases 31 - int(count)

// exponential histogram, delta collection: one data point per stream over [start, t]; count, scale, zero count, both bucket
// offsets and both bucket-count LENGTHS are the stream's (a reused destination must not keep stale bucket counts); afterwards the
// streams are forgotten and the interval moves on
//@ guarded_by expoHistogram.valuesMu: values
//@ func (e *expoHistogram[N]) delta(dest *metricdata.Aggregation) (n int)
//@   prop C08 C07
//@   instances int64; float64
//@   acquires e.valuesMu
//@   overflow assumed
//@   unchecked frame the destination's previous data point and bucket slices may be reused in place
//@   requires e != nil && e.values != nil && dest != nil
//@   requires forall k attribute.Distinct : has(e.values, k) ==> e.values[k] != nil && e.values[k].res != nil
//@   ensures n == old(len(e.values)) && len(e.values) == 0 && e.start === now()
//@   ensures typeis(*dest, "metricdata.ExponentialHistogram[$N]") && cast(*dest, "metricdata.ExponentialHistogram[$N]").Temporality == metricdata.DeltaTemporality && len(cast(*dest, "metricdata.ExponentialHistogram[$N]").DataPoints) == n
//@   ensures forall j in 0 .. n : exists k attribute.Distinct : old(has(e.values, k)) && cast(*dest, "metricdata.ExponentialHistogram[$N]").DataPoints[j].Count == old(e.values[k].count) && cast(*dest, "metricdata.ExponentialHistogram[$N]").DataPoints[j].Scale == old(e.values[k].scale) && cast(*dest, "metricdata.ExponentialHistogram[$N]").DataPoints[j].NegativeBucket.Offset == old(e.values[k].negBuckets.startBin) && len(cast(*dest, "metricdata.ExponentialHistogram[$N]").DataPoints[j].NegativeBucket.Counts) == old(len(e.values[k].negBuckets.counts)) && len(cast(*dest, "metricdata.ExponentialHistogram[$N]").DataPoints[j].PositiveBucket.Counts) == old(len(e.values[k].posBuckets.counts))
//@   assert@store Count#* : $val == val.count
//@   assert@store Scale#* : $val == val.scale
//@   assert@store ZeroCount#* : $val == val.zeroCount
//@   assert@store StartTime#* : $val === old(e.start)
//@   assert@store Time#* : $val === t
//@   assert@store Offset#1 : $val == val.posBuckets.startBin
//@   assert@store Offset#2 : $val == val.negBuckets.startBin
//@   assert@store Counts#1 : len($val) == len(val.posBuckets.counts)
//@   assert@store Counts#2 : len($val) == len(val.negBuckets.counts)
//@   assert@call copy#1 : samearray($arg1, val.posBuckets.counts) && len($arg0) == len(val.posBuckets.counts) && len($arg1) == len($arg0)
//@   assert@call copy#2 : samearray($arg1, val.negBuckets.counts) && len($arg0) == len(val.negBuckets.counts) && len($arg1) == len($arg0)
//@   loop#1 invariant i == $iter && 0 <= i && i <= n && len(hDPts) == n && e.start === old(e.start)
//@   loop#1 invariant forall k attribute.Distinct : has(e.values, k) == old(has(e.values, k)) && (has(e.values, k) ==> e.values[k] == old(e.values[k]) && e.values[k] != nil && e.values[k].res != nil && *e.values[k] === old(*e.values[k]))
//@   loop#1 invariant forall j in 0 .. i : exists k attribute.Distinct : old(has(e.values, k)) && hDPts[j].Count == old(e.values[k].count) && hDPts[j].Scale == old(e.values[k].scale) && hDPts[j].ZeroCount == old(e.values[k].zeroCount) && hDPts[j].PositiveBucket.Offset == old(e.values[k].posBuckets.startBin) && hDPts[j].NegativeBucket.Offset == old(e.values[k].negBuckets.startBin) && len(hDPts[j].PositiveBucket.Counts) == old(len(e.values[k].posBuckets.counts)) && len(hDPts[j].NegativeBucket.Counts) == old(len(e.values[k].negBuckets.counts))

// exponential histogram, cumulative collection: the same point contents as delta (count, scale, zero count, both offsets, both
// bucket-count lengths taken from the stream - whether or not the stream has negative buckets, a reused destination slot never
// keeps stale counts), but the streams are kept and the start time stays fixed
//@ func (e *expoHistogram[N]) cumulative(dest *metricdata.Aggregation) (n int)
//@   prop C08 C07
//@   instances int64; float64
//@   acquires e.valuesMu
//@   overflow assumed
//@   unchecked frame the destination's previous data point and bucket slices may be reused in place
//@   requires e != nil && e.values != nil && dest != nil
//@   requires forall k attribute.Distinct : has(e.values, k) ==> e.values[k] != nil && e.values[k].res != nil
//@   ensures n == old(len(e.values)) && len(e.values) == old(len(e.values)) && e.start === old(e.start)
//@   ensures typeis(*dest, "metricdata.ExponentialHistogram[$N]") && cast(*dest, "metricdata.ExponentialHistogram[$N]").Temporality == metricdata.CumulativeTemporality && len(cast(*dest, "metricdata.ExponentialHistogram[$N]").DataPoints) == n
//@   ensures forall j in 0 .. n : exists k attribute.Distinct : old(has(e.values, k)) && cast(*dest, "metricdata.ExponentialHistogram[$N]").DataPoints[j].Count == old(e.values[k].count) && cast(*dest, "metricdata.ExponentialHistogram[$N]").DataPoints[j].Scale == old(e.values[k].scale) && cast(*dest, "metricdata.ExponentialHistogram[$N]").DataPoints[j].NegativeBucket.Offset == old(e.values[k].negBuckets.startBin) && len(cast(*dest, "metricdata.ExponentialHistogram[$N]").DataPoints[j].NegativeBucket.Counts) == old(len(e.values[k].negBuckets.counts)) && len(cast(*dest, "metricdata.ExponentialHistogram[$N]").DataPoints[j].PositiveBucket.Counts) == old(len(e.values[k].posBuckets.counts))
//@   assert@store Count#* : $val == val.count
//@   assert@store Scale#* : $val == val.scale
//@   assert@store ZeroCount#* : $val == val.zeroCount
//@   assert@store StartTime#* : $val === old(e.start)
//@   assert@store Time#* : $val === t
//@   assert@store Offset#1 : $val == val.posBuckets.startBin
//@   assert@store Offset#2 : $val == val.negBuckets.startBin
//@   assert@store Counts#1 : len($val) == len(val.posBuckets.counts)
//@   assert@store Counts#2 : len($val) == len(val.negBuckets.counts)
//@   assert@call copy#1 : samearray($arg1, val.posBuckets.counts) && len($arg0) == len(val.posBuckets.counts) && len($arg1) == len($arg0)
//@   assert@call copy#2 : samearray($arg1, val.negBuckets.counts) && len($arg0) == len(val.negBuckets.counts) && len($arg1) == len($arg0)
//@   loop#1 invariant i == $iter && 0 <= i && i <= n && len(hDPts) == n && e.start === old(e.start)
//@   loop#1 invariant forall k attribute.Distinct : has(e.values, k) == old(has(e.values, k)) && (has(e.values, k) ==> e.values[k] == old(e.values[k]) && e.values[k] != nil && e.values[k].res != nil && *e.values[k] === old(*e.values[k]))
//@   loop#1 invariant forall j in 0 .. i : exists k attribute.Distinct : old(has(e.values, k)) && hDPts[j].Count == old(e.values[k].count) && hDPts[j].Scale == old(e.values[k].scale) && hDPts[j].ZeroCount == old(e.values[k].zeroCount) && hDPts[j].PositiveBucket.Offset == old(e.values[k].posBuckets.startBin) && hDPts[j].NegativeBucket.Offset == old(e.values[k].negBuckets.startBin) && len(hDPts[j].PositiveBucket.Counts) == old(len(e.values[k].posBuckets.counts)) && len(hDPts[j].NegativeBucket.Counts) == old(len(e.values[k].negBuckets.counts))
//@   ensures forall k attribute.Distinct : has(e.values, k) == old(has(e.values, k)) && (has(e.values, k) ==> e.values[k] == old(e.values[k]) && *e.values[k] === old(*e.values[k]))

// getBin for scale <= 0: with v = frac * 2^exp, 1/2 <= frac < 1 (math.Frexp) the unique e with 2^e < v <= 2^(e+1) is
// exp-2 when frac == 1/2 (v is an exact power of two) and exp-1 otherwise; the index i at scale -k satisfies
// i*2^k <= e and e+1 <= (i+1)*2^k, i.e. (2^e, 2^(e+1)] lies inside bucket i = (base^i, base^(i+1)], base = 2^(2^k).
//@ func (p *expoHistogramDataPoint[N]) getBin(v float64) (r int32)
//@   prop C07
//@   instances int64; float64
//@   mode bv
//@   requires p != nil && p.scale >= -10 && p.scale <= 20
//@   ensures p.scale <= 0 && p.scale >= -10 && v > 0 && !isInf(v) && !isNaN(v) ==> (int64(r) << int64(-p.scale)) <= int64(ite(fst(math.Frexp(v)) == 0.5, snd(math.Frexp(v)) - 2, snd(math.Frexp(v)) - 1)) && int64(ite(fst(math.Frexp(v)) == 0.5, snd(math.Frexp(v)) - 2, snd(math.Frexp(v)) - 1)) + 1 <= ((int64(r) + 1) << int64(-p.scale))

// expoBuckets.record: the window [startBin, startBin+len) grows just enough to contain bin; the new bin's count grows by
// one (starts at one), every old bin keeps its count at its (possibly shifted) position, every newly exposed slot is zero
//@ func (b *expoBuckets) record(bin int32)
//@   prop C07 C08
//@   overflow assumed
//@   requires b != nil
//@   modifies b.startBin, b.counts, elemscap(b.counts)
//@   ensures old(len(b.counts)) == 0 ==> len(b.counts) == 1 && b.counts[0] == 1 && b.startBin == bin
//@   ensures old(len(b.counts)) > 0 && old(b.startBin) <= bin && bin <= old(b.startBin) + old(len(b.counts)) - 1 ==> b.startBin == old(b.startBin) && len(b.counts) == old(len(b.counts)) && b.counts[bin - old(b.startBin)] == old(b.counts[bin - b.startBin]) + 1 && (forall j in 0 .. len(b.counts) : j != bin - old(b.startBin) ==> b.counts[j] == old(b.counts[j]))
//@   ensures old(len(b.counts)) > 0 && bin < old(b.startBin) ==> b.startBin == bin && len(b.counts) == old(b.startBin) + old(len(b.counts)) - bin && b.counts[0] == 1 && (forall j in 1 .. old(b.startBin) - bin : b.counts[j] == 0) && (forall j in 0 .. old(len(b.counts)) : b.counts[old(b.startBin) - bin + j] == old(b.counts[j]))
//@   ensures old(len(b.counts)) > 0 && bin > old(b.startBin) + old(len(b.counts)) - 1 ==> b.startBin == old(b.startBin) && len(b.counts) == bin - old(b.startBin) + 1 && b.counts[bin - old(b.startBin)] == 1 && (forall j in 0 .. old(len(b.counts)) : b.counts[j] == old(b.counts[j])) && (forall j in old(len(b.counts)) .. bin - old(b.startBin) : b.counts[j] == 0)
//@   loop#1 invariant 1 <= i && (i <= shift || i == 1) && len(b.counts) == newLength && b.startBin == old(b.startBin)
//@   loop#1 invariant forall j in 1 .. i : b.counts[j] == 0
//@   loop#1 invariant forall j in 0 .. origLen : b.counts[shift + j] == old(b.counts[j])
//@   loop#1 invariant fresh(b.counts) || (samearray(b.counts, old(b.counts)) && cap(b.counts) == old(cap(b.counts)))
//@   loop#1 invariant framed()
//@   loop#2 invariant old(len(b.counts)) <= i && i <= len(b.counts) && len(b.counts) == bin - old(b.startBin) + 1 && b.startBin == old(b.startBin) && samearray(b.counts, old(b.counts))
//@   loop#2 invariant forall j in old(len(b.counts)) .. i : b.counts[j] == 0
//@   loop#2 invariant forall j in 0 .. old(len(b.counts)) : b.counts[j] == old(b.counts[j])
//@   loop#2 invariant framed()
// downscale by delta halvings: old bin number n = startBin + i moves to bin n >> delta (floor division by 2^delta), i.e. to
// index (n >> delta) - (startBin >> delta) of the new window; `offset` must therefore be the TRUE modulus of startBin
// (0 <= offset < 2^delta, startBin - offset divisible by 2^delta). Decided here, bit-precisely: every count is added to or
// stored at exactly that index, which never lies above the index being read (in-place merge is safe), the new window is
// exactly the image of the old one. Not decided: that the sums per new bin are complete (no summation operator).
//@ func (b *expoBuckets) downscale(delta int32)
//@   prop C07 C08
//@   split delta 0 .. 30
//@   overflow assumed
//@   requires b != nil && delta >= 0 && delta <= 30 && len(b.counts) <= 1073741824
//@   modifies b.startBin, b.counts, elems(b.counts)
//@   ensures b.startBin == old(b.startBin) >> delta
//@   ensures old(len(b.counts)) == 0 ==> len(b.counts) == 0
//@   ensures old(len(b.counts)) >= 1 ==> len(b.counts) == ((int(old(b.startBin)) + old(len(b.counts)) - 1) >> int(delta)) - (int(old(b.startBin)) >> int(delta)) + 1
//@   assert@store elem#* : idx / int(steps) == ((int(old(b.startBin)) + i) >> int(delta)) - (int(old(b.startBin)) >> int(delta)) && idx / int(steps) <= i && 0 <= idx / int(steps)
//@   assert@store elem#1 : idx / int(steps) >= 1 && (((int(old(b.startBin)) + i - 1) >> int(delta)) < ((int(old(b.startBin)) + i) >> int(delta)))
//@   assert@store elem#2 : ((int(old(b.startBin)) + i - 1) >> int(delta)) == ((int(old(b.startBin)) + i) >> int(delta))
//@   loop#1 invariant 1 <= i && i <= len(b.counts) && len(b.counts) == old(len(b.counts)) && len(b.counts) > 1 && b.startBin == old(b.startBin) && samearray(b.counts, old(b.counts)) && delta >= 1
//@   loop#1 invariant steps == (int32(1) << delta) && 0 <= offset && offset < steps && (int(old(b.startBin)) - int(offset)) % int(steps) == 0
//@   loop#1 invariant framed()

// record: the scale only ever decreases and never goes below -10; a measurement that cannot be represented (scale
// underflow) is dropped WITHOUT being counted, so count stays equal to zero count + bucket counts
//@ func (p *expoHistogramDataPoint[N]) record(v N)
//@   prop C07
//@   instances int64; float64
//@   overflow assumed
//@   unchecked no-panic,frame the positive/negative bucket set is selected through a pointer into the data point (an interior pointer merged at a join) and written through trusted contracts
//@   requires p != nil && -10 <= p.scale && p.scale <= 20 && len(p.posBuckets.counts) <= 1073741824 && len(p.negBuckets.counts) <= 1073741824
//@   ensures p.scale <= old(p.scale) && p.scale >= -10
//@   ensures p.count == old(p.count) || (p.count == old(p.count) + 1 && (p.zeroCount == old(p.zeroCount) + 1 || p.zeroCount == old(p.zeroCount)))
//@   assert@call Handle#1 : p.count == old(p.count) && p.zeroCount == old(p.zeroCount) && p.sum === old(p.sum) && p.min === old(p.min) && p.max === old(p.max) && p.scale == old(p.scale)

// ======================================================================== C12 attribute filter wrapper
// with a filter: the aggregate function is called exactly once, with the SAME value, the kept part of the attribute set and the
// dropped attributes of Set.Filter(filter) - no measurement is lost or duplicated by filtering; without a filter: passed through
//@ ghost var fltCalls int
//@ func (b Builder[N]) filter$1(ctx context.Context, n $N, a attribute.Set)
//@   prop C12
//@   instances int64; float64
//@   overflow assumed
//@   unchecked frame the aggregate function is an unknown function value
//@   requires f != nil
//@   modifies ghost fltCalls
//@   ghost@entry : fltCalls = 0
//@   assert@call f#* : fltCalls == 0 && $arg0 == ctx && $arg1 === n && $arg2 == fAttr && $arg3 === dropped
//@   assert@call Set.Filter#1 : $arg1 == fltr
//@   ghost@call f#* : fltCalls = fltCalls + 1
//@   assert@return#* : fltCalls == 1
//@ func (b Builder[N]) filter$2(ctx context.Context, n $N, a attribute.Set)
//@   prop C12
//@   instances int64; float64
//@   overflow assumed
//@   unchecked frame the aggregate function is an unknown function value
//@   requires f != nil
//@   modifies ghost fltCalls
//@   ghost@entry : fltCalls = 0
//@   assert@call f#* : fltCalls == 0 && $arg0 == ctx && $arg1 === n && $arg2 == a && len($arg3) == 0
//@   ghost@call f#* : fltCalls = fltCalls + 1
//@   assert@return#* : fltCalls == 1

// a new exponential-histogram point: sizes, scale and flags as given, count 0; min is initialised from the "largest" and max from
// the "smallest" candidate. NOT decided: that these candidates are MaxInt64 / MinInt64 for int64 - the code derives them from
// int64(math.MaxFloat64), an out-of-range float-to-integer conversion whose result Go leaves to the implementation; the engine's
// mathematical integers (`overflow assumed`) say nothing about it (seed C07g, which turns the initial max into -MaxInt64, is
// therefore NOT detected - recorded in DESIGN.md)
//@ func newExpoHistogramDataPoint(attrs attribute.Set, maxSize int, maxScale int32, noMinMax bool, noSum bool) (p *expoHistogramDataPoint[$N])
//@   prop C07
//@   instances int64; float64
//@   overflow assumed
//@   ensures p != nil && p.maxSize == maxSize && p.scale == maxScale && p.noMinMax == noMinMax && p.noSum == noSum && p.count == 0
//@   assert@store min#1 : $val === ma
//@   assert@store max#1 : $val === mi
