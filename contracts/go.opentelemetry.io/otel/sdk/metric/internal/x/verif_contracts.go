//go:build verif

// Contracts for package x (experimental feature flags of the metric SDK; property C12: the cardinality limit that is applied is the
// one that was configured). Comment-only file (build tag verif). Checked by /verif/bin/govc.

package x

//@ props C12

// the parser of OTEL_GO_X_CARDINALITY_LIMIT: the value is read as a DECIMAL integer, exactly as strconv.Atoi reads it ("010" is ten,
// not eight); anything Atoi rejects means "not set"
//@ func init$1(v string) (n int, ok bool)
//@   overflow assumed
//@   ensures ok == atoiOK(v)
//@   ensures ok ==> n == atoiVal(v)
//@   ensures !ok ==> n == 0
//@   assert@call Atoi#1 : $arg0 == v
