//go:build verif

// Contracts for package sdk/metric (properties C07, C15). Comment-only file (build tag verif). Checked by /verif/bin/govc.

package metric

// an accepted exponential-histogram configuration has a positive size and a scale in [-10, 20]
//@ func (e AggregationBase2ExponentialHistogram) err() (r error)
//@   prop C07
//@   ensures r == nil ==> e.MaxSize > 0 && -10 <= e.MaxScale && e.MaxScale <= 20

// accepted explicit boundaries are strictly increasing
//@ func (h AggregationExplicitBucketHistogram) err() (r error)
//@   prop C07
//@   requires forall a in 0 .. len(h.Boundaries) : !isNaN(h.Boundaries[a])
//@   ensures r == nil ==> forall a in 0 .. len(h.Boundaries) : forall b in 0 .. a : h.Boundaries[b] < h.Boundaries[a]
//@   loop#1 invariant forall a in 0 .. $k + 1 : forall b in 0 .. a : h.Boundaries[b] < h.Boundaries[a]
//@   loop#1 invariant i === h.Boundaries[$k] && $k + 1 <= len(h.Boundaries)

// ======================================================================== C15 metric provider lifecycle
// unify: the combined function calls EVERY given function exactly once, in order, whatever errors the earlier ones return
// and whatever state the context is in (a reader must not be skipped: unifyShutdown's sync.Once is consumed by the first call)
//@ ghost var unifyCalls int
//@ func unify$1(ctx context.Context) (err error)
//@   prop C15
//@   overflow assumed
//@   unchecked frame the functions are unknown function values
//@   requires forall i in 0 .. len(funcs) : funcs[i] != nil
//@   modifies ghost unifyCalls
//@   ghost@entry : unifyCalls = 0
//@   assert@call funcvalue#* : unifyCalls == $k && $arg0 == ctx
//@   ghost@call funcvalue#* : unifyCalls = unifyCalls + 1
//@   assert@return#* : unifyCalls == len(funcs)
//@   loop#1 invariant unifyCalls == $k

// ======================================================================== C08 observable instruments: one observer per pipeline
// the observer handed to a callback registered with a pipeline records into exactly that pipeline's measures
//@ func (m *meter) float64ObservableInstrument$1() (r float64Observable, err error)
//@   prop C08 C02
//@   overflow assumed
//@   unchecked frame,no-panic pipeline and resolver plumbing is outside the contracts
//@   acquires pipeline.Mutex
//@   assert@store measures#2 : $val === in
// the measures registered with a pipeline (what RegisterCallback observers of that pipeline record into) are exactly the ones
// this pipeline's inserter returned - not the instrument's accumulated list over all pipelines
//@   assert@call pipeline.addFloat64Measure#* : $arg0 == insert.pipeline && $arg2 === in
//@   assert@call inserter[float64].Instrument#* : $arg0 == insert
//@ func (m *meter) int64ObservableInstrument$1() (r int64Observable, err error)
//@   prop C08 C02
//@   overflow assumed
//@   unchecked frame,no-panic pipeline and resolver plumbing is outside the contracts
//@   acquires pipeline.Mutex
//@   assert@store measures#2 : $val === in
// the measures registered with a pipeline (what RegisterCallback observers of that pipeline record into) are exactly the ones
// this pipeline's inserter returned - not the instrument's accumulated list over all pipelines
//@   assert@call pipeline.addInt64Measure#* : $arg0 == insert.pipeline && $arg2 === in
//@   assert@call inserter[int64].Instrument#* : $arg0 == insert

// ======================================================================== C12 several matching views: no measurement is duplicated
// inserter.Instrument: the aggregate functions attached to an instrument are de-duplicated by the IDENTITY the aggregator cache
// returns for them (two views that resolve to the same cached aggregate function attach it once) - the `seen` set is keyed by
// exactly that id, and a function is appended only when its id was not seen
//@ func (i *inserter[N]) Instrument(inst Instrument, readerAggregation Aggregation) (measures []aggregate.Measure[$N], err error)
//@   prop C12 C02
//@   instances int64; float64
//@   overflow assumed
//@   unchecked frame,no-panic view functions, the aggregator cache and logging are outside the contracts
//@   assert@call mapupdate#1 : $arg0 == seen && $arg1 == id && !has(seen, id) && in != nil
//@   loop#1 invariant seen != nil
//@ func (i *inserter[N]) cachedAggregator(scope instrumentation.Scope, kind InstrumentKind, stream Stream, readerAggregation Aggregation) (meas aggregate.Measure[$N], aggID uint64, err error)
//@   prop -
//@   instances int64; float64
//@   trusted "aggregator cache (generic cache with its own lock, pipeline registration): result arbitrary; only used as the source of the id"

// the aggregate builder made for a new stream: temporality is the reader's for this instrument kind, the attribute filter is the
// view's, and the cardinality limit is exactly what the experimental feature reports - every value, 1 included (a limit of 1
// means: one overflow stream), 0 when unset
//@ extern go.opentelemetry.io/otel/sdk/metric/internal/x Feature.Lookup() (v int, ok bool)
//@   pure
//@   trusted "reads OTEL_GO_X_CARDINALITY_LIMIT from the process environment: used as a deterministic function within one call (assumed)"
//@ func (i *inserter[N]) cachedAggregator$1() (r aggVal[$N])
//@   prop C12
//@   instances int64; float64
//@   acquires pipeline.Mutex
//@   overflow assumed
//@   unchecked frame,no-panic aggregate construction, pipeline registration and the reservoir selector are outside the contracts
//@   assert@call inserter.aggregateFunc#1 : $arg1.AggregationLimit == fst(x.CardinalityLimit.Lookup()) && $arg1.Filter == stream.AttributeFilter && $arg2 == stream.Aggregation && $arg3 == kind

// PeriodicReader.Shutdown, the body run by shutdownOnce: the exporter is shut down EXACTLY ONCE on every path - whether or not
// the final flush succeeded (the Once is consumed, so nothing could repair a skipped exporter shutdown later) - and the reader
// is marked shut down under its lock
//@ ghost var prExpShut int
//@ guarded_by PeriodicReader.mu: isShutdown
//@ func (r *PeriodicReader) Shutdown$1()
//@   prop C15
//@   overflow assumed
//@   unchecked frame,no-panic contexts, channels, the pool and the exporter are outside the contracts
//@   acquires PeriodicReader.mu
//@   modifies ghost prExpShut
//@   ghost@entry : prExpShut = 0
//@   ghost@call Shutdown#* : prExpShut = prExpShut + 1
//@   assert@return#* : prExpShut == 1
//@   assert@store isShutdown#* : $val && prExpShut == 1

// ======================================================================== C02 fan-out: a measurement reaches every pipeline exactly once
//@ ghost var aggCalls int
//@ func (i *int64Inst) aggregate(ctx context.Context, val int64, s attribute.Set)
//@   prop C02
//@   overflow assumed
//@   unchecked frame the measure functions are unknown function values
//@   requires i != nil && (forall j in 0 .. len(i.measures) : i.measures[j] != nil)
//@   modifies ghost aggCalls
//@   ghost@entry : aggCalls = 0
//@   assert@call funcvalue#* : aggCalls == $k && $arg0 == ctx && $arg1 == val && $arg2 == s
//@   ghost@call funcvalue#* : aggCalls = aggCalls + 1
//@   assert@return#* : aggCalls == len(i.measures)
//@   loop#1 invariant aggCalls == $k
//@ func (i *float64Inst) aggregate(ctx context.Context, val float64, s attribute.Set)
//@   prop C02
//@   overflow assumed
//@   unchecked frame the measure functions are unknown function values
//@   requires i != nil && (forall j in 0 .. len(i.measures) : i.measures[j] != nil)
//@   modifies ghost aggCalls
//@   ghost@entry : aggCalls = 0
//@   assert@call funcvalue#* : aggCalls == $k && $arg0 == ctx && $arg1 === val && $arg2 == s
//@   ghost@call funcvalue#* : aggCalls = aggCalls + 1
//@   assert@return#* : aggCalls == len(i.measures)
//@   loop#1 invariant aggCalls == $k

// ======================================================================== C02/C08 collection: every instrument is computed into its own output slot
// produce: the scratch aggregation handed to an instrument's compute function is the one that sits in the output slot the result is
// written to (slot j of scope i) - reading the scratch from one slot and storing the result into another would let two instruments
// share a backing array across collections; name, description and unit stored with a result are that instrument's
//@ func (p *pipeline) produce(ctx context.Context, rm *metricdata.ResourceMetrics) (err error)
//@   prop C02 C08
//@   acquires p.Mutex
//@   overflow assumed
//@   unchecked frame,no-panic callbacks, container/list, slice reuse helper and the compute functions are outside the contracts
//@   requires p != nil && rm != nil
//@   assert@call compAgg#* : *$arg0 === rm.ScopeMetrics[i].Metrics[j].Data
//@   assert@store Data#* : $val === data
//@   assert@store Name#* : $val == inst.name
//@   assert@store Description#* : $val == inst.description
//@   assert@store Unit#* : $val == inst.unit

// ======================================================================== C15 meter provider lifecycle (provider.go)
// Shutdown: the provider is marked stopped on EVERY path, whatever the readers' shutdown reports - and before that shutdown is
// started (so no meter is handed out while or after it runs); the readers' combined shutdown function is called once with the
// caller's context and its result returned. Meter: once stopped, the no-op meter; the meter cache is consulted only on the path on
// which the flag was read as false.
//@ func (mp *MeterProvider) Shutdown(ctx context.Context) (err error)
//@   prop C15
//@   overflow assumed
//@   unchecked frame,no-panic readers are shut down through a function value built at construction
//@   requires mp != nil
//@   ensures mp.stopped.v != 0
//@   assert@call shutdown#* : mp.stopped.v != 0 && $arg0 == ctx
//@   assert@return#* : mp.stopped.v != 0
//@ func (mp *MeterProvider) Meter(name string, options []metric.MeterOption) (m metric.Meter)
//@   prop C15
//@   acquires cache.Mutex
//@   overflow assumed
//@   unchecked frame,no-panic logging, option evaluation and the meter cache are outside the contracts
//@   requires mp != nil
//@   ensures old(mp.stopped.v) != 0 ==> typeis(m, "noop.Meter")
//@   assert@return#1 : old(mp.stopped.v) != 0
//@   assert@call NewMeterConfig#1 : old(mp.stopped.v) == 0
//@ func (mp *MeterProvider) ForceFlush(ctx context.Context) (err error)
//@   prop C15
//@   overflow assumed
//@   unchecked frame,no-panic readers are flushed through a function value built at construction
//@   requires mp != nil
//@   assert@call forceFlush#* : $arg0 == ctx

// ======================================================================== C15 manual reader lifecycle (manual_reader.go)
// Shutdown: every call goes through shutdownOnce.Do exactly once (a later call returns ErrReaderShutdown, never nil, and does
// nothing); the once-body replaces the producer by the shutdown producer (so every later Collect reports ErrReaderShutdown), marks
// the reader shut down under its lock and releases the external producers
//@ ghost var mrOnce int
//@ func (mr *ManualReader) Shutdown(ctx context.Context) (err error)
//@   prop C15
//@   acquires ManualReader.mu
//@   overflow assumed
//@   unchecked frame,no-panic sync.Once body, atomic.Value
//@   requires mr != nil
//@   modifies ghost mrOnce
//@   ghost@entry : mrOnce = 0
//@   ghost@call Once.Do#* : mrOnce = mrOnce + 1
//@   assert@return#* : mrOnce == 1
//@ guarded_by ManualReader.mu: isShutdown
//@ func (mr *ManualReader) Shutdown$1()
//@   prop C15
//@   acquires ManualReader.mu
//@   overflow assumed
//@   unchecked frame,no-panic atomic.Value stores
//@   requires mr != nil
//@   ensures mr.isShutdown && err == nil
//@   assert@store isShutdown#1 : $val
//@   assert@call Store#1 : typeis($arg1, "produceHolder")
// Collect: nothing is produced for a nil destination or an unregistered reader; otherwise the producer currently installed (the
// shutdown producer after Shutdown) is asked exactly once with the caller's context and destination, and its error stops the collection
//@ func (mr *ManualReader) Collect(ctx context.Context, rm *metricdata.ResourceMetrics) (err error)
//@   prop C15
//@   overflow assumed
//@   unchecked frame,no-panic atomic.Value, producers and logging are outside the contracts
//@   requires mr != nil
//@   ensures rm == nil ==> err != nil
//@   assert@call produce#1 : $arg0 == ctx && $arg1 == rm && rm != nil
//@   assert@call Produce#* : err == nil || true

// ======================================================================== C12 view criteria (view.go, instrument.go)
// an instrument matches a view's criteria only if EVERY non-empty criterion agrees with it - description, kind, unit and scope
// (name, version, schema URL) - on the exact-name path and on the wildcard-name path alike; a matching instrument gets the mask's
// non-empty name/description/unit (else its own), the mask's attribute filter and the validated aggregation
//@ spec critRest(c Instrument, o Instrument) bool = (c.Description == "" || c.Description == o.Description) && (c.Kind == 0 || c.Kind == o.Kind) && (c.Unit == "" || c.Unit == o.Unit) && (c.Scope.Name == "" || c.Scope.Name == o.Scope.Name) && (c.Scope.Version == "" || c.Scope.Version == o.Scope.Version) && (c.Scope.SchemaURL == "" || c.Scope.SchemaURL == o.Scope.SchemaURL)
//@ func (i Instrument) matches(other Instrument) (r bool)
//@   prop C12
//@   ensures r == ((i.Name == "" || i.Name == other.Name) && critRest(i, other))
//@ func NewView$1(i Instrument) (r bool)
//@   prop C12
//@   overflow assumed
//@   unchecked frame,no-panic regexp matching is the library's
//@   ensures r ==> critRest(criteria, i)
//@   assert@call Regexp.MatchString#1 : $arg1 == i.Name
//@ func NewView$2(i Instrument) (s Stream, ok bool)
//@   prop C12
//@   overflow assumed
//@   unchecked frame,no-panic the match function is a function value
//@   ensures ok ==> s.Name == ite(mask.Name != "", mask.Name, i.Name) && s.Description == ite(mask.Description != "", mask.Description, i.Description) && s.Unit == ite(mask.Unit != "", mask.Unit, i.Unit)
//@   ensures ok ==> s.Aggregation == agg
//@   ensures !ok ==> s.Name == "" && s.Aggregation == nil
//@   assert@call matchFunc#1 : $arg0 == i
//@   assert@return#1 : $ret1 && matchFunc(i)
//@   assert@return#2 : !$ret1 && !matchFunc(i)

// ======================================================================== C02 one aggregate input per reader pipeline (pipeline.go)
// resolver.Aggregators / HistogramAggregators: EVERY inserter (one per reader pipeline) is asked exactly once, in order, for the
// instrument - a pipeline that yields nothing (drop aggregation) or an error does not stop the others - and everything each of them
// returns is appended to the result
//@ ghost var resAsked int
//@ func (r resolver[N]) Aggregators(id Instrument) (measures []aggregate.Measure[$N], err error)
//@   prop C02
//@   instances int64; float64
//@   overflow assumed
//@   unchecked frame,no-panic a fresh slice is grown
//@   requires forall k in 0 .. len(r.inserters) : r.inserters[k] != nil
//@   modifies ghost resAsked
//@   ghost@entry : resAsked = 0
//@   assert@call inserter.Instrument#* : resAsked == $k && $arg0 == r.inserters[$k] && $arg1 == id
//@   ghost@call inserter.Instrument#* : resAsked = resAsked + 1
//@   assert@return#* : resAsked == len(r.inserters)
//@   loop#1 invariant resAsked == $k
//@ func (r resolver[N]) HistogramAggregators(id Instrument, boundaries []float64) (measures []aggregate.Measure[$N], err error)
//@   prop C02
//@   instances int64; float64
//@   overflow assumed
//@   unchecked frame,no-panic a fresh slice is grown
//@   requires forall k in 0 .. len(r.inserters) : r.inserters[k] != nil
//@   modifies ghost resAsked
//@   ghost@entry : resAsked = 0
//@   assert@call inserter.Instrument#* : resAsked == $k && $arg0 == r.inserters[$k] && $arg1 == id
//@   ghost@call inserter.Instrument#* : resAsked = resAsked + 1
//@   assert@return#* : resAsked == len(r.inserters)
//@   loop#1 invariant resAsked == $k

// ======================================================================== C08 unregistering a multi-pipeline callback (pipeline.go)
// Registration.Unregister of a callback registered through Meter.RegisterCallback: EVERY per-pipeline unregister function is called,
// exactly once, in order - afterwards no reader's pipeline still runs the callback
//@ ghost var unregCalls int
//@ func (u unregisterFuncs) Unregister() (err error)
//@   prop C08
//@   overflow assumed
//@   unchecked frame the functions are unknown function values
//@   requires forall i in 0 .. len(u.f) : u.f[i] != nil
//@   modifies ghost unregCalls
//@   ghost@entry : unregCalls = 0
//@   assert@call funcvalue#* : unregCalls == $k
//@   ghost@call funcvalue#* : unregCalls = unregCalls + 1
//@   assert@return#* : unregCalls == len(u.f) && $ret0 == nil
//@   loop#1 invariant unregCalls == $k
