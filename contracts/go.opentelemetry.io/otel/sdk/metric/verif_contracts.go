//go:build verif

// Contracts for package sdk/metric (properties C07, C15). Comment-only file (build tag verif). Checked by /verif/bin/govc.

package metric

// an accepted exponential-histogram configuration has a positive size and a scale in [-10, 20]
//@ func (e AggregationBase2ExponentialHistogram) err() (r error)
//@   prop C07
//@   ensures r == nil ==> e.MaxSize > 0 && -10 <= e.MaxScale && e.MaxScale <= 20

// accepted explicit boundaries are strictly increasing
//@ func (h AggregationExplicitBucketHistogram) err() (r error)
//@   prop C07
//@   requires forall a in 0 .. len(h.Boundaries) : !isNaN(h.Boundaries[a])
//@   ensures r == nil ==> forall a in 0 .. len(h.Boundaries) : forall b in 0 .. a : h.Boundaries[b] < h.Boundaries[a]
//@   loop#1 invariant forall a in 0 .. $k + 1 : forall b in 0 .. a : h.Boundaries[b] < h.Boundaries[a]
//@   loop#1 invariant i === h.Boundaries[$k] && $k + 1 <= len(h.Boundaries)
