//go:build verif

// Contracts for package sdk/internal/env (property C20). Comment-only file (build tag verif). Checked by /verif/bin/govc.

package env

//@ props C20

// value of an integer setting read from one key: unset/empty or unparsable ==> default
//@ spec intOr(key string, def int) int = ite(getenv(key) == "" || !atoiOK(getenv(key)), def, atoiVal(getenv(key)))

//@ func IntEnvOr(key string, defaultValue int) (r int)
//@   ensures r == intOr(key, defaultValue)

// first non-empty key wins (the signal-specific key is listed first by the callers); unparsable ==> default
//@ func firstInt(defaultValue int, keys []string) (r int)
//@   ensures (forall q in 0 .. len(keys) : getenv(keys[q]) == "") ==> r == defaultValue
//@   ensures forall p in 0 .. len(keys) : getenv(keys[p]) != "" && (forall q in 0 .. p : getenv(keys[q]) == "") ==> r == intOr(keys[p], defaultValue)
//@   loop#1 invariant forall q in 0 .. $k : getenv(keys[q]) == ""

//@ func BatchSpanProcessorScheduleDelay(defaultValue int) (r int)
//@   ensures r == intOr("OTEL_BSP_SCHEDULE_DELAY", defaultValue)
//@ func BatchSpanProcessorExportTimeout(defaultValue int) (r int)
//@   ensures r == intOr("OTEL_BSP_EXPORT_TIMEOUT", defaultValue)
//@ func BatchSpanProcessorMaxQueueSize(defaultValue int) (r int)
//@   ensures r == intOr("OTEL_BSP_MAX_QUEUE_SIZE", defaultValue)
//@ func BatchSpanProcessorMaxExportBatchSize(defaultValue int) (r int)
//@   ensures r == intOr("OTEL_BSP_MAX_EXPORT_BATCH_SIZE", defaultValue)
//@ func SpanEventCount(defaultValue int) (r int)
//@   ensures r == intOr("OTEL_SPAN_EVENT_COUNT_LIMIT", defaultValue)
//@ func SpanEventAttributeCount(defaultValue int) (r int)
//@   ensures r == intOr("OTEL_EVENT_ATTRIBUTE_COUNT_LIMIT", defaultValue)
//@ func SpanLinkCount(defaultValue int) (r int)
//@   ensures r == intOr("OTEL_SPAN_LINK_COUNT_LIMIT", defaultValue)
//@ func SpanLinkAttributeCount(defaultValue int) (r int)
//@   ensures r == intOr("OTEL_LINK_ATTRIBUTE_COUNT_LIMIT", defaultValue)

// the signal-specific key takes precedence over the generic one
//@ func SpanAttributeValueLength(defaultValue int) (r int)
//@   ensures r == ite(getenv("OTEL_SPAN_ATTRIBUTE_VALUE_LENGTH_LIMIT") != "", intOr("OTEL_SPAN_ATTRIBUTE_VALUE_LENGTH_LIMIT", defaultValue), ite(getenv("OTEL_ATTRIBUTE_VALUE_LENGTH_LIMIT") != "", intOr("OTEL_ATTRIBUTE_VALUE_LENGTH_LIMIT", defaultValue), defaultValue))
//@ func SpanAttributeCount(defaultValue int) (r int)
//@   ensures r == ite(getenv("OTEL_SPAN_ATTRIBUTE_COUNT_LIMIT") != "", intOr("OTEL_SPAN_ATTRIBUTE_COUNT_LIMIT", defaultValue), ite(getenv("OTEL_ATTRIBUTE_COUNT_LIMIT") != "", intOr("OTEL_ATTRIBUTE_COUNT_LIMIT", defaultValue), defaultValue))
