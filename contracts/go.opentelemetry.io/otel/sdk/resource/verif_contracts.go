//go:build verif

// Contracts for package sdk/resource (property C19). Comment-only file (build tag verif). Checked by /verif/bin/govc.

package resource

//@ props C19

//@ func Empty() (r *Resource)
//@   ensures r != nil && fresh(r) && r.schemaURL == "" && setLenOf(r) == 0

//@ spec setLenOf(r *Resource) int = setLen(r.attrs.equivalent)

// NewSchemaless / NewWithAttributes: a fresh resource; no attributes offered ==> empty resource
//@ func NewSchemaless(attrs []attribute.KeyValue) (r *Resource)
//@   modifies elems(attrs)
//@   ensures r != nil && fresh(r) && r.schemaURL == ""
// the set is built from the very attributes given, through the filter that keeps exactly the valid ones (key defined, value typed)
//@   assert@call NewSetWithFiltered#1 : $arg0 === attrs && len(attrs) > 0
//@   assert@store attrs#* : $val == s
//@ func NewSchemaless$1(kv attribute.KeyValue) (ok bool)
//@   prop C19
//@   ensures ok == (kv.Key != "" && kv.Value.vtype != attribute.INVALID)
//@ func NewWithAttributes(schemaURL string, attrs []attribute.KeyValue) (r *Resource)
//@   modifies elems(attrs)
//@   ensures r != nil && fresh(r) && r.schemaURL == schemaURL

// Merge: nil identities; the merge iterator is built with b FIRST, so b's value wins on equal keys (first iterator wins,
// contract of attribute.MergeIterator.Next); every attribute the iterator yields is kept (also on a schema URL conflict);
// schema URL table: a empty -> b's, b empty -> a's, equal -> it, different -> "" and ErrSchemaURLConflict.
//@ func Merge(a *Resource, b *Resource) (r *Resource, err error)
//@   ensures a == nil && b == nil ==> r != nil && fresh(r) && r.schemaURL == "" && err == nil
//@   ensures a == nil && b != nil ==> r == b && err == nil
//@   ensures a != nil && b == nil ==> r == a && err == nil
//@   ensures a != nil && b != nil ==> r != nil && fresh(r)
//@   ensures a != nil && b != nil && a.schemaURL == "" ==> r.schemaURL == b.schemaURL && err == nil
//@   ensures a != nil && b != nil && b.schemaURL == "" ==> r.schemaURL == a.schemaURL && err == nil
//@   ensures a != nil && b != nil && a.schemaURL == b.schemaURL ==> r.schemaURL == a.schemaURL && err == nil
//@   ensures a != nil && b != nil && a.schemaURL != "" && b.schemaURL != "" && a.schemaURL != b.schemaURL ==> r.schemaURL == "" && err != nil
//@   assert@call NewMergeIterator#1 : $arg0.equivalent == b.attrs.equivalent && $arg1.equivalent == a.attrs.equivalent
//@   assert@call NewWithAttributes#* : $arg1 === combine
//@   assert@call NewSchemaless#1 : $arg0 === combine
//@   loop#1 invariant fresh(combine) && framed() && oneOK(mi.one) && oneOK(mi.two)

// OTEL_RESOURCE_ATTRIBUTES: each pair is cut at the first '=', key and value are trimmed BEFORE the value is percent-decoded
// (so escaped whitespace survives), the decoded value is used as it is (on a decoding error: the original, untrimmed text), a
// pair without '=' is reported and skipped, the error is non-nil exactly when some pair was skipped
//@ func constructOTResources(s string) (r *Resource, err error)
//@   prop C19
//@   overflow assumed
//@   unchecked frame fresh slices are written; error handler and url.PathUnescape are outside the contracts
//@   ensures s == "" ==> err == nil
//@   assert@call PathUnescape#* : found && (len($arg0) == 0 || ($arg0[0] != ' ' && $arg0[0] != '\t' && $arg0[0] != '\n' && $arg0[len($arg0)-1] != ' ' && $arg0[len($arg0)-1] != '\t' && $arg0[len($arg0)-1] != '\n')) && len($arg0) <= len(v)
//@   assert@call String#* : found && $arg1 == val && (len($arg0) == 0 || ($arg0[0] != ' ' && $arg0[len($arg0)-1] != ' '))
//@   assert@call NewSchemaless#* : (len(invalid) > 0) == (err != nil) && len(attrs) + len(invalid) == len(pairs)
//@   loop#1 invariant len(attrs) + len(invalid) == $k && 0 <= len(attrs) && 0 <= len(invalid)

// fromEnv.Detect: whenever one of the two variables is set, the result is Merge(resource from OTEL_RESOURCE_ATTRIBUTES,
// resource from OTEL_SERVICE_NAME) - in this order, so that the service name wins - also when the attribute list was only
// partially parsable (the parse error is reported besides the merged resource, it does not replace it)
//@ ghost var detMerged int
//@ func (fromEnv) Detect(ctx context.Context) (r *Resource, err error)
//@   prop C19
//@   overflow assumed
//@   unchecked frame fresh resources are built
//@   modifies ghost detMerged
//@   ghost@entry : detMerged = 0
//@   assert@call Merge#* : $arg0 == r2 && $arg1 == res && detMerged == 0 && (svcName == "" ==> res == nil)
//@   ghost@call Merge#* : detMerged = detMerged + 1
//@   assert@return#* : (attrs == "" && svcName == "") || detMerged == 1
//@   assert@return#2 : $ret0 == res

// ======================================================================== C19 detector chain (auto.go)
// detect: every detector's answer is merged into the accumulated resource, b-over-a (Merge(res, r)), whatever it holds - also a
// resource without attributes, which may still carry a schema URL; the only answer that may stay unmerged is one that came with
// an error, and that error is then part of the result. Ghost detPending: 1 between a detector's answer and the Merge that consumes
// it, 2 once the answer's error has been joined into the result (errors.Join #1 is the join of the detector's error).
//@ ghost var detPending int
//@ func detect(ctx context.Context, res *Resource, detectors []Detector) (err error)
//@   prop C19
//@   overflow assumed
//@   unchecked frame,no-panic detectors are third-party code; errors.Join/Is and fmt.Errorf are outside the contracts
//@   requires res != nil
//@   ghost@entry : detPending = 0
//@   assert@call Detect#* : detPending == 0 || detPending == 2
//@   ghost@call Detect#* : detPending = 1
//@   assert@call Join#1 : detPending == 1 && $arg0[1] == e && e != nil
//@   ghost@call Join#1 : detPending = 2
//@   assert@call Merge#* : $arg0 == res && $arg1 == r && (detPending == 1 || detPending == 2)
//@   ghost@call Merge#* : detPending = 0
//@   loop#1 invariant detPending == 0 || detPending == 2
//@   assert@return#* : detPending == 0 || detPending == 2

// Environment: what the environment detector found is returned as it is - also when it reported an error (the valid pairs of a
// partly malformed OTEL_RESOURCE_ATTRIBUTES and the service name are kept; the error goes to the handler)
//@ func Environment() (r *Resource)
//@   prop C19
//@   overflow assumed
//@   unchecked frame,no-panic detector allocation, error handler
//@   assert@return#* : $ret0 == resource
//@   assert@call fromEnv.Detect#1 : true
