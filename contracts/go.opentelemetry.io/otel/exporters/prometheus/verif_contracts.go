//go:build verif

// Contracts for package exporters/prometheus (property C18). Comment-only file (build tag verif). Checked by /verif/bin/govc.

package prometheus

//@ props C18

// A scrape never crashes on a metric name: no run-time panic for every non-empty instrument name
// (the metric API guarantees non-empty names); counters end in "_total".
//@ func (c *collector) getName(m metricdata.Metrics, typ *dto.MetricType) (name string)
//@   requires c != nil && typ != nil && len(m.Name) >= 1
//@   ensures !c.withoutCounterSuffixes && old(*typ) == 0 ==> hasSuffix(name, "_total")

//@ func convertsToUnderscore(b rune) (r bool)
//@   ensures r == !(('a' <= b && b <= 'z') || ('A' <= b && b <= 'Z') || b == ':' || ('0' <= b && b <= '9'))

// getAttrs: the label names and label values handed to the Prometheus client always have the same length (a mismatch makes
// NewConstMetric fail for the whole series), in both the UTF-8 and the sanitising (merge duplicates) branch
//@ func getAttrs(attrs attribute.Set) (keys []string, values []string)
//@   overflow assumed
//@   unchecked frame,no-panic fresh slices and a fresh map are written; attribute values are rendered by attribute.Value.Emit (reflection)
//@   ensures len(keys) == len(values)
//@   loop#1 invariant len(keys) == len(values) && itr.storage != nil && itr.idx >= -1 && itr.idx <= setLen(itr.storage.equivalent)
//@   loop#2 invariant len(keys) == len(values) && keysMap != nil && itr.storage != nil && itr.idx >= -1 && itr.idx <= setLen(itr.storage.equivalent)
//@   loop#3 invariant len(keys) == len(values)
// merging: a fresh one-value list is stored only for a sanitised key that is not in the table yet (otherwise the values already
// collected for that key would be thrown away); for a key already present the stored list is the old one with one value appended
//@   assert@call mapupdate#2 : !has(keysMap, $arg1)
//@   assert@call mapupdate#1 : has(keysMap, $arg1) && len($arg2) == len(keysMap[$arg1]) + 1

// metric type table: histograms (explicit and exponential) -> HISTOGRAM, monotonic sums -> COUNTER, other sums and gauges -> GAUGE
//@ func (c *collector) metricType(m metricdata.Metrics) (r *dto.MetricType)
//@   unchecked frame the enum value is boxed by a third-party helper
//@   ensures typeis(m.Data, "metricdata.Sum[int64]") || typeis(m.Data, "metricdata.Sum[float64]") || typeis(m.Data, "metricdata.Gauge[int64]") || typeis(m.Data, "metricdata.Gauge[float64]") || typeis(m.Data, "metricdata.Histogram[int64]") || typeis(m.Data, "metricdata.Histogram[float64]") || typeis(m.Data, "metricdata.ExponentialHistogram[int64]") || typeis(m.Data, "metricdata.ExponentialHistogram[float64]") || r == nil
//@   assert@call MetricType.Enum#1 : $arg0 == 4 && (typeis(m.Data, "metricdata.ExponentialHistogram[int64]") || typeis(m.Data, "metricdata.ExponentialHistogram[float64]"))
//@   assert@call MetricType.Enum#2 : $arg0 == 4 && (typeis(m.Data, "metricdata.Histogram[int64]") || typeis(m.Data, "metricdata.Histogram[float64]"))
//@   assert@call MetricType.Enum#3 : $arg0 == 0 && typeis(m.Data, "metricdata.Sum[float64]") && cast(m.Data, "metricdata.Sum[float64]").IsMonotonic
//@   assert@call MetricType.Enum#4 : $arg0 == 1 && typeis(m.Data, "metricdata.Sum[float64]") && !cast(m.Data, "metricdata.Sum[float64]").IsMonotonic
//@   assert@call MetricType.Enum#5 : $arg0 == 0 && typeis(m.Data, "metricdata.Sum[int64]") && cast(m.Data, "metricdata.Sum[int64]").IsMonotonic
//@   assert@call MetricType.Enum#6 : $arg0 == 1 && typeis(m.Data, "metricdata.Sum[int64]") && !cast(m.Data, "metricdata.Sum[int64]").IsMonotonic
//@   assert@call MetricType.Enum#7 : $arg0 == 1 && (typeis(m.Data, "metricdata.Gauge[int64]") || typeis(m.Data, "metricdata.Gauge[float64]"))

// validateMetrics: the family table is only touched under the collector's lock; the first definition of a name is recorded
// and never replaced by a later, conflicting one (first definition wins)
//@ guarded_by collector.mu: metricFamilies
//@ extern github.com/prometheus/client_model/go MetricFamily.GetHelp() (s string)
//@   pure
//@   trusted "generated protobuf getter (external library): a deterministic function of the message"
//@ func (c *collector) validateMetrics(name string, description string, metricType *dto.MetricType) (drop bool, help string)
//@   acquires c.mu
//@   unchecked frame,no-panic protobuf getters and logging are outside the contracts
//@   requires c != nil && metricType != nil && c.metricFamilies != nil
//@   ensures !old(has(c.metricFamilies, name)) ==> !drop && help == "" && has(c.metricFamilies, name)
//@   ensures old(has(c.metricFamilies, name)) ==> c.metricFamilies[name] == old(c.metricFamilies[name])
//@   ensures forall k string : k != name ==> has(c.metricFamilies, k) == old(has(c.metricFamilies, k)) && (has(c.metricFamilies, k) ==> c.metricFamilies[k] == old(c.metricFamilies[k]))
// "no conflict" (keep the instrument's own help text) is answered only when the recorded help and the description are the SAME string;
// any difference - letter case included - is a conflict and yields the recorded help (so one family never carries two help texts)
//@   assert@return#4 : !$ret0 && $ret1 == "" && emf.GetHelp() == description
//@   assert@return#3 : !$ret0 && $ret1 == emf.GetHelp()
//@   assert@return#2 : $ret0

// explicit-bucket histograms: the series' count and sum are the data point's count and sum (NOT the running bucket total, which
// leaves out the overflow bucket), labels and label values stay paired, bucket k holds the running total of counts 0..k;
// needs len(BucketCounts) > len(Bounds) (what the SDK produces: C07) for the index to be in range
//@ func addHistogramMetric(ch chan<- prometheus.Metric, histogram metricdata.Histogram[$N], m metricdata.Metrics, name string, kv keyVals)
//@   instances int64; float64
//@   overflow assumed
//@   unchecked frame a fresh map and fresh slices are written; Prometheus client calls
//@   requires len(kv.keys) == len(kv.vals) && (forall j in 0 .. len(histogram.DataPoints) : len(histogram.DataPoints[j].BucketCounts) > len(histogram.DataPoints[j].Bounds))
//@   assert@call NewConstHistogram#* : $arg1 == dp.Count && $arg2 === float64(dp.Sum) && len($arg4) == len(keys) && $arg3 == buckets
//@   assert@call NewDesc#* : len(keys) == len(values) && $arg0 == name && $arg1 == m.Description
//@   loop#2 invariant buckets != nil && 0 <= $k && cumulativeCount >= 0

// exponential (native) histograms: Prometheus indexes buckets by upper boundary, so count i of a side is filed under that SIDE's
// offset + i + 1 - positive counts in the positive map, negative counts in the negative map; count, sum, zero count, scale, zero
// threshold and start time are the data point's; labels and label values stay paired
//@ func addExponentialHistogramMetric(ch chan<- prometheus.Metric, histogram metricdata.ExponentialHistogram[$N], m metricdata.Metrics, name string, kv keyVals)
//@   instances int64; float64
//@   overflow assumed
//@   unchecked frame fresh maps and fresh slices are written; Prometheus client calls
//@   requires len(kv.keys) == len(kv.vals)
//@   assert@call mapupdate#1 : $arg0 == positiveBuckets && $arg1 == int(dp.PositiveBucket.Offset) + i + 1 && c == dp.PositiveBucket.Counts[i] && $arg2 == c
//@   assert@call mapupdate#2 : $arg0 == negativeBuckets && $arg1 == int(dp.NegativeBucket.Offset) + i + 1 && c == dp.NegativeBucket.Counts[i] && $arg2 == c
//@   assert@call NewConstNativeHistogram#* : $arg1 == dp.Count && $arg2 === float64(dp.Sum) && $arg3 == positiveBuckets && $arg4 == negativeBuckets && $arg5 == dp.ZeroCount && $arg6 == dp.Scale && $arg7 === dp.ZeroThreshold && $arg8 === dp.StartTime && len($arg9) == len(keys)
//@   assert@call NewDesc#* : len(keys) == len(values) && $arg0 == name && $arg1 == m.Description
//@   loop#2 invariant positiveBuckets != nil
//@   loop#3 invariant negativeBuckets != nil && positiveBuckets != nil

// scope info: the scope's real name and version are the LAST two attributes of the list the label set is built from, after the
// scope's own attributes - attribute.NewSet keeps the last value of a duplicate key, so an attribute that happens to be called
// otel_scope_name / otel_scope_version can never replace them; the series is a gauge with value 1, labels and values paired
//@ func createScopeInfoMetric(scope instrumentation.Scope) (m prometheus.Metric, err error)
//@   overflow assumed
//@   unchecked frame,no-panic fresh slices are written; Prometheus client calls
//@   assert@call NewSet#1 : len($arg0) == setLen(scope.Attributes.equivalent) + 2
//@   assert@call NewSet#1 : len($arg0) >= 2 && $arg0[len($arg0)-2].Key == scopeNameLabel && $arg0[len($arg0)-1].Key == scopeVersionLabel
//@   assert@call NewSet#1 : len($arg0) >= 2 && $arg0[len($arg0)-2].Value.stringly == scope.Name && $arg0[len($arg0)-1].Value.stringly == scope.Version
//@   assert@call NewDesc#1 : $arg0 == scopeInfoMetricName && $arg2 === keys
//@   assert@call NewConstMetric#1 : $arg1 == prometheus.GaugeValue && $arg3 === values
//@ func createInfoMetric(name string, description string, res *resource.Resource) (m prometheus.Metric, err error)
//@   overflow assumed
//@   unchecked frame,no-panic fresh slices are written; Prometheus client calls; resource accessors
//@   assert@call NewDesc#1 : $arg0 == name && $arg1 == description && $arg2 === keys
//@   assert@call NewConstMetric#1 : $arg1 == prometheus.GaugeValue && $arg3 === values

// sums and gauges: monotonic sums are counters, everything else a gauge; the exposed value is the data point's value
//@ func addSumMetric(ch chan<- prometheus.Metric, sum metricdata.Sum[$N], m metricdata.Metrics, name string, kv keyVals)
//@   instances int64; float64
//@   overflow assumed
//@   unchecked frame fresh slices are written; Prometheus client calls
//@   requires len(kv.keys) == len(kv.vals)
//@   assert@call NewConstMetric#* : $arg1 == ite(sum.IsMonotonic, prometheus.CounterValue, prometheus.GaugeValue) && $arg2 === float64(dp.Value) && len($arg3) == len(keys)
//@   assert@call NewDesc#* : len(keys) == len(values) && $arg0 == name && $arg1 == m.Description
//@ func addGaugeMetric(ch chan<- prometheus.Metric, gauge metricdata.Gauge[$N], m metricdata.Metrics, name string, kv keyVals)
//@   instances int64; float64
//@   overflow assumed
//@   unchecked frame fresh slices are written; Prometheus client calls
//@   requires len(kv.keys) == len(kv.vals)
//@   assert@call NewConstMetric#* : $arg1 == prometheus.GaugeValue && $arg2 === float64(dp.Value) && len($arg3) == len(keys)
//@   assert@call NewDesc#* : len(keys) == len(values) && $arg0 == name && $arg1 == m.Description
