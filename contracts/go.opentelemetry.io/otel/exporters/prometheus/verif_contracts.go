//go:build verif

// Contracts for package exporters/prometheus (property C18). Comment-only file (build tag verif). Checked by /verif/bin/govc.

package prometheus

//@ props C18

// A scrape never crashes on a metric name: no run-time panic for every non-empty instrument name
// (the metric API guarantees non-empty names); counters end in "_total".
//@ func (c *collector) getName(m metricdata.Metrics, typ *dto.MetricType) (name string)
//@   requires c != nil && typ != nil && len(m.Name) >= 1
//@   ensures !c.withoutCounterSuffixes && old(*typ) == 0 ==> hasSuffix(name, "_total")

//@ func convertsToUnderscore(b rune) (r bool)
//@   ensures r == !(('a' <= b && b <= 'z') || ('A' <= b && b <= 'Z') || b == ':' || ('0' <= b && b <= '9'))
