//go:build verif

// Contracts for package zipkin (property C13: the Zipkin exporter preserves trace, span and parent IDs, name, kind, start time and
// duration). Comment-only file (build tag verif). Checked by /verif/bin/govc.

package zipkin

//@ props C13

// big-endian reading of 8 bytes starting at position o (mathematical integers)
//@ spec be8(b0 byte, b1 byte, b2 byte, b3 byte, b4 byte, b5 byte, b6 byte, b7 byte) int = int(b0)*72057594037927936 + int(b1)*281474976710656 + int(b2)*1099511627776 + int(b3)*4294967296 + int(b4)*16777216 + int(b5)*65536 + int(b6)*256 + int(b7)

// IDs: the 16 trace-ID bytes become (high, low) big-endian halves, the 8 span-ID bytes one big-endian number - every byte at its
// own position, so distinct IDs stay distinct
//@ func toZipkinTraceID(traceID trace.TraceID) (r zkmodel.TraceID)
//@   overflow assumed
//@   ensures r.High == be8(traceID[0], traceID[1], traceID[2], traceID[3], traceID[4], traceID[5], traceID[6], traceID[7])
//@   ensures r.Low == be8(traceID[8], traceID[9], traceID[10], traceID[11], traceID[12], traceID[13], traceID[14], traceID[15])
//@ func toZipkinID(spanID trace.SpanID) (r zkmodel.ID)
//@   overflow assumed
//@   ensures r == be8(spanID[0], spanID[1], spanID[2], spanID[3], spanID[4], spanID[5], spanID[6], spanID[7])
// parent: absent exactly for the all-zero span ID, otherwise the same conversion
//@ func toZipkinParentID(spanID trace.SpanID) (r *zkmodel.ID)
//@   overflow assumed
//@   ensures !spanID.IsValid() ==> r == nil
//@   ensures spanID.IsValid() ==> r != nil && *r == be8(spanID[0], spanID[1], spanID[2], spanID[3], spanID[4], spanID[5], spanID[6], spanID[7])

// kind table
//@ func toZipkinKind(kind trace.SpanKind) (r zkmodel.Kind)
//@   ensures kind == trace.SpanKindServer ==> r == zkmodel.Server
//@   ensures kind == trace.SpanKindClient ==> r == zkmodel.Client
//@   ensures kind == trace.SpanKindProducer ==> r == zkmodel.Producer
//@   ensures kind == trace.SpanKindConsumer ==> r == zkmodel.Consumer
//@   ensures kind != trace.SpanKindServer && kind != trace.SpanKindClient && kind != trace.SpanKindProducer && kind != trace.SpanKindConsumer ==> r == zkmodel.Undetermined

// span context: trace ID from the span's own context, ID from its span ID, parent from the PARENT's span ID
//@ func toZipkinSpanContext(data tracesdk.ReadOnlySpan) (r zkmodel.SpanContext)
//@   overflow assumed
//@   unchecked no-panic the span is an interface of another module
//@   requires data != nil
//@   assert@call toZipkinTraceID#1 : $arg0 == data.SpanContext().traceID
//@   assert@call toZipkinID#1 : $arg0 == data.SpanContext().spanID
//@   assert@call toZipkinParentID#1 : $arg0 == data.Parent().spanID

// span model: name, kind, start time and duration (end - start) are the span's own
//@ func toZipkinSpanModel(data tracesdk.ReadOnlySpan) (r zkmodel.SpanModel)
//@   overflow assumed
//@   unchecked no-panic,frame the span is an interface of another module; tags and annotations are built by helpers outside the contracts
//@   requires data != nil
//@   ensures r.Name == data.Name() && r.Timestamp === data.StartTime() && !r.Shared
//@   assert@call toZipkinKind#1 : $arg0 == data.SpanKind()
//@   assert@call toZipkinSpanContext#1 : $arg0 == data
//@   assert@call Sub#1 : $arg0 === data.EndTime() && $arg1 === data.StartTime()
