//go:build verif

// Contracts for the OTLP/gRPC client (property C14). Comment-only file (build tag verif). Checked by /verif/bin/govc.
// Generated from /verif/templates/grpcclient.contract: the three gRPC clients carry the same contract text.

package otlploggrpc

//@ props C14

// gRPC status accessors live in google.golang.org/grpc (external): deterministic functions of the status (assumed).
//@ extern google.golang.org/grpc/internal/status Status.Code() (c codes.Code)
//@   pure
//@   trusted "accessor of google.golang.org/grpc/status (external library)"

// first RetryInfo detail of the status, if any (protobuf Any decoding is external)
// "carries retry info" means: a RetryInfo detail is PRESENT (whatever delay it asks for, zero included); without one: (false, 0)
//@ func throttleDelay(s *status.Status) (ok bool, d time.Duration)
//@   pure
//@   unchecked frame,no-panic walks protobuf status details (external library types); used by callers as a deterministic function of the status
//@   assert@return#1 : $ret0
//@   assert@return#2 : !$ret0 && $ret1 == 0

// Exactly the documented retryable codes are retried; ResourceExhausted only when the server sent RetryInfo.
//@ func retryableGRPCStatus(s *status.Status) (ok bool, d time.Duration)
//@   ensures (s.Code() == codes.Canceled || s.Code() == codes.DeadlineExceeded || s.Code() == codes.Aborted || s.Code() == codes.OutOfRange || s.Code() == codes.Unavailable || s.Code() == codes.DataLoss) ==> ok && d == snd(throttleDelay(s))
//@   ensures s.Code() == codes.ResourceExhausted ==> ok == fst(throttleDelay(s)) && d == snd(throttleDelay(s))
//@   ensures !(s.Code() == codes.Canceled || s.Code() == codes.DeadlineExceeded || s.Code() == codes.Aborted || s.Code() == codes.OutOfRange || s.Code() == codes.Unavailable || s.Code() == codes.DataLoss || s.Code() == codes.ResourceExhausted) ==> !ok && d == 0

// ======================================================================== C20 configuration resolvers of the log exporter
// getEnv: an explicitly set value is never replaced by the environment; when the resolver gives up (result unset) it has read
// EVERY key of its list - an unparsable value under an earlier (more specific) key does not hide a valid value under a later one;
// the input setting is returned untouched in that case. conv is the captured conversion function: every call of getEnv in
// this package passes a declared function, the precondition on it is not checked at those calls
//@ ghost var envReads int
//@ func getEnv$1(s setting[$N]) (r setting[$N])
//@   prop C20
//@   instances string; bool; time.Duration
//@   overflow assumed
//@   unchecked frame error handler and the conversion function are outside the contracts
//@   requires conv != nil
//@   modifies ghost envReads
//@   ghost@entry : envReads = 0
//@   ghost@call Getenv#* : envReads = envReads + 1
//@   loop#1 invariant envReads == $k && s == old(s)
//@   ensures old(s.Set) ==> r == old(s)
//@   ensures !old(s.Set) && !r.Set ==> r == old(s) && envReads == len(keys)
//@ func fallback$1(s setting[$N]) (r setting[$N])
//@   prop C20
//@   instances string; bool; time.Duration
//@   ensures !s.Set ==> r.Set && r.Value == val
//@   ensures s.Set ==> r == s
//@   modifies
