//go:build verif

// Contracts for the OTLP/gRPC client (property C14). Comment-only file (build tag verif). Checked by /verif/bin/govc.
// Generated from /verif/templates/grpcclient.contract: the three gRPC clients carry the same contract text.

package otlploggrpc

//@ props C14

// gRPC status accessors live in google.golang.org/grpc (external): deterministic functions of the status (assumed).
//@ extern google.golang.org/grpc/internal/status Status.Code() (c codes.Code)
//@   pure
//@   trusted "accessor of google.golang.org/grpc/status (external library)"

// first RetryInfo detail of the status, if any (protobuf Any decoding is external)
// "carries retry info" means: a RetryInfo detail is PRESENT (whatever delay it asks for, zero included); without one: (false, 0)
//@ ghost var riSeen int
//@ func throttleDelay(s *status.Status) (ok bool, d time.Duration)
//@   pure
//@   unchecked frame,no-panic walks protobuf status details (external library types); used by callers as a deterministic function of the status
//@   assert@return#1 : $ret0
//@   assert@return#2 : !$ret0 && $ret1 == 0
// the first RetryInfo detail ends the search, whatever delay it carries (zero included): once its delay has been read
// (ghost riSeen) the function returns with ok - it never goes on to report "no retry info"
//@   modifies ghost riSeen
//@   ghost@entry : riSeen = 0
//@   ghost@call Duration.AsDuration#* : riSeen = 1
//@   assert@return#1 : riSeen == 1
//@   assert@return#2 : riSeen == 0
//@   loop#1 invariant riSeen == 0

// Exactly the documented retryable codes are retried; ResourceExhausted only when the server sent RetryInfo.
//@ func retryableGRPCStatus(s *status.Status) (ok bool, d time.Duration)
//@   modifies ghost riSeen
//@   ensures (s.Code() == codes.Canceled || s.Code() == codes.DeadlineExceeded || s.Code() == codes.Aborted || s.Code() == codes.OutOfRange || s.Code() == codes.Unavailable || s.Code() == codes.DataLoss) ==> ok && d == snd(throttleDelay(s))
//@   ensures s.Code() == codes.ResourceExhausted ==> ok == fst(throttleDelay(s)) && d == snd(throttleDelay(s))
//@   ensures !(s.Code() == codes.Canceled || s.Code() == codes.DeadlineExceeded || s.Code() == codes.Aborted || s.Code() == codes.OutOfRange || s.Code() == codes.Unavailable || s.Code() == codes.DataLoss || s.Code() == codes.ResourceExhausted) ==> !ok && d == 0

// exportContext: the context an export runs under is derived from the caller's context with the export timeout (or a plain cancel
// when no timeout is configured), and the outgoing metadata is attached to THAT derived context - so headers never cost the deadline
//@ func (c *client) exportContext(parent context.Context) (ctx context.Context, cancel context.CancelFunc)
//@   overflow assumed
//@   unchecked frame,no-panic context and gRPC metadata packages; the trace client also spawns the stop-context watcher
//@   requires c != nil
//@   assert@call WithTimeout#1 : $arg0 == parent && $arg1 == c.exportTimeout && c.exportTimeout > 0
//@   assert@call WithCancel#1 : $arg0 == parent && c.exportTimeout <= 0
//@   assert@call NewOutgoingContext#1 : $arg0 == ctx && $arg1 === md
//@   assert@call FromOutgoingContext#1 : $arg0 == ctx

// ======================================================================== C20 configuration resolvers of the log exporter
// getEnv: an explicitly set value is never replaced by the environment; when the resolver gives up (result unset) it has read
// EVERY key of its list - an unparsable value under an earlier (more specific) key does not hide a valid value under a later one;
// the input setting is returned untouched in that case. conv is the captured conversion function: every call of getEnv in
// this package passes a declared function, the precondition on it is not checked at those calls
//@ ghost var envReads int
//@ func getEnv$1(s setting[$N]) (r setting[$N])
//@   prop C20
//@   instances string; bool; time.Duration
//@   overflow assumed
//@   unchecked frame error handler and the conversion function are outside the contracts
//@   requires conv != nil
//@   modifies ghost envReads
//@   ghost@entry : envReads = 0
//@   ghost@call Getenv#* : envReads = envReads + 1
//@   loop#1 invariant envReads == $k && s == old(s)
//@   ensures old(s.Set) ==> r == old(s)
//@   ensures !old(s.Set) && !r.Set ==> r == old(s) && envReads == len(keys)
//@ func fallback$1(s setting[$N]) (r setting[$N])
//@   prop C20
//@   instances string; bool; time.Duration
//@   ensures !s.Set ==> r.Set && r.Value == val
//@   ensures s.Set ==> r == s
//@   modifies

// ======================================================================== C20 programmatic options of the log exporter
// an option, once applied, leaves ITS setting set to exactly the value passed - whatever that value is (an empty header map, a zero
// timeout and an empty string are values too: the environment must not take over) - and touches no other setting
//@ func WithEndpoint$1(c config) (r config)
//@   prop C20
//@   overflow assumed
//@   ensures r.endpoint.Set && r.endpoint.Value == endpoint
//@   ensures r.insecure == c.insecure && r.compression == c.compression && r.timeout == c.timeout && r.headers == c.headers
//@ func WithInsecure$1(c config) (r config)
//@   prop C20
//@   overflow assumed
//@   ensures r.insecure.Set && r.insecure.Value == true
//@   ensures r.endpoint == c.endpoint && r.compression == c.compression && r.timeout == c.timeout && r.headers == c.headers
//@ func WithHeaders$1(c config) (r config)
//@   prop C20
//@   overflow assumed
//@   ensures r.headers.Set && r.headers.Value == headers
//@   ensures r.endpoint == c.endpoint && r.insecure == c.insecure && r.compression == c.compression && r.timeout == c.timeout
//@ func WithTimeout$1(c config) (r config)
//@   prop C20
//@   overflow assumed
//@   ensures r.timeout.Set && r.timeout.Value == duration
//@   ensures r.endpoint == c.endpoint && r.insecure == c.insecure && r.compression == c.compression && r.headers == c.headers
