//go:build verif

// Contracts for package transform of the OTLP log exporters (property C13). Comment-only file (build tag verif).
// Generated from /verif/templates/logtransform.contract: the HTTP and gRPC copies carry the same contract text,
// so both produce the same payload for the same record.

package transform

//@ props C13

// OTLP severity numbers coincide with the API's severities 1..24; anything else is UNSPECIFIED
//@ func SeverityNumber(s api.Severity) (r lpb.SeverityNumber)
//@   ensures 1 <= s && s <= 24 ==> r == s
//@   ensures s < 1 || s > 24 ==> r == 0

//@ func timeUnixNano(t time.Time) (r uint64)
//@   ensures r == max(0, t.UnixNano())

// scalar fields of the protobuf log record equal the SDK record's, including the dropped-attribute count
//@ func LogRecord(record log.Record) (r *lpb.LogRecord)
//@   ensures r != nil && fresh(r)
//@   ensures r.SeverityText == record.severityText && r.EventName == record.eventName && r.Flags == record.traceFlags
//@   ensures 1 <= record.severity && record.severity <= 24 ==> r.SeverityNumber == record.severity
//@   ensures r.TimeUnixNano == max(0, record.timestamp.UnixNano()) && r.ObservedTimeUnixNano == max(0, record.observedTimestamp.UnixNano())
//@   ensures 0 <= record.dropped && record.dropped <= 4294967295 ==> r.DroppedAttributesCount == record.dropped
//@   ensures !record.traceID.IsValid() ==> len(r.TraceId) == 0
//@   ensures record.traceID.IsValid() ==> len(r.TraceId) == 16 && (forall i in 0 .. 16 : r.TraceId[i] == record.traceID[i])
//@   ensures !record.spanID.IsValid() ==> len(r.SpanId) == 0
//@   ensures record.spanID.IsValid() ==> len(r.SpanId) == 8 && (forall i in 0 .. 8 : r.SpanId[i] == record.spanID[i])
