//go:build verif

// Contracts for package transform of the OTLP log exporters (property C13). Comment-only file (build tag verif).
// Generated from /verif/templates/logtransform.contract: the HTTP and gRPC copies carry the same contract text,
// so both produce the same payload for the same record.

package transform

//@ props C13

// OTLP severity numbers coincide with the API's severities 1..24; anything else is UNSPECIFIED
//@ func SeverityNumber(s api.Severity) (r lpb.SeverityNumber)
//@   ensures 1 <= s && s <= 24 ==> r == s
//@   ensures s < 1 || s > 24 ==> r == 0

//@ func timeUnixNano(t time.Time) (r uint64)
//@   ensures r == max(0, t.UnixNano())

// scalar fields of the protobuf log record equal the SDK record's, including the dropped-attribute count
//@ func LogRecord(record log.Record) (r *lpb.LogRecord)
//@   ensures r != nil && fresh(r)
//@   ensures r.SeverityText == record.severityText && r.EventName == record.eventName && r.Flags == record.traceFlags
//@   ensures 1 <= record.severity && record.severity <= 24 ==> r.SeverityNumber == record.severity
//@   ensures r.TimeUnixNano == max(0, record.timestamp.UnixNano()) && r.ObservedTimeUnixNano == max(0, record.observedTimestamp.UnixNano())
//@   ensures 0 <= record.dropped && record.dropped <= 4294967295 ==> r.DroppedAttributesCount == record.dropped
//@   ensures !record.traceID.IsValid() ==> len(r.TraceId) == 0
//@   ensures record.traceID.IsValid() ==> len(r.TraceId) == 16 && (forall i in 0 .. 16 : r.TraceId[i] == record.traceID[i])
//@   ensures !record.spanID.IsValid() ==> len(r.SpanId) == 0
//@   ensures record.spanID.IsValid() ==> len(r.SpanId) == 8 && (forall i in 0 .. 8 : r.SpanId[i] == record.spanID[i])

// attribute lists: same length and order; the input is only read (fresh messages are built)
//@ func LogAttrs(attrs []api.KeyValue) (out []*cpb.KeyValue)
//@   overflow assumed
//@   unchecked frame fresh protobuf messages are written
//@   modifies
//@   ensures len(out) == len(attrs)
//@   assert@call LogAttr#* : $arg0 == attrs[$k]
//@   loop#1 invariant len(out) == $k && $k <= len(attrs) && cap(out) == len(attrs)
//@ func LogAttrValues(vals []api.Value) (out []*cpb.AnyValue)
//@   overflow assumed
//@   unchecked frame fresh protobuf messages are written
//@   modifies
//@   ensures len(out) == len(vals)
//@   assert@call LogAttrValue#* : $arg0 == vals[$k]
//@   loop#1 invariant len(out) == $k && $k <= len(vals) && cap(out) == len(vals)

// the SDK record's attribute walk calls the callback on each attribute and writes nothing itself (other module: assumed)
//@ extern go.opentelemetry.io/otel/sdk/log Record.WalkAttributes(f func(api.KeyValue) bool)
//@   trusted "read-only iteration over the record's attributes (sdk/log, another module); the callback's writes to captured variables are not modelled"
//@   modifies
