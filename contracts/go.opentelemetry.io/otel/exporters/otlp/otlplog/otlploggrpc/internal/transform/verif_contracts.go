//go:build verif

// Contracts for package transform of the OTLP log exporters (property C13). Comment-only file (build tag verif).
// Generated from /verif/templates/logtransform.contract: the HTTP and gRPC copies carry the same contract text,
// so both produce the same payload for the same record.

package transform

//@ props C13

// OTLP severity numbers coincide with the API's severities 1..24; anything else is UNSPECIFIED
//@ func SeverityNumber(s api.Severity) (r lpb.SeverityNumber)
//@   ensures 1 <= s && s <= 24 ==> r == s
//@   ensures s < 1 || s > 24 ==> r == 0

//@ func timeUnixNano(t time.Time) (r uint64)
//@   ensures r == max(0, t.UnixNano())

// scalar fields of the protobuf log record equal the SDK record's, including the dropped-attribute count
//@ func LogRecord(record log.Record) (r *lpb.LogRecord)
//@   ensures r != nil && fresh(r)
//@   ensures r.SeverityText == record.severityText && r.EventName == record.eventName && r.Flags == record.traceFlags
//@   ensures 1 <= record.severity && record.severity <= 24 ==> r.SeverityNumber == record.severity
//@   ensures r.TimeUnixNano == max(0, record.timestamp.UnixNano()) && r.ObservedTimeUnixNano == max(0, record.observedTimestamp.UnixNano())
//@   ensures 0 <= record.dropped && record.dropped <= 4294967295 ==> r.DroppedAttributesCount == record.dropped
//@   ensures !record.traceID.IsValid() ==> len(r.TraceId) == 0
//@   ensures record.traceID.IsValid() ==> len(r.TraceId) == 16 && (forall i in 0 .. 16 : r.TraceId[i] == record.traceID[i])
//@   ensures !record.spanID.IsValid() ==> len(r.SpanId) == 0
//@   ensures record.spanID.IsValid() ==> len(r.SpanId) == 8 && (forall i in 0 .. 8 : r.SpanId[i] == record.spanID[i])

// attribute lists: same length and order; the input is only read (fresh messages are built)
//@ func LogAttrs(attrs []api.KeyValue) (out []*cpb.KeyValue)
//@   overflow assumed
//@   unchecked frame fresh protobuf messages are written
//@   modifies
//@   ensures len(out) == len(attrs)
//@   assert@call LogAttr#* : $arg0 == attrs[$k]
//@   loop#1 invariant len(out) == $k && $k <= len(attrs) && cap(out) == len(attrs)
//@ func LogAttrValues(vals []api.Value) (out []*cpb.AnyValue)
//@   overflow assumed
//@   unchecked frame fresh protobuf messages are written
//@   modifies
//@   ensures len(out) == len(vals)
//@   assert@call LogAttrValue#* : $arg0 == vals[$k]
//@   loop#1 invariant len(out) == $k && $k <= len(vals) && cap(out) == len(vals)

// the SDK record's attribute walk calls the callback on each attribute and writes nothing itself (other module: assumed)
//@ extern go.opentelemetry.io/otel/sdk/log Record.WalkAttributes(f func(api.KeyValue) bool)
//@   trusted "read-only iteration over the record's attributes (sdk/log, another module); the callback's writes to captured variables are not modelled"
//@   modifies

// grouping: every record is filed under the (resource identity, FULL instrumentation scope - name, version, schema URL and
// attributes) of that very record and converted exactly once; the scope message carries the scope's own name, version, schema URL
//@ func ResourceLogs(records []log.Record) (out []*lpb.ResourceLogs)
//@   overflow assumed
//@   unchecked no-panic,frame map-of-pointer values loaded inside the loop need a quantified invariant over a function-local key type
//@   ensures len(records) == 0 ==> len(out) == 0
//@   assert@call LogRecord#1 : $arg0 == r && k.r == rKey && k.is == scope
//@   assert@call mapupdate#1 : $arg1 == k && k.r == rKey && k.is == scope && $arg2 == sl && !iOk
//@   assert@call mapupdate#2 : $arg1 == rKey && $arg2 == rl && !rOk
//@   assert@store Name#* : $val == scope.Name
//@   assert@store Version#* : $val == scope.Version
//@   assert@store SchemaUrl#1 : $val == scope.SchemaURL

// ======================================================================== C13 attributes: the eight value kinds
// slice helpers: same length, element i is a fresh AnyValue of the matching oneof kind holding exactly vals[i]
//@ func boolSliceValues(vals []bool) (converted []*cpb.AnyValue)
//@   prop C13
//@   overflow assumed
//@   unchecked frame fresh protobuf messages are written
//@   ensures len(converted) == len(vals)
//@   assert@store elem#* : $val != nil && typeis($val.Value, "*cpb.AnyValue_BoolValue") && cast($val.Value, "*cpb.AnyValue_BoolValue").BoolValue == vals[i] && 0 <= i && i < len(vals)
//@   loop#1 invariant len(converted) == len(vals) && fresh(converted) && 0 <= i && i <= len(vals)
//@ func int64SliceValues(vals []int64) (converted []*cpb.AnyValue)
//@   prop C13
//@   overflow assumed
//@   unchecked frame fresh protobuf messages are written
//@   ensures len(converted) == len(vals)
//@   assert@store elem#* : $val != nil && typeis($val.Value, "*cpb.AnyValue_IntValue") && cast($val.Value, "*cpb.AnyValue_IntValue").IntValue == vals[i] && 0 <= i && i < len(vals)
//@   loop#1 invariant len(converted) == len(vals) && fresh(converted) && 0 <= i && i <= len(vals)
//@ func float64SliceValues(vals []float64) (converted []*cpb.AnyValue)
//@   prop C13
//@   overflow assumed
//@   unchecked frame fresh protobuf messages are written
//@   ensures len(converted) == len(vals)
//@   assert@store elem#* : $val != nil && typeis($val.Value, "*cpb.AnyValue_DoubleValue") && cast($val.Value, "*cpb.AnyValue_DoubleValue").DoubleValue === vals[i] && 0 <= i && i < len(vals)
//@   loop#1 invariant len(converted) == len(vals) && fresh(converted) && 0 <= i && i <= len(vals)
//@ func stringSliceValues(vals []string) (converted []*cpb.AnyValue)
//@   prop C13
//@   overflow assumed
//@   unchecked frame fresh protobuf messages are written
//@   ensures len(converted) == len(vals)
//@   assert@store elem#* : $val != nil && typeis($val.Value, "*cpb.AnyValue_StringValue") && cast($val.Value, "*cpb.AnyValue_StringValue").StringValue == vals[i] && 0 <= i && i < len(vals)
//@   loop#1 invariant len(converted) == len(vals) && fresh(converted) && 0 <= i && i <= len(vals)

// AttrValue: the oneof kind follows the attribute's type; scalars carry exactly the attribute's value; anything else is the string "INVALID"
//@ func AttrValue(v attribute.Value) (av *cpb.AnyValue)
//@   prop C13
//@   overflow assumed
//@   unchecked frame,no-panic fresh protobuf messages are written; slice values are unpacked through reflection (attribute/internal)
//@   ensures av != nil
//@   ensures v.vtype == attribute.BOOL ==> typeis(av.Value, "*cpb.AnyValue_BoolValue") && cast(av.Value, "*cpb.AnyValue_BoolValue").BoolValue == v.AsBool()
//@   ensures v.vtype == attribute.INT64 ==> typeis(av.Value, "*cpb.AnyValue_IntValue") && cast(av.Value, "*cpb.AnyValue_IntValue").IntValue == v.AsInt64()
//@   ensures v.vtype == attribute.FLOAT64 ==> typeis(av.Value, "*cpb.AnyValue_DoubleValue") && cast(av.Value, "*cpb.AnyValue_DoubleValue").DoubleValue === v.AsFloat64()
//@   ensures v.vtype == attribute.STRING ==> typeis(av.Value, "*cpb.AnyValue_StringValue") && cast(av.Value, "*cpb.AnyValue_StringValue").StringValue == v.AsString()
//@   ensures v.vtype == attribute.BOOLSLICE || v.vtype == attribute.INT64SLICE || v.vtype == attribute.FLOAT64SLICE || v.vtype == attribute.STRINGSLICE ==> typeis(av.Value, "*cpb.AnyValue_ArrayValue")
//@   ensures v.vtype == attribute.INVALID ==> typeis(av.Value, "*cpb.AnyValue_StringValue") && cast(av.Value, "*cpb.AnyValue_StringValue").StringValue == "INVALID"
//@   assert@call boolSliceValues#1 : v.vtype == attribute.BOOLSLICE
//@   assert@call int64SliceValues#1 : v.vtype == attribute.INT64SLICE
//@   assert@call float64SliceValues#1 : v.vtype == attribute.FLOAT64SLICE
//@   assert@call stringSliceValues#1 : v.vtype == attribute.STRINGSLICE

// Attr / Attrs: key copied, value converted by AttrValue; the list keeps length and order
//@ func Attr(kv attribute.KeyValue) (r *cpb.KeyValue)
//@   prop C13
//@   overflow assumed
//@   unchecked frame,no-panic fresh protobuf messages are written
//@   ensures r != nil && r.Key == kv.Key && r.Value != nil
//@   assert@call AttrValue#1 : $arg0 == kv.Value
//@ func Attrs(attrs []attribute.KeyValue) (out []*cpb.KeyValue)
//@   prop C13
//@   overflow assumed
//@   unchecked frame fresh protobuf messages are written
//@   ensures len(out) == len(attrs)
//@   assert@call Attr#* : $arg0 == attrs[$k]
//@   loop#1 invariant len(out) == $k && $k <= len(attrs) && cap(out) == len(attrs)

// AttrIter: one key-value per attribute the iterator yields, in iteration order, each converted by Attr
//@ func AttrIter(iter attribute.Iterator) (out []*cpb.KeyValue)
//@   prop C13
//@   overflow assumed
//@   unchecked frame,no-panic fresh protobuf messages are written; the iterator reads reflect-built storage
//@   requires iter.storage != nil && iter.idx >= -1 && iter.idx <= setLen(iter.storage.equivalent)
//@   loop#1 invariant iter.storage != nil && iter.idx >= -1 && iter.idx <= setLen(iter.storage.equivalent)
//@   assert@call Attr#* : $arg0 == iter.Attribute()

// log values: the oneof kind follows the value's kind; scalars and strings carry exactly the value's content, bytes the very byte
// slice, lists and maps are converted element by element from the value's own list / map; anything else is the string "INVALID"
//@ func LogAttrValue(v api.Value) (av *cpb.AnyValue)
//@   prop C13
//@   overflow assumed
//@   unchecked frame,no-panic fresh protobuf messages are written; recursion through LogAttrValues / LogAttrs
//@   ensures av != nil
//@   ensures v.Kind() == api.KindBool ==> typeis(av.Value, "*cpb.AnyValue_BoolValue") && cast(av.Value, "*cpb.AnyValue_BoolValue").BoolValue == v.AsBool()
//@   ensures v.Kind() == api.KindInt64 ==> typeis(av.Value, "*cpb.AnyValue_IntValue") && cast(av.Value, "*cpb.AnyValue_IntValue").IntValue == v.AsInt64()
//@   ensures v.Kind() == api.KindFloat64 ==> typeis(av.Value, "*cpb.AnyValue_DoubleValue") && cast(av.Value, "*cpb.AnyValue_DoubleValue").DoubleValue === v.AsFloat64()
//@   ensures v.Kind() == api.KindString ==> typeis(av.Value, "*cpb.AnyValue_StringValue") && cast(av.Value, "*cpb.AnyValue_StringValue").StringValue == v.AsString()
//@   ensures v.Kind() == api.KindBytes ==> typeis(av.Value, "*cpb.AnyValue_BytesValue")
//@   ensures v.Kind() == api.KindSlice ==> typeis(av.Value, "*cpb.AnyValue_ArrayValue")
//@   ensures v.Kind() == api.KindMap ==> typeis(av.Value, "*cpb.AnyValue_KvlistValue")
//@   ensures v.Kind() == api.KindEmpty ==> typeis(av.Value, "*cpb.AnyValue_StringValue") && cast(av.Value, "*cpb.AnyValue_StringValue").StringValue == "INVALID"
//@   assert@call LogAttrValues#1 : v.Kind() == api.KindSlice && $arg0 === v.AsSlice()
//@   assert@call LogAttrs#1 : v.Kind() == api.KindMap && $arg0 === v.AsMap()
//@ func LogAttr(attr api.KeyValue) (r *cpb.KeyValue)
//@   prop C13
//@   overflow assumed
//@   unchecked frame,no-panic fresh protobuf messages are written
//@   ensures r != nil && r.Key == attr.Key && r.Value != nil
//@   assert@call LogAttrValue#1 : $arg0 == attr.Value
