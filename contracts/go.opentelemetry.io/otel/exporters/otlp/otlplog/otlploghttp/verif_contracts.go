//go:build verif

// Contracts for package otlploghttp (property C14). Comment-only file (build tag verif). Checked by /verif/bin/govc.
// The same contract text is used for the three OTLP/HTTP clients (trace, metric, log).

package otlploghttp

//@ props C14

// An error is retried exactly when it is a retryableError; the throttle delay is the Retry-After header value, which is in seconds.
//@ func evaluate(err error) (ok bool, d time.Duration)
//@   overflow assumed
//@   ensures ok == typeis(err, "retryableError")
//@   ensures !ok ==> d == 0
//@   ensures ok && 0 <= cast(err, "retryableError").throttle && cast(err, "retryableError").throttle <= 9223372036 ==> d == cast(err, "retryableError").throttle * 1000000000
//@   known KF-C14-retry-after-ns-otlploghttp when typeis(err, "retryableError") && cast(err, "retryableError").throttle != 0

// newRequest: the request's body factory is, on every path, the result of bodyReader(...) - a closure that opens a NEW reader
// over an immutable byte slice for every attempt, so that a retry re-sends the identical payload (a shared, drainable buffer
// would leave retries with an empty body)
//@ ghost var brCalls int
//@ func (c *httpClient) newRequest(ctx context.Context, body []byte) (req request, err error)
//@   prop C14
//@   overflow assumed
//@   unchecked frame,no-panic net/http, gzip and the pool are outside the contracts
//@   modifies ghost brCalls
//@   ghost@entry : brCalls = 0
//@   assert@call bodyReader#1 : $arg0 === body
//@   ghost@call bodyReader#* : brCalls = brCalls + 1
//@   assert@store bodyReader#* : brCalls == 1

// the per-attempt closure: a retryable error (newResponseError) is produced for exactly two outcomes - a temporary transport error,
// or a response with status 429, 502, 503 or 504; every other status is reported as a plain, non-retryable error whatever its headers
//@ func (c *httpClient) uploadLogs$1(iCtx context.Context) (err error)
//@   prop C14
//@   overflow assumed
//@   unchecked frame,no-panic net/http, protobuf and io are outside the contracts
//@   assert@call newResponseError#2+ : resp != nil && (resp.StatusCode == 429 || resp.StatusCode == 502 || resp.StatusCode == 503 || resp.StatusCode == 504)

// ======================================================================== C20 configuration resolvers of the log exporter
// getenv: an explicitly set value is never replaced by the environment; when the resolver gives up (result unset) it has read
// EVERY key of its list - an unparsable value under an earlier (more specific) key does not hide a valid value under a later one;
// the input setting is returned untouched in that case. conv is the captured conversion function: every call of getenv in
// this package passes a declared function (convEndpoint, convPath, ...), the precondition on it is not checked at those calls
//@ ghost var envReads int
//@ func getenv$1(s setting[$N]) (r setting[$N])
//@   prop C20
//@   instances string; bool; time.Duration
//@   overflow assumed
//@   unchecked frame error handler and the conversion function are outside the contracts
//@   requires conv != nil
//@   modifies ghost envReads
//@   ghost@entry : envReads = 0
//@   ghost@call Getenv#* : envReads = envReads + 1
//@   loop#1 invariant envReads == $k && s == old(s)
//@   ensures old(s.Set) ==> r == old(s)
//@   ensures !old(s.Set) && !r.Set ==> r == old(s) && envReads == len(keys)
//@ func fallback$1(s setting[$N]) (r setting[$N])
//@   prop C20
//@   instances string; bool; time.Duration
//@   ensures !s.Set ==> r.Set && r.Value == val
//@   ensures s.Set ==> r == s
//@   modifies

// ======================================================================== C20 programmatic options of the log exporter
// an option, once applied, leaves ITS setting set to exactly the value passed - whatever that value is (an empty header map, a zero
// timeout and an empty string are values too: the environment must not take over) - and touches no other setting
//@ func WithEndpoint$1(c config) (r config)
//@   prop C20
//@   overflow assumed
//@   ensures r.endpoint.Set && r.endpoint.Value == endpoint
//@   ensures r.path == c.path && r.insecure == c.insecure && r.compression == c.compression && r.timeout == c.timeout && r.headers == c.headers
//@ func WithCompression$1(c config) (r config)
//@   prop C20
//@   overflow assumed
//@   ensures r.compression.Set && r.compression.Value == compression
//@   ensures r.endpoint == c.endpoint && r.path == c.path && r.insecure == c.insecure && r.timeout == c.timeout && r.headers == c.headers
//@ func WithURLPath$1(c config) (r config)
//@   prop C20
//@   overflow assumed
//@   ensures r.path.Set && r.path.Value == urlPath
//@   ensures r.endpoint == c.endpoint && r.insecure == c.insecure && r.compression == c.compression && r.timeout == c.timeout && r.headers == c.headers
//@ func WithInsecure$1(c config) (r config)
//@   prop C20
//@   overflow assumed
//@   ensures r.insecure.Set && r.insecure.Value == true
//@   ensures r.endpoint == c.endpoint && r.path == c.path && r.compression == c.compression && r.timeout == c.timeout && r.headers == c.headers
//@ func WithHeaders$1(c config) (r config)
//@   prop C20
//@   overflow assumed
//@   ensures r.headers.Set && r.headers.Value == headers
//@   ensures r.endpoint == c.endpoint && r.path == c.path && r.insecure == c.insecure && r.compression == c.compression && r.timeout == c.timeout
//@ func WithTimeout$1(c config) (r config)
//@   prop C20
//@   overflow assumed
//@   ensures r.timeout.Set && r.timeout.Value == duration
//@   ensures r.endpoint == c.endpoint && r.path == c.path && r.insecure == c.insecure && r.compression == c.compression && r.headers == c.headers
