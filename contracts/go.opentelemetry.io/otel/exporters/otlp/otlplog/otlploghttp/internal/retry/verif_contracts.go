//go:build verif

// Contracts for package retry (property C14). Comment-only file (build tag verif). Checked by /verif/bin/govc.
// Generated from /verif/templates/retry.contract: the six copies of this package carry the same contract text.

package retry

//@ props C14

// Retry loop: success or a non-retryable error is returned at once and unchanged; the wait is the greater of the
// throttle and the backoff delay; the loop gives up when the time budget is (or would be) exceeded - measured on the
// clock *after* the failed attempt (since(t) is the time elapsed since t on a ghost monotone clock that every attempt advances).
//@ func (c Config) RequestFunc$2(ctx context.Context, fn func(context.Context) error) (r error)
//@   overflow assumed
//@   requires fn != nil && evaluate != nil
//@   assert@return#1 : err == nil && $ret0 == nil
//@   assert@return#2 : err != nil && !retryable && $ret0 == err
//@   assert@return#3 : retryable && maxElapsedTime != 0 && since(startTime) > maxElapsedTime && $ret0 != nil
//@   assert@return#4 : retryable && maxElapsedTime != 0 && since(startTime) + throttle > maxElapsedTime && $ret0 != nil
//@   assert@return#5 : retryable && $ret0 != nil
//@   assert@call waitFunc#1 : retryable && $arg1 == delay && delay >= throttle && delay >= bOff && (maxElapsedTime == 0 || since(startTime) + throttle <= maxElapsedTime)

// retry disabled: exactly one attempt, its result is returned
//@ func (c Config) RequestFunc$1(ctx context.Context, fn func(context.Context) error) (r error)
//@   requires fn != nil
//@   assert@call fn#1 : true

// wait: the timer is set to exactly the delay asked for; nil (go on, retry) is returned only when the timer has fired - by the
// outer select (case 1) or, when the context finished at the same moment, by the inner one (case 0); in every other case the
// answer is the context's error ($sel: the case chosen by the most recent select, -1 = default)
//@ func wait(ctx context.Context, delay time.Duration) (err error)
//@   overflow assumed
//@   unchecked frame,no-panic timers and contexts
//@   requires ctx != nil
//@   assert@call NewTimer#1 : $arg0 == delay
//@   assert@return#1 : $sel == -1
//@   assert@return#2 : ($sel == 0 || $sel == 1) && $ret0 == nil
