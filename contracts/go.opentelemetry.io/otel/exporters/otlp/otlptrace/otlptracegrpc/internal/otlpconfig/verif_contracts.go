//go:build verif

// Contracts for the OTLP exporter configuration package (generated copy; the same contract text is bound to every copy).
// Comment-only file (build tag verif). Checked by /verif/bin/govc.

package otlpconfig

//@ props C20

// WithEnvCompression: whenever the variable is set (non-empty) the callback is called exactly once - with gzip for "gzip" and
// with NO compression for every other value. The second half is what lets a signal-specific "none" override a generic "gzip".
//@ ghost var confCalls int
//@ func WithEnvCompression$1(e *envconfig.EnvOptionsReader)
//@   overflow assumed
//@   unchecked frame the callback is an unknown function value
//@   requires e != nil && fn != nil && e.GetEnv != nil
//@   modifies ghost confCalls
//@   ghost@entry : confCalls = 0
//@   assert@call fn#* : ok && $arg0 == ite(v == "gzip", GzipCompression, NoCompression)
//@   ghost@call fn#* : confCalls = confCalls + 1
//@   assert@return#* : confCalls == ite(ok, 1, 0)
