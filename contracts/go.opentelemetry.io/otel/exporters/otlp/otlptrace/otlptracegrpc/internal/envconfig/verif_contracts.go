//go:build verif

// Contracts for the OTLP exporter environment reader (generated copy; the same contract text is bound to every copy).
// Comment-only file (build tag verif). Checked by /verif/bin/govc.

package envconfig

//@ props C20

// GetEnvValue: the trimmed value of NAMESPACE_key; present iff non-empty after trimming
//@ func (e *EnvOptionsReader) GetEnvValue(key string) (v string, ok bool)
//@   requires e != nil && e.GetEnv != nil
//@   ensures ok == (v != "")
//@   unchecked frame the environment accessor is an unknown function value

// the typed readers: nothing is passed on for an unset or unparsable variable (no panic either); a set one is passed on exactly once
//@ ghost var envCalls int
//@ func WithString$1(e *EnvOptionsReader)
//@   overflow assumed
//@   unchecked frame the callback is an unknown function value
//@   requires e != nil && fn != nil && e.GetEnv != nil
//@   modifies ghost envCalls
//@   ghost@entry : envCalls = 0
//@   assert@call fn#* : ok && $arg0 == v
//@   ghost@call fn#* : envCalls = envCalls + 1
//@   assert@return#* : envCalls == ite(ok, 1, 0)
//@ func WithBool$1(e *EnvOptionsReader)
//@   overflow assumed
//@   unchecked frame the callback is an unknown function value
//@   requires e != nil && fn != nil && e.GetEnv != nil
//@   modifies ghost envCalls
//@   ghost@entry : envCalls = 0
//@   assert@call fn#* : ok
//@   ghost@call fn#* : envCalls = envCalls + 1
//@   assert@return#* : envCalls == ite(ok, 1, 0)
//@ func WithDuration$1(e *EnvOptionsReader)
//@   overflow assumed
//@   unchecked frame the callback is an unknown function value; logging
//@   requires e != nil && fn != nil && e.GetEnv != nil
//@   modifies ghost envCalls
//@   ghost@entry : envCalls = 0
//@   assert@call fn#* : ok && err == nil && $arg0 == d * 1000000
//@   ghost@call fn#* : envCalls = envCalls + 1
//@   assert@return#* : envCalls <= 1 && (!ok ==> envCalls == 0)
