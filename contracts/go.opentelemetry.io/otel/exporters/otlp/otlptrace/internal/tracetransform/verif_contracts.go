//go:build verif

// Contracts for package tracetransform (property C13). Comment-only file (build tag verif). Checked by /verif/bin/govc.

package tracetransform

//@ props C13

// counts are clamped to the protobuf uint32 range, never wrapped
//@ spec clamp32(v int) int = ite(v < 0, 0, ite(v > 4294967295, 4294967295, v))
//@ func clampUint32(v int) (r uint32)
//@   ensures r == clamp32(v)

//@ func status(status codes.Code, message string) (r *tracepb.Status)
//@   ensures r != nil && fresh(r) && r.Message == message
//@   ensures r.Code == ite(status == codes.Ok, tracepb.Status_STATUS_CODE_OK, ite(status == codes.Error, tracepb.Status_STATUS_CODE_ERROR, tracepb.Status_STATUS_CODE_UNSET))

//@ func spanKind(kind trace.SpanKind) (r tracepb.Span_SpanKind)
//@   ensures kind == trace.SpanKindInternal ==> r == tracepb.Span_SPAN_KIND_INTERNAL
//@   ensures kind == trace.SpanKindClient ==> r == tracepb.Span_SPAN_KIND_CLIENT
//@   ensures kind == trace.SpanKindServer ==> r == tracepb.Span_SPAN_KIND_SERVER
//@   ensures kind == trace.SpanKindProducer ==> r == tracepb.Span_SPAN_KIND_PRODUCER
//@   ensures kind == trace.SpanKindConsumer ==> r == tracepb.Span_SPAN_KIND_CONSUMER
//@   ensures kind < trace.SpanKindInternal || kind > trace.SpanKindConsumer ==> r == tracepb.Span_SPAN_KIND_UNSPECIFIED

// flags: "has is-remote" bit always, "is remote" bit iff the parent context is remote
//@ func buildSpanFlags(sc trace.SpanContext) (r uint32)
//@   ensures r == ite(sc.remote, 768, 256)

// every scalar field of the protobuf span equals the corresponding accessor of the SDK span
//@ func span(sd tracesdk.ReadOnlySpan) (s *tracepb.Span)
//@   ensures sd == nil ==> s == nil
//@   ensures sd != nil ==> s != nil && fresh(s)
//@   ensures sd != nil ==> s.Name == sd.Name() && s.Kind == spanKind(sd.SpanKind())
//@   ensures sd != nil ==> len(s.TraceId) == 16 && (forall i in 0 .. 16 : s.TraceId[i] == sd.SpanContext().traceID[i])
//@   ensures sd != nil ==> len(s.SpanId) == 8 && (forall i in 0 .. 8 : s.SpanId[i] == sd.SpanContext().spanID[i])
//@   ensures sd != nil ==> s.DroppedAttributesCount == clamp32(sd.DroppedAttributes()) && s.DroppedEventsCount == clamp32(sd.DroppedEvents()) && s.DroppedLinksCount == clamp32(sd.DroppedLinks())
//@   ensures sd != nil ==> s.StartTimeUnixNano == max(0, sd.StartTime().UnixNano()) && s.EndTimeUnixNano == max(0, sd.EndTime().UnixNano())
//@   ensures sd != nil ==> s.Flags == ite(sd.Parent().remote, 768, 256)
//@   ensures sd != nil && !sd.Parent().spanID.IsValid() ==> len(s.ParentSpanId) == 0
//@   ensures sd != nil && sd.Parent().spanID.IsValid() ==> len(s.ParentSpanId) == 8 && (forall i in 0 .. 8 : s.ParentSpanId[i] == sd.Parent().spanID[i])
//@   ensures sd != nil ==> s.Status != nil && s.Status.Message == sd.Status().Description

// grouping: every span is filed under the (resource identity, full instrumentation scope - name, version, schema URL and
// attributes) of that very span, and converted exactly once
//@ func Spans(sdl []tracesdk.ReadOnlySpan) (rss []*tracepb.ResourceSpans)
//@   unchecked no-panic,frame map-of-pointer values loaded inside the loop need a quantified invariant over a function-local key type
//@   ensures len(sdl) == 0 ==> len(rss) == 0
//@   assert@call span#1 : sd != nil && $arg0 == sd && k.r == rKey && k.is == sd.InstrumentationScope()
//@   assert@call InstrumentationScope#3 : !iOk

// ======================================================================== C13 attributes: the eight value kinds
// slice helpers: same length, element i is a fresh AnyValue of the matching oneof kind holding exactly vals[i]
//@ func boolSliceValues(vals []bool) (converted []*commonpb.AnyValue)
//@   prop C13
//@   overflow assumed
//@   unchecked frame fresh protobuf messages are written
//@   ensures len(converted) == len(vals)
//@   assert@store elem#* : $val != nil && typeis($val.Value, "*commonpb.AnyValue_BoolValue") && cast($val.Value, "*commonpb.AnyValue_BoolValue").BoolValue == vals[i] && 0 <= i && i < len(vals)
//@   loop#1 invariant len(converted) == len(vals) && fresh(converted) && 0 <= i && i <= len(vals)
//@ func int64SliceValues(vals []int64) (converted []*commonpb.AnyValue)
//@   prop C13
//@   overflow assumed
//@   unchecked frame fresh protobuf messages are written
//@   ensures len(converted) == len(vals)
//@   assert@store elem#* : $val != nil && typeis($val.Value, "*commonpb.AnyValue_IntValue") && cast($val.Value, "*commonpb.AnyValue_IntValue").IntValue == vals[i] && 0 <= i && i < len(vals)
//@   loop#1 invariant len(converted) == len(vals) && fresh(converted) && 0 <= i && i <= len(vals)
//@ func float64SliceValues(vals []float64) (converted []*commonpb.AnyValue)
//@   prop C13
//@   overflow assumed
//@   unchecked frame fresh protobuf messages are written
//@   ensures len(converted) == len(vals)
//@   assert@store elem#* : $val != nil && typeis($val.Value, "*commonpb.AnyValue_DoubleValue") && cast($val.Value, "*commonpb.AnyValue_DoubleValue").DoubleValue === vals[i] && 0 <= i && i < len(vals)
//@   loop#1 invariant len(converted) == len(vals) && fresh(converted) && 0 <= i && i <= len(vals)
//@ func stringSliceValues(vals []string) (converted []*commonpb.AnyValue)
//@   prop C13
//@   overflow assumed
//@   unchecked frame fresh protobuf messages are written
//@   ensures len(converted) == len(vals)
//@   assert@store elem#* : $val != nil && typeis($val.Value, "*commonpb.AnyValue_StringValue") && cast($val.Value, "*commonpb.AnyValue_StringValue").StringValue == vals[i] && 0 <= i && i < len(vals)
//@   loop#1 invariant len(converted) == len(vals) && fresh(converted) && 0 <= i && i <= len(vals)

// Value: the oneof kind follows the attribute's type; scalars carry exactly the attribute's value; anything else is the string "INVALID"
//@ func Value(v attribute.Value) (av *commonpb.AnyValue)
//@   prop C13
//@   overflow assumed
//@   unchecked frame,no-panic fresh protobuf messages are written; slice values are unpacked through reflection (attribute/internal)
//@   ensures av != nil
//@   ensures v.vtype == attribute.BOOL ==> typeis(av.Value, "*commonpb.AnyValue_BoolValue") && cast(av.Value, "*commonpb.AnyValue_BoolValue").BoolValue == v.AsBool()
//@   ensures v.vtype == attribute.INT64 ==> typeis(av.Value, "*commonpb.AnyValue_IntValue") && cast(av.Value, "*commonpb.AnyValue_IntValue").IntValue == v.AsInt64()
//@   ensures v.vtype == attribute.FLOAT64 ==> typeis(av.Value, "*commonpb.AnyValue_DoubleValue") && cast(av.Value, "*commonpb.AnyValue_DoubleValue").DoubleValue === v.AsFloat64()
//@   ensures v.vtype == attribute.STRING ==> typeis(av.Value, "*commonpb.AnyValue_StringValue") && cast(av.Value, "*commonpb.AnyValue_StringValue").StringValue == v.AsString()
//@   ensures v.vtype == attribute.BOOLSLICE || v.vtype == attribute.INT64SLICE || v.vtype == attribute.FLOAT64SLICE || v.vtype == attribute.STRINGSLICE ==> typeis(av.Value, "*commonpb.AnyValue_ArrayValue")
//@   ensures v.vtype == attribute.INVALID ==> typeis(av.Value, "*commonpb.AnyValue_StringValue") && cast(av.Value, "*commonpb.AnyValue_StringValue").StringValue == "INVALID"
//@   assert@call boolSliceValues#1 : v.vtype == attribute.BOOLSLICE
//@   assert@call int64SliceValues#1 : v.vtype == attribute.INT64SLICE
//@   assert@call float64SliceValues#1 : v.vtype == attribute.FLOAT64SLICE
//@   assert@call stringSliceValues#1 : v.vtype == attribute.STRINGSLICE

// KeyValue / KeyValues: key copied, value converted by Value; the list keeps length and order
//@ func KeyValue(kv attribute.KeyValue) (r *commonpb.KeyValue)
//@   prop C13
//@   overflow assumed
//@   unchecked frame,no-panic fresh protobuf messages are written
//@   ensures r != nil && r.Key == kv.Key && r.Value != nil
//@   assert@call Value#1 : $arg0 == kv.Value
//@ func KeyValues(attrs []attribute.KeyValue) (out []*commonpb.KeyValue)
//@   prop C13
//@   overflow assumed
//@   unchecked frame fresh protobuf messages are written
//@   ensures len(out) == len(attrs)
//@   assert@call KeyValue#* : $arg0 == attrs[$k]
//@   loop#1 invariant len(out) == $k && $k <= len(attrs) && cap(out) == len(attrs)

// links: one message per link, in order; every message owns its own trace-ID and span-ID bytes - no two links share a backing
// array (arrid = allocation identity; an array allocated once outside the loop and re-filled would be shared by all links)
//@ func links(links []tracesdk.Link) (sl []*tracepb.Span_Link)
//@   prop C13
//@   overflow assumed
//@   unchecked frame fresh protobuf messages are written
//@   ensures len(sl) == len(links)
//@   ensures forall j in 0 .. len(sl) : forall l in 0 .. j : arrid(sl[j].TraceId) != arrid(sl[l].TraceId) && arrid(sl[j].SpanId) != arrid(sl[l].SpanId)
//@   loop#1 invariant len(sl) == $k && cap(sl) == len(links) && $k <= len(links)
//@   loop#1 invariant forall j in 0 .. len(sl) : sl[j] != nil && ptrid(sl[j]) <= $wm && arrid(sl[j].TraceId) <= $wm && arrid(sl[j].SpanId) <= $wm && arrid(sl[j].TraceId) > 0 && arrid(sl[j].SpanId) > 0
//@   loop#1 invariant forall j in 0 .. len(sl) : forall l in 0 .. j : arrid(sl[j].TraceId) != arrid(sl[l].TraceId) && arrid(sl[j].SpanId) != arrid(sl[l].SpanId)

// spanEvents: one message per event, in order; name, time (clamped at 0) and dropped count copied; the input is only read
//@ func spanEvents(es []tracesdk.Event) (events []*tracepb.Span_Event)
//@   prop C13
//@   overflow assumed
//@   unchecked frame fresh protobuf messages are written
//@   modifies
//@   ensures len(events) == len(es)
//@   assert@store elem#* : $val != nil && $val.Name == es[i].Name && $val.TimeUnixNano == max(0, es[i].Time.UnixNano()) && $val.DroppedAttributesCount == clamp32(es[i].DroppedAttributeCount) && 0 <= i && i < len(es)
//@   assert@call KeyValues#* : $arg0 === es[i].Attributes
//@   loop#1 invariant 0 <= i && i <= len(es) && len(events) == len(es) && fresh(events)

// instrumentation scope: absent only for the completely empty scope - a scope that has nothing but attributes is still a scope and
// keeps them; otherwise name and version are copied and the attributes converted from the scope's own set
//@ func InstrumentationScope(il instrumentation.Scope) (r *commonpb.InstrumentationScope)
//@   prop C13
//@   overflow assumed
//@   unchecked frame,no-panic fresh protobuf messages are written; the attribute iterator reads reflect-built storage
//@   ensures r == nil ==> il.Name == "" && il.Version == "" && il.SchemaURL == "" && il.Attributes.equivalent.iface == nil
//@   ensures r != nil ==> r.Name == il.Name && r.Version == il.Version
//@   assert@call Set.Iter#1 : $arg0.equivalent == il.Attributes.equivalent
//@ func Resource(r *resource.Resource) (out *resourcepb.Resource)
//@   prop C13
//@   overflow assumed
//@   unchecked frame,no-panic fresh protobuf messages are written
//@   assert@call ResourceAttributes#1 : $arg0 == r && r != nil
