//go:build verif

// Contracts for package tracetransform (property C13). Comment-only file (build tag verif). Checked by /verif/bin/govc.

package tracetransform

//@ props C13

// counts are clamped to the protobuf uint32 range, never wrapped
//@ spec clamp32(v int) int = ite(v < 0, 0, ite(v > 4294967295, 4294967295, v))
//@ func clampUint32(v int) (r uint32)
//@   ensures r == clamp32(v)

//@ func status(status codes.Code, message string) (r *tracepb.Status)
//@   ensures r != nil && fresh(r) && r.Message == message
//@   ensures r.Code == ite(status == codes.Ok, tracepb.Status_STATUS_CODE_OK, ite(status == codes.Error, tracepb.Status_STATUS_CODE_ERROR, tracepb.Status_STATUS_CODE_UNSET))

//@ func spanKind(kind trace.SpanKind) (r tracepb.Span_SpanKind)
//@   ensures kind == trace.SpanKindInternal ==> r == tracepb.Span_SPAN_KIND_INTERNAL
//@   ensures kind == trace.SpanKindClient ==> r == tracepb.Span_SPAN_KIND_CLIENT
//@   ensures kind == trace.SpanKindServer ==> r == tracepb.Span_SPAN_KIND_SERVER
//@   ensures kind == trace.SpanKindProducer ==> r == tracepb.Span_SPAN_KIND_PRODUCER
//@   ensures kind == trace.SpanKindConsumer ==> r == tracepb.Span_SPAN_KIND_CONSUMER
//@   ensures kind < trace.SpanKindInternal || kind > trace.SpanKindConsumer ==> r == tracepb.Span_SPAN_KIND_UNSPECIFIED

// flags: "has is-remote" bit always, "is remote" bit iff the parent context is remote
//@ func buildSpanFlags(sc trace.SpanContext) (r uint32)
//@   ensures r == ite(sc.remote, 768, 256)

// every scalar field of the protobuf span equals the corresponding accessor of the SDK span
//@ func span(sd tracesdk.ReadOnlySpan) (s *tracepb.Span)
//@   ensures sd == nil ==> s == nil
//@   ensures sd != nil ==> s != nil && fresh(s)
//@   ensures sd != nil ==> s.Name == sd.Name() && s.Kind == spanKind(sd.SpanKind())
//@   ensures sd != nil ==> len(s.TraceId) == 16 && (forall i in 0 .. 16 : s.TraceId[i] == sd.SpanContext().traceID[i])
//@   ensures sd != nil ==> len(s.SpanId) == 8 && (forall i in 0 .. 8 : s.SpanId[i] == sd.SpanContext().spanID[i])
//@   ensures sd != nil ==> s.DroppedAttributesCount == clamp32(sd.DroppedAttributes()) && s.DroppedEventsCount == clamp32(sd.DroppedEvents()) && s.DroppedLinksCount == clamp32(sd.DroppedLinks())
//@   ensures sd != nil ==> s.StartTimeUnixNano == max(0, sd.StartTime().UnixNano()) && s.EndTimeUnixNano == max(0, sd.EndTime().UnixNano())
//@   ensures sd != nil ==> s.Flags == ite(sd.Parent().remote, 768, 256)
//@   ensures sd != nil && !sd.Parent().spanID.IsValid() ==> len(s.ParentSpanId) == 0
//@   ensures sd != nil && sd.Parent().spanID.IsValid() ==> len(s.ParentSpanId) == 8 && (forall i in 0 .. 8 : s.ParentSpanId[i] == sd.Parent().spanID[i])
//@   ensures sd != nil ==> s.Status != nil && s.Status.Message == sd.Status().Description

// grouping: every span is filed under the (resource identity, full instrumentation scope - name, version, schema URL and
// attributes) of that very span, and converted exactly once
//@ func Spans(sdl []tracesdk.ReadOnlySpan) (rss []*tracepb.ResourceSpans)
//@   unchecked no-panic,frame map-of-pointer values loaded inside the loop need a quantified invariant over a function-local key type
//@   ensures len(sdl) == 0 ==> len(rss) == 0
//@   assert@call span#1 : sd != nil && $arg0 == sd && k.r == rKey && k.is == sd.InstrumentationScope()
//@   assert@call InstrumentationScope#3 : !iOk
