//go:build verif

// Contracts for package otlptracehttp (property C14). Comment-only file (build tag verif). Checked by /verif/bin/govc.
// The same contract text is used for the three OTLP/HTTP clients (trace, metric, log).

package otlptracehttp

//@ props C14

// An error is retried exactly when it is a retryableError; the throttle delay is the Retry-After header value, which is in seconds.
//@ func evaluate(err error) (ok bool, d time.Duration)
//@   overflow assumed
//@   ensures ok == typeis(err, "retryableError")
//@   ensures !ok ==> d == 0
//@   ensures ok && 0 <= cast(err, "retryableError").throttle && cast(err, "retryableError").throttle <= 9223372036 ==> d == cast(err, "retryableError").throttle * 1000000000
//@   known KF-C14-retry-after-ns-otlptracehttp when typeis(err, "retryableError") && cast(err, "retryableError").throttle != 0

// newRequest: the request's body factory is, on every path, the result of bodyReader(...) - a closure that opens a NEW reader
// over an immutable byte slice for every attempt, so that a retry re-sends the identical payload (a shared, drainable buffer
// would leave retries with an empty body)
//@ ghost var brCalls int
//@ func (d *client) newRequest(body []byte) (req request, err error)
//@   prop C14
//@   overflow assumed
//@   unchecked frame,no-panic net/http, gzip and the pool are outside the contracts
//@   modifies ghost brCalls
//@   ghost@entry : brCalls = 0
//@   assert@call bodyReader#1 : $arg0 === body
//@   ghost@call bodyReader#* : brCalls = brCalls + 1
//@   assert@store bodyReader#* : brCalls == 1
//@   loop#1 invariant brCalls == 0

// the per-attempt closure: a retryable error (newResponseError) is produced for exactly two outcomes - a temporary transport error
// (call #1), or a response with status 429, 502, 503 or 504; every other status is reported as a plain, non-retryable error
// whatever its headers
//@ func (d *client) UploadTraces$1(ctx context.Context) (err error)
//@   prop C14
//@   overflow assumed
//@   unchecked frame,no-panic net/http, protobuf and io are outside the contracts
//@   assert@call newResponseError#2+ : resp != nil && (resp.StatusCode == 429 || resp.StatusCode == 502 || resp.StatusCode == 503 || resp.StatusCode == 504)

// Stop: EVERY call - also one made with a context that is already done - goes through stopOnce.Do, which closes stopCh and so
// cancels every export that is waiting to retry (contextWithStop); the context's state only decides the error reported. The
// once-body does nothing but close that channel.
//@ ghost var stopOnceCalls int
//@ func (d *client) Stop(ctx context.Context) (err error)
//@   prop C14
//@   unchecked frame,no-panic channel close inside the sync.Once body
//@   requires d != nil && ctx != nil
//@   modifies ghost stopOnceCalls
//@   ghost@entry : stopOnceCalls = 0
//@   ghost@call Once.Do#* : stopOnceCalls = stopOnceCalls + 1
//@   assert@return#* : stopOnceCalls == 1
//@ func (d *client) Stop$1()
//@   prop C14
//@   unchecked frame,no-panic channel close
//@   assert@call close#1 : $arg0 == d.stopCh
