//go:build verif

// Contracts for the OTLP/gRPC client (property C14). Comment-only file (build tag verif). Checked by /verif/bin/govc.
// Generated from /verif/templates/grpcclient.contract: the three gRPC clients carry the same contract text.

package otlpmetricgrpc

//@ props C14

// gRPC status accessors live in google.golang.org/grpc (external): deterministic functions of the status (assumed).
//@ extern google.golang.org/grpc/internal/status Status.Code() (c codes.Code)
//@   pure
//@   trusted "accessor of google.golang.org/grpc/status (external library)"

// first RetryInfo detail of the status, if any (protobuf Any decoding is external)
// "carries retry info" means: a RetryInfo detail is PRESENT (whatever delay it asks for, zero included); without one: (false, 0)
//@ ghost var riSeen int
//@ func throttleDelay(s *status.Status) (ok bool, d time.Duration)
//@   pure
//@   unchecked frame,no-panic walks protobuf status details (external library types); used by callers as a deterministic function of the status
//@   assert@return#1 : $ret0
//@   assert@return#2 : !$ret0 && $ret1 == 0
// the first RetryInfo detail ends the search, whatever delay it carries (zero included): once its delay has been read
// (ghost riSeen) the function returns with ok - it never goes on to report "no retry info"
//@   modifies ghost riSeen
//@   ghost@entry : riSeen = 0
//@   ghost@call Duration.AsDuration#* : riSeen = 1
//@   assert@return#1 : riSeen == 1
//@   assert@return#2 : riSeen == 0
//@   loop#1 invariant riSeen == 0

// Exactly the documented retryable codes are retried; ResourceExhausted only when the server sent RetryInfo.
//@ func retryableGRPCStatus(s *status.Status) (ok bool, d time.Duration)
//@   modifies ghost riSeen
//@   ensures (s.Code() == codes.Canceled || s.Code() == codes.DeadlineExceeded || s.Code() == codes.Aborted || s.Code() == codes.OutOfRange || s.Code() == codes.Unavailable || s.Code() == codes.DataLoss) ==> ok && d == snd(throttleDelay(s))
//@   ensures s.Code() == codes.ResourceExhausted ==> ok == fst(throttleDelay(s)) && d == snd(throttleDelay(s))
//@   ensures !(s.Code() == codes.Canceled || s.Code() == codes.DeadlineExceeded || s.Code() == codes.Aborted || s.Code() == codes.OutOfRange || s.Code() == codes.Unavailable || s.Code() == codes.DataLoss || s.Code() == codes.ResourceExhausted) ==> !ok && d == 0

// exportContext: the context an export runs under is derived from the caller's context with the export timeout (or a plain cancel
// when no timeout is configured), and the outgoing metadata is attached to THAT derived context - so headers never cost the deadline
//@ func (c *client) exportContext(parent context.Context) (ctx context.Context, cancel context.CancelFunc)
//@   overflow assumed
//@   unchecked frame,no-panic context and gRPC metadata packages; the trace client also spawns the stop-context watcher
//@   requires c != nil
//@   assert@call WithTimeout#1 : $arg0 == parent && $arg1 == c.exportTimeout && c.exportTimeout > 0
//@   assert@call WithCancel#1 : $arg0 == parent && c.exportTimeout <= 0
//@   assert@call NewOutgoingContext#1 : $arg0 == ctx && $arg1 === md
//@   assert@call FromOutgoingContext#1 : $arg0 == ctx
