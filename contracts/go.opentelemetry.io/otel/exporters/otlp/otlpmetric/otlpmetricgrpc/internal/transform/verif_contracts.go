//go:build verif

// Contracts for package transform of the OTLP metric exporters (property C13). Comment-only file (build tag verif).
// Generated from /verif/templates/metrictransform.contract: the HTTP and gRPC copies carry the same contract text,
// so both produce the same payload for the same metric data.

package transform

//@ props C13

//@ func timeUnixNano(t time.Time) (r uint64)
//@   ensures r == max(0, t.UnixNano())

// temporality: delta and cumulative map onto their OTLP counterparts; anything else is an error (never silently another value)
//@ func Temporality(t metricdata.Temporality) (r mpb.AggregationTemporality, err error)
//@   unchecked no-panic fmt.Errorf
//@   ensures t == metricdata.DeltaTemporality ==> r == mpb.AggregationTemporality_AGGREGATION_TEMPORALITY_DELTA && err == nil
//@   ensures t == metricdata.CumulativeTemporality ==> r == mpb.AggregationTemporality_AGGREGATION_TEMPORALITY_CUMULATIVE && err == nil
//@   ensures t != metricdata.DeltaTemporality && t != metricdata.CumulativeTemporality ==> r == mpb.AggregationTemporality_AGGREGATION_TEMPORALITY_UNSPECIFIED && err != nil

// exponential buckets: offset and the very count slice of the SDK bucket
//@ func ExponentialHistogramDataPointBuckets(bucket metricdata.ExponentialBucket) (r *mpb.ExponentialHistogramDataPoint_Buckets)
//@   ensures r != nil && fresh(r) && r.Offset == bucket.Offset && r.BucketCounts === bucket.Counts

// quantiles: one message per quantile value, in order, both numbers copied bit for bit
//@ func QuantileValues(quantiles []metricdata.QuantileValue) (out []*mpb.SummaryDataPoint_ValueAtQuantile)
//@   overflow assumed
//@   unchecked frame fresh protobuf messages are written
//@   modifies
//@   ensures len(out) == len(quantiles)
//@   assert@store Quantile#* : $val === quantiles[$k].Quantile
//@   assert@store Value#* : $val === quantiles[$k].Value
//@   loop#1 invariant len(out) == $k && $k <= len(quantiles) && cap(out) == len(quantiles)

// summary points: one message per point, in order; times clamped at 0, count and sum copied, quantiles converted from the point's own
//@ func SummaryDataPoints(dPts []metricdata.SummaryDataPoint) (out []*mpb.SummaryDataPoint)
//@   overflow assumed
//@   unchecked frame fresh protobuf messages are written
//@   modifies
//@   ensures len(out) == len(dPts)
//@   assert@store StartTimeUnixNano#* : $val == max(0, dPts[$k].StartTime.UnixNano())
//@   assert@store TimeUnixNano#* : $val == max(0, dPts[$k].Time.UnixNano())
//@   assert@store Count#* : $val == dPts[$k].Count
//@   assert@store Sum#* : $val === dPts[$k].Sum
//@   assert@call QuantileValues#* : $arg0 === dPts[$k].QuantileValues
//@   assert@call Set.Iter#* : $arg0.equivalent == dPts[$k].Attributes.equivalent
//@   loop#1 invariant len(out) == $k && $k <= len(dPts) && cap(out) == len(dPts)

// exemplars: one message per exemplar, in order; time clamped at 0, trace and span ID slices handed over as they are, the value
// under the oneof member of the exemplar's own number type
//@ func Exemplars(exemplars []metricdata.Exemplar[$N]) (out []*mpb.Exemplar)
//@   instances int64; float64
//@   overflow assumed
//@   unchecked frame fresh protobuf messages are written
//@   modifies
//@   ensures len(out) == len(exemplars)
//@   assert@store TimeUnixNano#* : $val == max(0, exemplars[$k].Time.UnixNano())
//@   assert@store SpanId#* : $val === exemplars[$k].SpanID
//@   assert@store TraceId#* : $val === exemplars[$k].TraceID
//@   assert@call KeyValues#* : $arg0 === exemplars[$k].FilteredAttributes
//@   @int64 assert@store AsInt#* : $val == exemplars[$k].Value
//@   @float64 assert@store AsDouble#* : $val === exemplars[$k].Value
//@   loop#1 invariant len(out) == $k && $k <= len(exemplars) && cap(out) == len(exemplars)

// number data points: one message per point, in order; times clamped at 0; the value under the oneof member of the point's own
// number type; exemplars converted from the point's own list
//@ func DataPoints(dPts []metricdata.DataPoint[$N]) (out []*mpb.NumberDataPoint)
//@   instances int64; float64
//@   overflow assumed
//@   unchecked frame fresh protobuf messages are written
//@   modifies
//@   ensures len(out) == len(dPts)
//@   assert@store StartTimeUnixNano#* : $val == max(0, dPts[$k].StartTime.UnixNano())
//@   assert@store TimeUnixNano#* : $val == max(0, dPts[$k].Time.UnixNano())
//@   assert@call Exemplars#* : $arg0 === dPts[$k].Exemplars
//@   assert@call Set.Iter#* : $arg0.equivalent == dPts[$k].Attributes.equivalent
//@   @int64 assert@store AsInt#* : $val == dPts[$k].Value
//@   @float64 assert@store AsDouble#* : $val === dPts[$k].Value
//@   loop#1 invariant len(out) == $k && $k <= len(dPts) && cap(out) == len(dPts)

// histogram points: count, bucket counts and bounds are the point's own (the very slices), sum converted to float64, min and max
// present exactly when the SDK point has them
//@ func HistogramDataPoints(dPts []metricdata.HistogramDataPoint[$N]) (out []*mpb.HistogramDataPoint)
//@   instances int64; float64
//@   overflow assumed
//@   unchecked frame fresh protobuf messages are written
//@   modifies
//@   ensures len(out) == len(dPts)
//@   assert@store StartTimeUnixNano#* : $val == max(0, dPts[$k].StartTime.UnixNano())
//@   assert@store TimeUnixNano#* : $val == max(0, dPts[$k].Time.UnixNano())
//@   assert@store Count#* : $val == dPts[$k].Count
//@   assert@store BucketCounts#* : $val === dPts[$k].BucketCounts
//@   assert@store ExplicitBounds#* : $val === dPts[$k].Bounds
//@   assert@store Sum#* : *$val === float64(dPts[$k].Sum)
//@   assert@store Min#* : dPts[$k].Min.valid && *$val === float64(dPts[$k].Min.value)
//@   assert@store Max#* : dPts[$k].Max.valid && *$val === float64(dPts[$k].Max.value)
//@   assert@call Exemplars#* : $arg0 === dPts[$k].Exemplars
//@   assert@call Set.Iter#* : $arg0.equivalent == dPts[$k].Attributes.equivalent
//@   loop#1 invariant len(out) == $k && $k <= len(dPts) && cap(out) == len(dPts)

// exponential histogram points: count, scale, zero count are the point's own; the positive side is converted from the positive
// bucket and the negative side from the negative bucket
//@ func ExponentialHistogramDataPoints(dPts []metricdata.ExponentialHistogramDataPoint[$N]) (out []*mpb.ExponentialHistogramDataPoint)
//@   instances int64; float64
//@   overflow assumed
//@   unchecked frame fresh protobuf messages are written
//@   modifies
//@   ensures len(out) == len(dPts)
//@   assert@store StartTimeUnixNano#* : $val == max(0, dPts[$k].StartTime.UnixNano())
//@   assert@store TimeUnixNano#* : $val == max(0, dPts[$k].Time.UnixNano())
//@   assert@store Count#* : $val == dPts[$k].Count
//@   assert@store Scale#* : $val == dPts[$k].Scale
//@   assert@store ZeroCount#* : $val == dPts[$k].ZeroCount
//@   assert@store Sum#* : *$val === float64(dPts[$k].Sum)
//@   assert@store Min#* : dPts[$k].Min.valid && *$val === float64(dPts[$k].Min.value)
//@   assert@store Max#* : dPts[$k].Max.valid && *$val === float64(dPts[$k].Max.value)
//@   assert@store Positive#* : $val != nil && $val.Offset == dPts[$k].PositiveBucket.Offset && $val.BucketCounts === dPts[$k].PositiveBucket.Counts
//@   assert@store Negative#* : $val != nil && $val.Offset == dPts[$k].NegativeBucket.Offset && $val.BucketCounts === dPts[$k].NegativeBucket.Counts
//@   assert@call Exemplars#* : $arg0 === dPts[$k].Exemplars
//@   assert@call Set.Iter#* : $arg0.equivalent == dPts[$k].Attributes.equivalent
//@   loop#1 invariant len(out) == $k && $k <= len(dPts) && cap(out) == len(dPts)

// aggregations: the points are converted from the aggregation's own point list; temporality goes through Temporality (an unknown
// one is an error and yields no message); monotonicity is copied
//@ func Gauge(g metricdata.Gauge[$N]) (r *mpb.Metric_Gauge)
//@   instances int64; float64
//@   overflow assumed
//@   unchecked frame fresh protobuf messages are written
//@   ensures r != nil && r.Gauge != nil
//@   assert@call DataPoints#1 : $arg0 === g.DataPoints
//@ func Sum(s metricdata.Sum[$N]) (r *mpb.Metric_Sum, err error)
//@   instances int64; float64
//@   overflow assumed
//@   unchecked frame fresh protobuf messages are written
//@   ensures err == nil ==> r != nil && r.Sum != nil && r.Sum.IsMonotonic == s.IsMonotonic
//@   ensures s.Temporality == metricdata.DeltaTemporality ==> err == nil && r.Sum.AggregationTemporality == mpb.AggregationTemporality_AGGREGATION_TEMPORALITY_DELTA
//@   ensures s.Temporality == metricdata.CumulativeTemporality ==> err == nil && r.Sum.AggregationTemporality == mpb.AggregationTemporality_AGGREGATION_TEMPORALITY_CUMULATIVE
//@   ensures s.Temporality != metricdata.DeltaTemporality && s.Temporality != metricdata.CumulativeTemporality ==> err != nil && r == nil
//@   assert@call Temporality#1 : $arg0 == s.Temporality
//@   assert@call DataPoints#1 : $arg0 === s.DataPoints
//@ func Histogram(h metricdata.Histogram[$N]) (r *mpb.Metric_Histogram, err error)
//@   instances int64; float64
//@   overflow assumed
//@   unchecked frame fresh protobuf messages are written
//@   ensures err == nil ==> r != nil && r.Histogram != nil
//@   ensures h.Temporality == metricdata.DeltaTemporality ==> err == nil && r.Histogram.AggregationTemporality == mpb.AggregationTemporality_AGGREGATION_TEMPORALITY_DELTA
//@   ensures h.Temporality == metricdata.CumulativeTemporality ==> err == nil && r.Histogram.AggregationTemporality == mpb.AggregationTemporality_AGGREGATION_TEMPORALITY_CUMULATIVE
//@   ensures h.Temporality != metricdata.DeltaTemporality && h.Temporality != metricdata.CumulativeTemporality ==> err != nil && r == nil
//@   assert@call Temporality#1 : $arg0 == h.Temporality
//@   assert@call HistogramDataPoints#1 : $arg0 === h.DataPoints
//@ func ExponentialHistogram(h metricdata.ExponentialHistogram[$N]) (r *mpb.Metric_ExponentialHistogram, err error)
//@   instances int64; float64
//@   overflow assumed
//@   unchecked frame fresh protobuf messages are written
//@   ensures err == nil ==> r != nil && r.ExponentialHistogram != nil
//@   ensures h.Temporality == metricdata.DeltaTemporality ==> err == nil && r.ExponentialHistogram.AggregationTemporality == mpb.AggregationTemporality_AGGREGATION_TEMPORALITY_DELTA
//@   ensures h.Temporality == metricdata.CumulativeTemporality ==> err == nil && r.ExponentialHistogram.AggregationTemporality == mpb.AggregationTemporality_AGGREGATION_TEMPORALITY_CUMULATIVE
//@   ensures h.Temporality != metricdata.DeltaTemporality && h.Temporality != metricdata.CumulativeTemporality ==> err != nil && r == nil
//@   assert@call Temporality#1 : $arg0 == h.Temporality
//@   assert@call ExponentialHistogramDataPoints#1 : $arg0 === h.DataPoints
//@ func Summary(s metricdata.Summary) (r *mpb.Metric_Summary)
//@   overflow assumed
//@   unchecked frame fresh protobuf messages are written
//@   ensures r != nil && r.Summary != nil
//@   assert@call SummaryDataPoints#1 : $arg0 === s.DataPoints

// one metric: name, description and unit copied; the data goes to the converter of its own aggregation and number type; an
// unknown aggregation is an error
//@ func metric(m metricdata.Metrics) (out *mpb.Metric, err error)
//@   overflow assumed
//@   unchecked frame,no-panic fresh protobuf messages are written; fmt.Errorf
//@   ensures out != nil && out.Name == m.Name && out.Description == m.Description && out.Unit == m.Unit
//@   assert@call Gauge[int64]#1 : typeis(m.Data, "metricdata.Gauge[int64]") && $arg0 === cast(m.Data, "metricdata.Gauge[int64]")
//@   assert@call Gauge[float64]#1 : typeis(m.Data, "metricdata.Gauge[float64]") && $arg0 === cast(m.Data, "metricdata.Gauge[float64]")
//@   assert@call Sum[int64]#1 : typeis(m.Data, "metricdata.Sum[int64]") && $arg0 === cast(m.Data, "metricdata.Sum[int64]")
//@   assert@call Sum[float64]#1 : typeis(m.Data, "metricdata.Sum[float64]") && $arg0 === cast(m.Data, "metricdata.Sum[float64]")
//@   assert@call Histogram[int64]#1 : typeis(m.Data, "metricdata.Histogram[int64]") && $arg0 === cast(m.Data, "metricdata.Histogram[int64]")
//@   assert@call Histogram[float64]#1 : typeis(m.Data, "metricdata.Histogram[float64]") && $arg0 === cast(m.Data, "metricdata.Histogram[float64]")
//@   assert@call ExponentialHistogram[int64]#1 : typeis(m.Data, "metricdata.ExponentialHistogram[int64]") && $arg0 === cast(m.Data, "metricdata.ExponentialHistogram[int64]")
//@   assert@call ExponentialHistogram[float64]#1 : typeis(m.Data, "metricdata.ExponentialHistogram[float64]") && $arg0 === cast(m.Data, "metricdata.ExponentialHistogram[float64]")
//@   assert@call Summary#1 : typeis(m.Data, "metricdata.Summary") && $arg0 === cast(m.Data, "metricdata.Summary")

// lists: every metric is converted once, in order; a metric that fails to convert is dropped and reported, the others are kept
//@ func Metrics(ms []metricdata.Metrics) (out []*mpb.Metric, err error)
//@   overflow assumed
//@   unchecked frame,no-panic fresh protobuf messages are written; error list
//@   ensures len(out) <= len(ms)
//@   assert@call metric#* : $arg0 === ms[$k]
//@   loop#1 invariant len(out) <= $k && $k <= len(ms) && cap(out) == len(ms)
//@ func ScopeMetrics(sms []metricdata.ScopeMetrics) (out []*mpb.ScopeMetrics, err error)
//@   overflow assumed
//@   unchecked frame,no-panic fresh protobuf messages are written; error list
//@   ensures len(out) == len(sms)
//@   assert@call Metrics#* : $arg0 === sms[$k].Metrics
//@   assert@store Name#* : $val == sms[$k].Scope.Name
//@   assert@store Version#* : $val == sms[$k].Scope.Version
//@   assert@store SchemaUrl#* : $val == sms[$k].Scope.SchemaURL
//@   assert@store Metrics#* : $val === ms
//@   assert@call Set.Iter#* : $arg0.equivalent == sms[$k].Scope.Attributes.equivalent
//@   loop#1 invariant len(out) == $k && $k <= len(sms) && cap(out) == len(sms)
//@ func ResourceMetrics(rm *metricdata.ResourceMetrics) (out *mpb.ResourceMetrics, err error)
//@   overflow assumed
//@   unchecked frame,no-panic fresh protobuf messages are written; resource accessors are another module
//@   requires rm != nil
//@   ensures out != nil
//@   assert@store ScopeMetrics#1 : $val === sms
//@   assert@store SchemaUrl#1 : $val == rm.Resource.SchemaURL()
//@   assert@call ScopeMetrics#1 : $arg0 === rm.ScopeMetrics

// ======================================================================== C13 attributes: the eight value kinds
// slice helpers: same length, element i is a fresh AnyValue of the matching oneof kind holding exactly vals[i]
//@ func boolSliceValues(vals []bool) (converted []*cpb.AnyValue)
//@   prop C13
//@   overflow assumed
//@   unchecked frame fresh protobuf messages are written
//@   ensures len(converted) == len(vals)
//@   assert@store elem#* : $val != nil && typeis($val.Value, "*cpb.AnyValue_BoolValue") && cast($val.Value, "*cpb.AnyValue_BoolValue").BoolValue == vals[i] && 0 <= i && i < len(vals)
//@   loop#1 invariant len(converted) == len(vals) && fresh(converted) && 0 <= i && i <= len(vals)
//@ func int64SliceValues(vals []int64) (converted []*cpb.AnyValue)
//@   prop C13
//@   overflow assumed
//@   unchecked frame fresh protobuf messages are written
//@   ensures len(converted) == len(vals)
//@   assert@store elem#* : $val != nil && typeis($val.Value, "*cpb.AnyValue_IntValue") && cast($val.Value, "*cpb.AnyValue_IntValue").IntValue == vals[i] && 0 <= i && i < len(vals)
//@   loop#1 invariant len(converted) == len(vals) && fresh(converted) && 0 <= i && i <= len(vals)
//@ func float64SliceValues(vals []float64) (converted []*cpb.AnyValue)
//@   prop C13
//@   overflow assumed
//@   unchecked frame fresh protobuf messages are written
//@   ensures len(converted) == len(vals)
//@   assert@store elem#* : $val != nil && typeis($val.Value, "*cpb.AnyValue_DoubleValue") && cast($val.Value, "*cpb.AnyValue_DoubleValue").DoubleValue === vals[i] && 0 <= i && i < len(vals)
//@   loop#1 invariant len(converted) == len(vals) && fresh(converted) && 0 <= i && i <= len(vals)
//@ func stringSliceValues(vals []string) (converted []*cpb.AnyValue)
//@   prop C13
//@   overflow assumed
//@   unchecked frame fresh protobuf messages are written
//@   ensures len(converted) == len(vals)
//@   assert@store elem#* : $val != nil && typeis($val.Value, "*cpb.AnyValue_StringValue") && cast($val.Value, "*cpb.AnyValue_StringValue").StringValue == vals[i] && 0 <= i && i < len(vals)
//@   loop#1 invariant len(converted) == len(vals) && fresh(converted) && 0 <= i && i <= len(vals)

// Value: the oneof kind follows the attribute's type; scalars carry exactly the attribute's value; anything else is the string "INVALID"
//@ func Value(v attribute.Value) (av *cpb.AnyValue)
//@   prop C13
//@   overflow assumed
//@   unchecked frame,no-panic fresh protobuf messages are written; slice values are unpacked through reflection (attribute/internal)
//@   ensures av != nil
//@   ensures v.vtype == attribute.BOOL ==> typeis(av.Value, "*cpb.AnyValue_BoolValue") && cast(av.Value, "*cpb.AnyValue_BoolValue").BoolValue == v.AsBool()
//@   ensures v.vtype == attribute.INT64 ==> typeis(av.Value, "*cpb.AnyValue_IntValue") && cast(av.Value, "*cpb.AnyValue_IntValue").IntValue == v.AsInt64()
//@   ensures v.vtype == attribute.FLOAT64 ==> typeis(av.Value, "*cpb.AnyValue_DoubleValue") && cast(av.Value, "*cpb.AnyValue_DoubleValue").DoubleValue === v.AsFloat64()
//@   ensures v.vtype == attribute.STRING ==> typeis(av.Value, "*cpb.AnyValue_StringValue") && cast(av.Value, "*cpb.AnyValue_StringValue").StringValue == v.AsString()
//@   ensures v.vtype == attribute.BOOLSLICE || v.vtype == attribute.INT64SLICE || v.vtype == attribute.FLOAT64SLICE || v.vtype == attribute.STRINGSLICE ==> typeis(av.Value, "*cpb.AnyValue_ArrayValue")
//@   ensures v.vtype == attribute.INVALID ==> typeis(av.Value, "*cpb.AnyValue_StringValue") && cast(av.Value, "*cpb.AnyValue_StringValue").StringValue == "INVALID"
//@   assert@call boolSliceValues#1 : v.vtype == attribute.BOOLSLICE
//@   assert@call int64SliceValues#1 : v.vtype == attribute.INT64SLICE
//@   assert@call float64SliceValues#1 : v.vtype == attribute.FLOAT64SLICE
//@   assert@call stringSliceValues#1 : v.vtype == attribute.STRINGSLICE

// KeyValue / KeyValues: key copied, value converted by Value; the list keeps length and order
//@ func KeyValue(kv attribute.KeyValue) (r *cpb.KeyValue)
//@   prop C13
//@   overflow assumed
//@   unchecked frame,no-panic fresh protobuf messages are written
//@   ensures r != nil && r.Key == kv.Key && r.Value != nil
//@   assert@call Value#1 : $arg0 == kv.Value
//@ func KeyValues(attrs []attribute.KeyValue) (out []*cpb.KeyValue)
//@   prop C13
//@   overflow assumed
//@   unchecked frame fresh protobuf messages are written
//@   ensures len(out) == len(attrs)
//@   assert@call KeyValue#* : $arg0 == attrs[$k]
//@   loop#1 invariant len(out) == $k && $k <= len(attrs) && cap(out) == len(attrs)

// AttrIter: one key-value per attribute the iterator yields, in iteration order, each converted by KeyValue
//@ func AttrIter(iter attribute.Iterator) (out []*cpb.KeyValue)
//@   prop C13
//@   overflow assumed
//@   unchecked frame,no-panic fresh protobuf messages are written; the iterator reads reflect-built storage
//@   requires iter.storage != nil && iter.idx >= -1 && iter.idx <= setLen(iter.storage.equivalent)
//@   loop#1 invariant iter.storage != nil && iter.idx >= -1 && iter.idx <= setLen(iter.storage.equivalent)
//@   assert@call KeyValue#* : $arg0 == iter.Attribute()
