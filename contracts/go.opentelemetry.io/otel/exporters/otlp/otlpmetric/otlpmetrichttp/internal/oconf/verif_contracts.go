//go:build verif

// Contracts for the OTLP exporter configuration package (generated copy; the same contract text is bound to every copy).
// Comment-only file (build tag verif). Checked by /verif/bin/govc.

package oconf

//@ props C20

// WithEnvCompression: whenever the variable is set (non-empty) the callback is called exactly once - with gzip for "gzip" and
// with NO compression for every other value. The second half is what lets a signal-specific "none" override a generic "gzip".
//@ ghost var confCalls int
//@ func WithEnvCompression$1(e *envconfig.EnvOptionsReader)
//@   overflow assumed
//@   unchecked frame the callback is an unknown function value
//@   requires e != nil && fn != nil && e.GetEnv != nil
//@   modifies ghost confCalls
//@   ghost@entry : confCalls = 0
//@   assert@call fn#* : ok && $arg0 == ite(v == "gzip", GzipCompression, NoCompression)
//@   ghost@call fn#* : confCalls = confCalls + 1
//@   assert@return#* : confCalls == ite(ok, 1, 0)

// reader order in getOptionsFromEnv: for every setting the generic OTEL_EXPORTER_OTLP_* key is read BEFORE the signal-specific one;
// the options collected are applied in that order and the last one wins, so the signal-specific variable overrides the generic one
//@ func getOptionsFromEnv() (opts []GenericOption)
//@   prop C20
//@   overflow assumed
//@   unchecked frame,no-panic TLS material, URL parsing and the option closures are outside the contracts
//@   assert@call WithURL#1 : $arg0 == "ENDPOINT"
//@   assert@call WithURL#2 : $arg0 == "METRICS_ENDPOINT"
//@   assert@call WithBool#1 : $arg0 == "INSECURE"
//@   assert@call WithBool#2 : $arg0 == "METRICS_INSECURE"
//@   assert@call WithHeaders#1 : $arg0 == "HEADERS"
//@   assert@call WithHeaders#2 : $arg0 == "METRICS_HEADERS"
//@   assert@call WithEnvCompression#1 : $arg0 == "COMPRESSION"
//@   assert@call WithEnvCompression#2 : $arg0 == "METRICS_COMPRESSION"
//@   assert@call WithDuration#1 : $arg0 == "TIMEOUT"
//@   assert@call WithDuration#2 : $arg0 == "METRICS_TIMEOUT"
// each compression / timeout / headers callback appends the option made from exactly the value it was given
