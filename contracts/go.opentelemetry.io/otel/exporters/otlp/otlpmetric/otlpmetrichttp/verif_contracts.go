//go:build verif

// Contracts for package otlpmetrichttp (property C14). Comment-only file (build tag verif). Checked by /verif/bin/govc.
// The same contract text is used for the three OTLP/HTTP clients (trace, metric, log).

package otlpmetrichttp

//@ props C14

// An error is retried exactly when it is a retryableError; the throttle delay is the Retry-After header value, which is in seconds.
//@ func evaluate(err error) (ok bool, d time.Duration)
//@   overflow assumed
//@   ensures ok == typeis(err, "retryableError")
//@   ensures !ok ==> d == 0
//@   ensures ok && 0 <= cast(err, "retryableError").throttle && cast(err, "retryableError").throttle <= 9223372036 ==> d == cast(err, "retryableError").throttle * 1000000000
//@   known KF-C14-retry-after-ns-otlpmetrichttp when typeis(err, "retryableError") && cast(err, "retryableError").throttle != 0
