//go:build verif

// Contracts for package internal/global. Comment-only file (build tag verif). Checked by /verif/bin/govc.

package global

// Logging goes through go-logr (external): no caller-visible effect is assumed.
//@ func Info(msg string, keysAndValues []interface{})
//@   prop -
//@   trusted "logging through go-logr (external library): assumed to return without caller-visible writes"
//@ func Error(err error, msg string, keysAndValues []interface{})
//@   prop -
//@   trusted "logging through go-logr (external library): assumed to return without caller-visible writes"
//@ func Debug(msg string, keysAndValues []interface{})
//@   prop -
//@   trusted "logging through go-logr (external library): assumed to return without caller-visible writes"
//@ func Warn(msg string, keysAndValues []interface{})
//@   prop -
//@   trusted "logging through go-logr (external library): assumed to return without caller-visible writes"

// ======================================================================== C16 global providers: locking
// lock order: provider before meter before registration. A consistent order exists iff no function acquires a lower lock
// while holding a higher one - checked at every Lock(), at every call of a function whose contract declares `acquires`,
// and at every call through a function-typed field with a declared lock footprint.
//@ locklevel meterProvider.mtx < meter.mtx < registration.unregMu

// the unregister closure installed by RegisterCallback takes the meter's lock
//@ funcfield registration.unreg acquires meter.mtx

//@ func (m *meter) RegisterCallback$1() (err error)
//@   prop C16
//@   acquires meter.mtx
//@   unchecked frame,no-panic container/list plumbing

//@ guarded_by meter.mtx: instruments, delegate
// once a delegate is installed nothing is left waiting for delegation in the instrument map
//@ lockinv meter.mtx: self.delegate != nil ==> self.instruments == nil

//@ func (m *meter) RegisterCallback(f metric.Callback, insts []metric.Observable) (r metric.Registration, err error)
//@   prop C16
//@   acquires m.mtx
//@   unchecked frame,no-panic container/list plumbing and third-party SDK calls
//@   requires m != nil

//@ func (c *registration) setDelegate(m metric.Meter)
//@   prop C16
//@   acquires c.unregMu
//@   unchecked frame,no-panic third-party SDK calls
//@   assert@call RegisterCallback#1 : c.unreg != nil

//@ func (c *registration) Unregister() (err error)
//@   prop C16
//@   acquires c.unregMu
//@   unchecked frame
//@   requires c != nil
//@   ensures c.unreg == nil

//@ func (m *meter) setDelegate(provider metric.MeterProvider)
//@   prop C16
//@   acquires m.mtx
//@   unchecked frame,no-panic container/list plumbing, instrument delegation through interfaces
//@   requires provider != nil
//@   assert@call registration.setDelegate#1 : holds(m.mtx)

//@ func (p *meterProvider) setDelegate(provider metric.MeterProvider)
//@   prop C16
//@   acquires p.mtx
//@   unchecked frame,no-panic
//@   requires p != nil && provider != nil

// instrument constructors: delegate and instruments are read and written under the meter lock only; an instrument
// created before installation is in the instruments map (to be connected by setDelegate, under the same lock), one
// created afterwards comes from the delegate.
// instrument constructors: while no delegate is installed the placeholder is filed in m.instruments under an identity whose kind
// IS the reflect type of the placeholder stored (so two instrument kinds with the same name/description/unit never share an entry,
// and setDelegate, which walks that map, reaches every placeholder handed out); with a delegate the call is forwarded unchanged
//@ func (m *meter) Int64Counter(name string, options []metric.Int64CounterOption) (r metric.Int64Counter, err error)
//@   prop C16
//@   acquires m.mtx
//@   unchecked frame,no-panic third-party SDK calls, reflect
//@   requires m != nil
//@   assert@call mapupdate#* : holds(m.mtx) && m.delegate == nil && $arg0 == m.instruments && $arg1.name == name && $arg1.kind == reflect.TypeOf($arg2) && typeis($arg2, "*siCounter") && cast($arg2, "*siCounter").name == name && cast($arg2, "*siCounter").opts === options
//@   assert@call Int64Counter#1 : holds(m.mtx) && $arg1 == name && $arg2 === options
//@ func (m *meter) Int64UpDownCounter(name string, options []metric.Int64UpDownCounterOption) (r metric.Int64UpDownCounter, err error)
//@   prop C16
//@   acquires m.mtx
//@   unchecked frame,no-panic third-party SDK calls, reflect
//@   requires m != nil
//@   assert@call mapupdate#* : holds(m.mtx) && m.delegate == nil && $arg0 == m.instruments && $arg1.name == name && $arg1.kind == reflect.TypeOf($arg2) && typeis($arg2, "*siUpDownCounter") && cast($arg2, "*siUpDownCounter").name == name && cast($arg2, "*siUpDownCounter").opts === options
//@   assert@call Int64UpDownCounter#1 : holds(m.mtx) && $arg1 == name && $arg2 === options
//@ func (m *meter) Int64Histogram(name string, options []metric.Int64HistogramOption) (r metric.Int64Histogram, err error)
//@   prop C16
//@   acquires m.mtx
//@   unchecked frame,no-panic third-party SDK calls, reflect
//@   requires m != nil
//@   assert@call mapupdate#* : holds(m.mtx) && m.delegate == nil && $arg0 == m.instruments && $arg1.name == name && $arg1.kind == reflect.TypeOf($arg2) && typeis($arg2, "*siHistogram") && cast($arg2, "*siHistogram").name == name && cast($arg2, "*siHistogram").opts === options
//@   assert@call Int64Histogram#1 : holds(m.mtx) && $arg1 == name && $arg2 === options
//@ func (m *meter) Int64Gauge(name string, options []metric.Int64GaugeOption) (r metric.Int64Gauge, err error)
//@   prop C16
//@   acquires m.mtx
//@   unchecked frame,no-panic third-party SDK calls, reflect
//@   requires m != nil
//@   assert@call mapupdate#* : holds(m.mtx) && m.delegate == nil && $arg0 == m.instruments && $arg1.name == name && $arg1.kind == reflect.TypeOf($arg2) && typeis($arg2, "*siGauge") && cast($arg2, "*siGauge").name == name && cast($arg2, "*siGauge").opts === options
//@   assert@call Int64Gauge#1 : holds(m.mtx) && $arg1 == name && $arg2 === options
//@ func (m *meter) Int64ObservableCounter(name string, options []metric.Int64ObservableCounterOption) (r metric.Int64ObservableCounter, err error)
//@   prop C16
//@   acquires m.mtx
//@   unchecked frame,no-panic third-party SDK calls, reflect
//@   requires m != nil
//@   assert@call mapupdate#* : holds(m.mtx) && m.delegate == nil && $arg0 == m.instruments && $arg1.name == name && $arg1.kind == reflect.TypeOf($arg2) && typeis($arg2, "*aiCounter") && cast($arg2, "*aiCounter").name == name && cast($arg2, "*aiCounter").opts === options
//@   assert@call Int64ObservableCounter#1 : holds(m.mtx) && $arg1 == name && $arg2 === options
//@ func (m *meter) Int64ObservableUpDownCounter(name string, options []metric.Int64ObservableUpDownCounterOption) (r metric.Int64ObservableUpDownCounter, err error)
//@   prop C16
//@   acquires m.mtx
//@   unchecked frame,no-panic third-party SDK calls, reflect
//@   requires m != nil
//@   assert@call mapupdate#* : holds(m.mtx) && m.delegate == nil && $arg0 == m.instruments && $arg1.name == name && $arg1.kind == reflect.TypeOf($arg2) && typeis($arg2, "*aiUpDownCounter") && cast($arg2, "*aiUpDownCounter").name == name && cast($arg2, "*aiUpDownCounter").opts === options
//@   assert@call Int64ObservableUpDownCounter#1 : holds(m.mtx) && $arg1 == name && $arg2 === options
//@ func (m *meter) Int64ObservableGauge(name string, options []metric.Int64ObservableGaugeOption) (r metric.Int64ObservableGauge, err error)
//@   prop C16
//@   acquires m.mtx
//@   unchecked frame,no-panic third-party SDK calls, reflect
//@   requires m != nil
//@   assert@call mapupdate#* : holds(m.mtx) && m.delegate == nil && $arg0 == m.instruments && $arg1.name == name && $arg1.kind == reflect.TypeOf($arg2) && typeis($arg2, "*aiGauge") && cast($arg2, "*aiGauge").name == name && cast($arg2, "*aiGauge").opts === options
//@   assert@call Int64ObservableGauge#1 : holds(m.mtx) && $arg1 == name && $arg2 === options
//@ func (m *meter) Float64Counter(name string, options []metric.Float64CounterOption) (r metric.Float64Counter, err error)
//@   prop C16
//@   acquires m.mtx
//@   unchecked frame,no-panic third-party SDK calls, reflect
//@   requires m != nil
//@   assert@call mapupdate#* : holds(m.mtx) && m.delegate == nil && $arg0 == m.instruments && $arg1.name == name && $arg1.kind == reflect.TypeOf($arg2) && typeis($arg2, "*sfCounter") && cast($arg2, "*sfCounter").name == name && cast($arg2, "*sfCounter").opts === options
//@   assert@call Float64Counter#1 : holds(m.mtx) && $arg1 == name && $arg2 === options
//@ func (m *meter) Float64UpDownCounter(name string, options []metric.Float64UpDownCounterOption) (r metric.Float64UpDownCounter, err error)
//@   prop C16
//@   acquires m.mtx
//@   unchecked frame,no-panic third-party SDK calls, reflect
//@   requires m != nil
//@   assert@call mapupdate#* : holds(m.mtx) && m.delegate == nil && $arg0 == m.instruments && $arg1.name == name && $arg1.kind == reflect.TypeOf($arg2) && typeis($arg2, "*sfUpDownCounter") && cast($arg2, "*sfUpDownCounter").name == name && cast($arg2, "*sfUpDownCounter").opts === options
//@   assert@call Float64UpDownCounter#1 : holds(m.mtx) && $arg1 == name && $arg2 === options
//@ func (m *meter) Float64Histogram(name string, options []metric.Float64HistogramOption) (r metric.Float64Histogram, err error)
//@   prop C16
//@   acquires m.mtx
//@   unchecked frame,no-panic third-party SDK calls, reflect
//@   requires m != nil
//@   assert@call mapupdate#* : holds(m.mtx) && m.delegate == nil && $arg0 == m.instruments && $arg1.name == name && $arg1.kind == reflect.TypeOf($arg2) && typeis($arg2, "*sfHistogram") && cast($arg2, "*sfHistogram").name == name && cast($arg2, "*sfHistogram").opts === options
//@   assert@call Float64Histogram#1 : holds(m.mtx) && $arg1 == name && $arg2 === options
//@ func (m *meter) Float64Gauge(name string, options []metric.Float64GaugeOption) (r metric.Float64Gauge, err error)
//@   prop C16
//@   acquires m.mtx
//@   unchecked frame,no-panic third-party SDK calls, reflect
//@   requires m != nil
//@   assert@call mapupdate#* : holds(m.mtx) && m.delegate == nil && $arg0 == m.instruments && $arg1.name == name && $arg1.kind == reflect.TypeOf($arg2) && typeis($arg2, "*sfGauge") && cast($arg2, "*sfGauge").name == name && cast($arg2, "*sfGauge").opts === options
//@   assert@call Float64Gauge#1 : holds(m.mtx) && $arg1 == name && $arg2 === options
//@ func (m *meter) Float64ObservableCounter(name string, options []metric.Float64ObservableCounterOption) (r metric.Float64ObservableCounter, err error)
//@   prop C16
//@   acquires m.mtx
//@   unchecked frame,no-panic third-party SDK calls, reflect
//@   requires m != nil
//@   assert@call mapupdate#* : holds(m.mtx) && m.delegate == nil && $arg0 == m.instruments && $arg1.name == name && $arg1.kind == reflect.TypeOf($arg2) && typeis($arg2, "*afCounter") && cast($arg2, "*afCounter").name == name && cast($arg2, "*afCounter").opts === options
//@   assert@call Float64ObservableCounter#1 : holds(m.mtx) && $arg1 == name && $arg2 === options
//@ func (m *meter) Float64ObservableUpDownCounter(name string, options []metric.Float64ObservableUpDownCounterOption) (r metric.Float64ObservableUpDownCounter, err error)
//@   prop C16
//@   acquires m.mtx
//@   unchecked frame,no-panic third-party SDK calls, reflect
//@   requires m != nil
//@   assert@call mapupdate#* : holds(m.mtx) && m.delegate == nil && $arg0 == m.instruments && $arg1.name == name && $arg1.kind == reflect.TypeOf($arg2) && typeis($arg2, "*afUpDownCounter") && cast($arg2, "*afUpDownCounter").name == name && cast($arg2, "*afUpDownCounter").opts === options
//@   assert@call Float64ObservableUpDownCounter#1 : holds(m.mtx) && $arg1 == name && $arg2 === options
//@ func (m *meter) Float64ObservableGauge(name string, options []metric.Float64ObservableGaugeOption) (r metric.Float64ObservableGauge, err error)
//@   prop C16
//@   acquires m.mtx
//@   unchecked frame,no-panic third-party SDK calls, reflect
//@   requires m != nil
//@   assert@call mapupdate#* : holds(m.mtx) && m.delegate == nil && $arg0 == m.instruments && $arg1.name == name && $arg1.kind == reflect.TypeOf($arg2) && typeis($arg2, "*afGauge") && cast($arg2, "*afGauge").name == name && cast($arg2, "*afGauge").opts === options
//@   assert@call Float64ObservableGauge#1 : holds(m.mtx) && $arg1 == name && $arg2 === options

//@ guarded_by meterProvider.mtx: meters, delegate
//@ lockinv meterProvider.mtx: self.delegate != nil ==> len(self.meters) == 0
//@ func (p *meterProvider) Meter(name string, opts []metric.MeterOption) (r metric.Meter)
//@   prop C16
//@   acquires p.mtx
//@   unchecked frame,no-panic third-party SDK calls
//@   requires p != nil

//@ guarded_by tracerProvider.mtx: tracers, delegate
//@ lockinv tracerProvider.mtx: self.delegate != nil ==> len(self.tracers) == 0
//@ func (p *tracerProvider) Tracer(name string, opts []trace.TracerOption) (r trace.Tracer)
//@   prop C16
//@   acquires p.mtx
//@   unchecked frame,no-panic third-party SDK calls
//@   requires p != nil
//@ func (p *tracerProvider) setDelegate(provider trace.TracerProvider)
//@   prop C16
//@   acquires p.mtx
//@   unchecked frame,no-panic third-party SDK calls
//@   requires p != nil && provider != nil
//@ func (t *tracer) setDelegate(provider trace.TracerProvider)
//@   prop C16
//@   unchecked frame,no-panic third-party SDK calls

// ======================================================================== C16 placeholder instruments (instruments.go)
// setDelegate: the SDK instrument is created with the placeholder's own name and options, and exactly that instrument is published
// as the delegate (nothing is published when the SDK refuses); a measurement made through the placeholder is forwarded unchanged -
// same value, same options - to the delegate that was loaded
//@ func (i *siCounter) setDelegate(m metric.Meter)
//@   prop C16
//@   overflow assumed
//@   unchecked frame,no-panic third-party SDK calls, error handler
//@   requires i != nil && m != nil
//@   assert@call Int64Counter#1 : $arg0 == m && $arg1 == i.name && $arg2 === i.opts
//@   assert@call Store#* : $arg1 == ctr && err == nil
//@ func (i *siCounter) Add(ctx context.Context, x int64, opts []metric.AddOption)
//@   prop C16
//@   overflow assumed
//@   unchecked frame,no-panic third-party SDK calls
//@   requires i != nil
//@   assert@call Add#1 : $arg0 == ctr && $arg2 === x && $arg3 === opts
//@ func (i *siUpDownCounter) setDelegate(m metric.Meter)
//@   prop C16
//@   overflow assumed
//@   unchecked frame,no-panic third-party SDK calls, error handler
//@   requires i != nil && m != nil
//@   assert@call Int64UpDownCounter#1 : $arg0 == m && $arg1 == i.name && $arg2 === i.opts
//@   assert@call Store#* : $arg1 == ctr && err == nil
//@ func (i *siUpDownCounter) Add(ctx context.Context, x int64, opts []metric.AddOption)
//@   prop C16
//@   overflow assumed
//@   unchecked frame,no-panic third-party SDK calls
//@   requires i != nil
//@   assert@call Add#1 : $arg0 == ctr && $arg2 === x && $arg3 === opts
//@ func (i *siHistogram) setDelegate(m metric.Meter)
//@   prop C16
//@   overflow assumed
//@   unchecked frame,no-panic third-party SDK calls, error handler
//@   requires i != nil && m != nil
//@   assert@call Int64Histogram#1 : $arg0 == m && $arg1 == i.name && $arg2 === i.opts
//@   assert@call Store#* : $arg1 == ctr && err == nil
//@ func (i *siHistogram) Record(ctx context.Context, x int64, opts []metric.RecordOption)
//@   prop C16
//@   overflow assumed
//@   unchecked frame,no-panic third-party SDK calls
//@   requires i != nil
//@   assert@call Record#1 : $arg0 == ctr && $arg2 === x && $arg3 === opts
//@ func (i *siGauge) setDelegate(m metric.Meter)
//@   prop C16
//@   overflow assumed
//@   unchecked frame,no-panic third-party SDK calls, error handler
//@   requires i != nil && m != nil
//@   assert@call Int64Gauge#1 : $arg0 == m && $arg1 == i.name && $arg2 === i.opts
//@   assert@call Store#* : $arg1 == ctr && err == nil
//@ func (i *siGauge) Record(ctx context.Context, x int64, opts []metric.RecordOption)
//@   prop C16
//@   overflow assumed
//@   unchecked frame,no-panic third-party SDK calls
//@   requires i != nil
//@   assert@call Record#1 : $arg0 == ctr && $arg2 === x && $arg3 === opts
//@ func (i *aiCounter) setDelegate(m metric.Meter)
//@   prop C16
//@   overflow assumed
//@   unchecked frame,no-panic third-party SDK calls, error handler
//@   requires i != nil && m != nil
//@   assert@call Int64ObservableCounter#1 : $arg0 == m && $arg1 == i.name && $arg2 === i.opts
//@   assert@call Store#* : $arg1 == ctr && err == nil
//@ func (i *aiUpDownCounter) setDelegate(m metric.Meter)
//@   prop C16
//@   overflow assumed
//@   unchecked frame,no-panic third-party SDK calls, error handler
//@   requires i != nil && m != nil
//@   assert@call Int64ObservableUpDownCounter#1 : $arg0 == m && $arg1 == i.name && $arg2 === i.opts
//@   assert@call Store#* : $arg1 == ctr && err == nil
//@ func (i *aiGauge) setDelegate(m metric.Meter)
//@   prop C16
//@   overflow assumed
//@   unchecked frame,no-panic third-party SDK calls, error handler
//@   requires i != nil && m != nil
//@   assert@call Int64ObservableGauge#1 : $arg0 == m && $arg1 == i.name && $arg2 === i.opts
//@   assert@call Store#* : $arg1 == ctr && err == nil
//@ func (i *sfCounter) setDelegate(m metric.Meter)
//@   prop C16
//@   overflow assumed
//@   unchecked frame,no-panic third-party SDK calls, error handler
//@   requires i != nil && m != nil
//@   assert@call Float64Counter#1 : $arg0 == m && $arg1 == i.name && $arg2 === i.opts
//@   assert@call Store#* : $arg1 == ctr && err == nil
//@ func (i *sfCounter) Add(ctx context.Context, incr float64, opts []metric.AddOption)
//@   prop C16
//@   overflow assumed
//@   unchecked frame,no-panic third-party SDK calls
//@   requires i != nil
//@   assert@call Add#1 : $arg0 == ctr && $arg2 === incr && $arg3 === opts
//@ func (i *sfUpDownCounter) setDelegate(m metric.Meter)
//@   prop C16
//@   overflow assumed
//@   unchecked frame,no-panic third-party SDK calls, error handler
//@   requires i != nil && m != nil
//@   assert@call Float64UpDownCounter#1 : $arg0 == m && $arg1 == i.name && $arg2 === i.opts
//@   assert@call Store#* : $arg1 == ctr && err == nil
//@ func (i *sfUpDownCounter) Add(ctx context.Context, incr float64, opts []metric.AddOption)
//@   prop C16
//@   overflow assumed
//@   unchecked frame,no-panic third-party SDK calls
//@   requires i != nil
//@   assert@call Add#1 : $arg0 == ctr && $arg2 === incr && $arg3 === opts
//@ func (i *sfHistogram) setDelegate(m metric.Meter)
//@   prop C16
//@   overflow assumed
//@   unchecked frame,no-panic third-party SDK calls, error handler
//@   requires i != nil && m != nil
//@   assert@call Float64Histogram#1 : $arg0 == m && $arg1 == i.name && $arg2 === i.opts
//@   assert@call Store#* : $arg1 == ctr && err == nil
//@ func (i *sfHistogram) Record(ctx context.Context, x float64, opts []metric.RecordOption)
//@   prop C16
//@   overflow assumed
//@   unchecked frame,no-panic third-party SDK calls
//@   requires i != nil
//@   assert@call Record#1 : $arg0 == ctr && $arg2 === x && $arg3 === opts
//@ func (i *sfGauge) setDelegate(m metric.Meter)
//@   prop C16
//@   overflow assumed
//@   unchecked frame,no-panic third-party SDK calls, error handler
//@   requires i != nil && m != nil
//@   assert@call Float64Gauge#1 : $arg0 == m && $arg1 == i.name && $arg2 === i.opts
//@   assert@call Store#* : $arg1 == ctr && err == nil
//@ func (i *sfGauge) Record(ctx context.Context, x float64, opts []metric.RecordOption)
//@   prop C16
//@   overflow assumed
//@   unchecked frame,no-panic third-party SDK calls
//@   requires i != nil
//@   assert@call Record#1 : $arg0 == ctr && $arg2 === x && $arg3 === opts
//@ func (i *afCounter) setDelegate(m metric.Meter)
//@   prop C16
//@   overflow assumed
//@   unchecked frame,no-panic third-party SDK calls, error handler
//@   requires i != nil && m != nil
//@   assert@call Float64ObservableCounter#1 : $arg0 == m && $arg1 == i.name && $arg2 === i.opts
//@   assert@call Store#* : $arg1 == ctr && err == nil
//@ func (i *afUpDownCounter) setDelegate(m metric.Meter)
//@   prop C16
//@   overflow assumed
//@   unchecked frame,no-panic third-party SDK calls, error handler
//@   requires i != nil && m != nil
//@   assert@call Float64ObservableUpDownCounter#1 : $arg0 == m && $arg1 == i.name && $arg2 === i.opts
//@   assert@call Store#* : $arg1 == ctr && err == nil
//@ func (i *afGauge) setDelegate(m metric.Meter)
//@   prop C16
//@   overflow assumed
//@   unchecked frame,no-panic third-party SDK calls, error handler
//@   requires i != nil && m != nil
//@   assert@call Float64ObservableGauge#1 : $arg0 == m && $arg1 == i.name && $arg2 === i.opts
//@   assert@call Store#* : $arg1 == ctr && err == nil

// unwrapCallback: every invocation of a wrapped callback gets its OWN observer wrapper, allocated by that invocation and carrying
// the observer the SDK passed to that invocation - two overlapping collections (two readers) never share one
//@ func unwrapCallback$1(ctx context.Context, obs metric.Observer) (err error)
//@   prop C16
//@   overflow assumed
//@   unchecked frame,no-panic the user callback is a function value
//@   assert@call f#1 : $arg0 == ctx && typeis($arg1, "*unwrapObs") && fresh(cast($arg1, "*unwrapObs")) && cast($arg1, "*unwrapObs").obs == obs

// ======================================================================== C16 installation (state.go)
// SetMeterProvider / SetTracerProvider: unless the provider being installed is the default delegating provider itself, the call
// goes through the once-only delegation exactly once and THEN publishes the provider (so that by the time installation returns the
// placeholders handed out earlier forward to it); the once-body delegates the provider that was current at entry to the very
// provider being installed
//@ ghost var instOnce int
//@ func SetMeterProvider(mp metric.MeterProvider)
//@   prop C16
//@   requires mp != nil
//@   overflow assumed
//@   unchecked frame,no-panic atomic.Value, sync.Once body, logging
//@   modifies ghost instOnce
//@   ghost@entry : instOnce = 0
//@   ghost@call Once.Do#* : instOnce = instOnce + 1
//@   assert@call Store#* : instOnce == 1 && typeis($arg1, "meterProviderHolder") && cast($arg1, "meterProviderHolder").mp == mp
//@   assert@call meterProvider.setDelegate#1 : $arg1 == mp && typeis(current, "*meterProvider") && $arg0 == cast(current, "*meterProvider")
//@ func SetTracerProvider(tp trace.TracerProvider)
//@   prop C16
//@   requires tp != nil
//@   overflow assumed
//@   unchecked frame,no-panic atomic.Value, sync.Once body, logging
//@   modifies ghost instOnce
//@   ghost@entry : instOnce = 0
//@   ghost@call Once.Do#* : instOnce = instOnce + 1
//@   assert@call Store#* : instOnce == 1 && typeis($arg1, "tracerProviderHolder") && cast($arg1, "tracerProviderHolder").tp == tp
//@   assert@call tracerProvider.setDelegate#1 : $arg1 == tp && typeis(current, "*tracerProvider") && $arg0 == cast(current, "*tracerProvider")
// the current global providers are read from atomic.Value holders (not modelled): a deterministic read; a default delegating
// provider found there is a real (non-nil) object - it is allocated once at package initialisation (assumed)
//@ func MeterProvider() (mp metric.MeterProvider)
//@   prop -
//@   trusted "atomic.Value holder read; the default *meterProvider stored at initialisation is non-nil"
//@   ensures typeis(mp, "*meterProvider") ==> cast(mp, "*meterProvider") != nil
//@ func TracerProvider() (tp trace.TracerProvider)
//@   prop -
//@   trusted "atomic.Value holder read; the default *tracerProvider stored at initialisation is non-nil"
//@   ensures typeis(tp, "*tracerProvider") ==> cast(tp, "*tracerProvider") != nil
