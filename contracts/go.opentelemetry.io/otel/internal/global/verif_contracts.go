//go:build verif

// Contracts for package internal/global. Comment-only file (build tag verif). Checked by /verif/bin/govc.

package global

// Logging goes through go-logr (external): no caller-visible effect is assumed.
//@ func Info(msg string, keysAndValues []interface{})
//@   prop -
//@   trusted "logging through go-logr (external library): assumed to return without caller-visible writes"
//@ func Error(err error, msg string, keysAndValues []interface{})
//@   prop -
//@   trusted "logging through go-logr (external library): assumed to return without caller-visible writes"
//@ func Debug(msg string, keysAndValues []interface{})
//@   prop -
//@   trusted "logging through go-logr (external library): assumed to return without caller-visible writes"
//@ func Warn(msg string, keysAndValues []interface{})
//@   prop -
//@   trusted "logging through go-logr (external library): assumed to return without caller-visible writes"

// ======================================================================== C16 global providers: locking
// lock order: provider before meter before registration. A consistent order exists iff no function acquires a lower lock
// while holding a higher one - checked at every Lock(), at every call of a function whose contract declares `acquires`,
// and at every call through a function-typed field with a declared lock footprint.
//@ locklevel meterProvider.mtx < meter.mtx < registration.unregMu

// the unregister closure installed by RegisterCallback takes the meter's lock
//@ funcfield registration.unreg acquires meter.mtx

//@ func (m *meter) RegisterCallback$1() (err error)
//@   prop C16
//@   acquires meter.mtx
//@   unchecked frame,no-panic container/list plumbing

//@ guarded_by meter.mtx: instruments, delegate
// once a delegate is installed nothing is left waiting for delegation in the instrument map
//@ lockinv meter.mtx: self.delegate != nil ==> self.instruments == nil

//@ func (m *meter) RegisterCallback(f metric.Callback, insts []metric.Observable) (r metric.Registration, err error)
//@   prop C16
//@   acquires m.mtx
//@   unchecked frame,no-panic container/list plumbing and third-party SDK calls
//@   requires m != nil

//@ func (c *registration) setDelegate(m metric.Meter)
//@   prop C16
//@   acquires c.unregMu
//@   unchecked frame,no-panic third-party SDK calls
//@   assert@call RegisterCallback#1 : c.unreg != nil

//@ func (c *registration) Unregister() (err error)
//@   prop C16
//@   acquires c.unregMu
//@   unchecked frame
//@   requires c != nil
//@   ensures c.unreg == nil

//@ func (m *meter) setDelegate(provider metric.MeterProvider)
//@   prop C16
//@   acquires m.mtx
//@   unchecked frame,no-panic container/list plumbing, instrument delegation through interfaces
//@   requires provider != nil
//@   assert@call registration.setDelegate#1 : holds(m.mtx)

//@ func (p *meterProvider) setDelegate(provider metric.MeterProvider)
//@   prop C16
//@   acquires p.mtx
//@   unchecked frame,no-panic
//@   requires p != nil && provider != nil

// instrument constructors: delegate and instruments are read and written under the meter lock only; an instrument
// created before installation is in the instruments map (to be connected by setDelegate, under the same lock), one
// created afterwards comes from the delegate.
//@ func (m *meter) Int64Counter(name string, options []metric.Int64CounterOption) (r metric.Int64Counter, err error)
//@   prop C16
//@   acquires m.mtx
//@   unchecked frame,no-panic third-party SDK calls, reflect
//@   requires m != nil
//@ func (m *meter) Int64UpDownCounter(name string, options []metric.Int64UpDownCounterOption) (r metric.Int64UpDownCounter, err error)
//@   prop C16
//@   acquires m.mtx
//@   unchecked frame,no-panic third-party SDK calls, reflect
//@   requires m != nil
//@ func (m *meter) Int64Histogram(name string, options []metric.Int64HistogramOption) (r metric.Int64Histogram, err error)
//@   prop C16
//@   acquires m.mtx
//@   unchecked frame,no-panic third-party SDK calls, reflect
//@   requires m != nil
//@ func (m *meter) Int64Gauge(name string, options []metric.Int64GaugeOption) (r metric.Int64Gauge, err error)
//@   prop C16
//@   acquires m.mtx
//@   unchecked frame,no-panic third-party SDK calls, reflect
//@   requires m != nil
//@ func (m *meter) Int64ObservableCounter(name string, options []metric.Int64ObservableCounterOption) (r metric.Int64ObservableCounter, err error)
//@   prop C16
//@   acquires m.mtx
//@   unchecked frame,no-panic third-party SDK calls, reflect
//@   requires m != nil
//@ func (m *meter) Int64ObservableUpDownCounter(name string, options []metric.Int64ObservableUpDownCounterOption) (r metric.Int64ObservableUpDownCounter, err error)
//@   prop C16
//@   acquires m.mtx
//@   unchecked frame,no-panic third-party SDK calls, reflect
//@   requires m != nil
//@ func (m *meter) Int64ObservableGauge(name string, options []metric.Int64ObservableGaugeOption) (r metric.Int64ObservableGauge, err error)
//@   prop C16
//@   acquires m.mtx
//@   unchecked frame,no-panic third-party SDK calls, reflect
//@   requires m != nil
//@ func (m *meter) Float64Counter(name string, options []metric.Float64CounterOption) (r metric.Float64Counter, err error)
//@   prop C16
//@   acquires m.mtx
//@   unchecked frame,no-panic third-party SDK calls, reflect
//@   requires m != nil
//@ func (m *meter) Float64UpDownCounter(name string, options []metric.Float64UpDownCounterOption) (r metric.Float64UpDownCounter, err error)
//@   prop C16
//@   acquires m.mtx
//@   unchecked frame,no-panic third-party SDK calls, reflect
//@   requires m != nil
//@ func (m *meter) Float64Histogram(name string, options []metric.Float64HistogramOption) (r metric.Float64Histogram, err error)
//@   prop C16
//@   acquires m.mtx
//@   unchecked frame,no-panic third-party SDK calls, reflect
//@   requires m != nil
//@ func (m *meter) Float64Gauge(name string, options []metric.Float64GaugeOption) (r metric.Float64Gauge, err error)
//@   prop C16
//@   acquires m.mtx
//@   unchecked frame,no-panic third-party SDK calls, reflect
//@   requires m != nil
//@ func (m *meter) Float64ObservableCounter(name string, options []metric.Float64ObservableCounterOption) (r metric.Float64ObservableCounter, err error)
//@   prop C16
//@   acquires m.mtx
//@   unchecked frame,no-panic third-party SDK calls, reflect
//@   requires m != nil
//@ func (m *meter) Float64ObservableUpDownCounter(name string, options []metric.Float64ObservableUpDownCounterOption) (r metric.Float64ObservableUpDownCounter, err error)
//@   prop C16
//@   acquires m.mtx
//@   unchecked frame,no-panic third-party SDK calls, reflect
//@   requires m != nil
//@ func (m *meter) Float64ObservableGauge(name string, options []metric.Float64ObservableGaugeOption) (r metric.Float64ObservableGauge, err error)
//@   prop C16
//@   acquires m.mtx
//@   unchecked frame,no-panic third-party SDK calls, reflect
//@   requires m != nil

//@ guarded_by meterProvider.mtx: meters, delegate
//@ lockinv meterProvider.mtx: self.delegate != nil ==> len(self.meters) == 0
//@ func (p *meterProvider) Meter(name string, opts []metric.MeterOption) (r metric.Meter)
//@   prop C16
//@   acquires p.mtx
//@   unchecked frame,no-panic third-party SDK calls
//@   requires p != nil

//@ guarded_by tracerProvider.mtx: tracers, delegate
//@ lockinv tracerProvider.mtx: self.delegate != nil ==> len(self.tracers) == 0
//@ func (p *tracerProvider) Tracer(name string, opts []trace.TracerOption) (r trace.Tracer)
//@   prop C16
//@   acquires p.mtx
//@   unchecked frame,no-panic third-party SDK calls
//@   requires p != nil
//@ func (p *tracerProvider) setDelegate(provider trace.TracerProvider)
//@   prop C16
//@   acquires p.mtx
//@   unchecked frame,no-panic third-party SDK calls
//@   requires p != nil && provider != nil
//@ func (t *tracer) setDelegate(provider trace.TracerProvider)
//@   prop C16
//@   unchecked frame,no-panic third-party SDK calls
