//go:build verif

// Contracts for package internal/global. Comment-only file (build tag verif). Checked by /verif/bin/govc.

package global

// Logging goes through go-logr (external): no caller-visible effect is assumed.
//@ func Info(msg string, keysAndValues []interface{})
//@   prop -
//@   trusted "logging through go-logr (external library): assumed to return without caller-visible writes"
//@ func Error(err error, msg string, keysAndValues []interface{})
//@   prop -
//@   trusted "logging through go-logr (external library): assumed to return without caller-visible writes"
//@ func Debug(msg string, keysAndValues []interface{})
//@   prop -
//@   trusted "logging through go-logr (external library): assumed to return without caller-visible writes"
//@ func Warn(msg string, keysAndValues []interface{})
//@   prop -
//@   trusted "logging through go-logr (external library): assumed to return without caller-visible writes"
