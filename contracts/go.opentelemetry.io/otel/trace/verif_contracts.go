//go:build verif

// Contracts for property C03 (W3C trace-context). Comment-only file: with the build tag off it
// is not part of the build; with it on it adds no code. Checked by /verif/bin/govc.

package trace

//@ props C03

// ---- W3C tracestate grammar (https://www.w3.org/TR/trace-context-1/#tracestate-header)
//@ spec lcalpha(c byte) bool = 'a' <= c && c <= 'z'
//@ spec digit(c byte) bool = '0' <= c && c <= '9'
//@ spec keyRest(c byte) bool = lcalpha(c) || digit(c) || c == '_' || c == '-' || c == '*' || c == '/'
//@ spec allRest(s string, lo int, hi int) bool = forall i in lo .. hi : keyRest(s[i])
//@ spec chr(c byte) bool = 0x20 <= c && c <= 0x7e && c != ',' && c != '='
//@ spec nblk(c byte) bool = 0x21 <= c && c <= 0x7e && c != ',' && c != '='
//@ spec w3cValue(s string) bool = 1 <= len(s) && len(s) <= 256 && (forall i in 0 .. len(s)-1 : chr(s[i])) && nblk(s[len(s)-1])

//@ func checkValueChar(v byte) (ok bool)
//@   ensures ok == chr(v)
//@ func checkValueLast(v byte) (ok bool)
//@   ensures ok == nblk(v)
//@ func isAlphaNum(c byte) (ok bool)
//@   ensures ok == (lcalpha(c) || digit(c))
//@ func checkValue(val string) (ok bool)
//@   ensures ok == w3cValue(val)
//@   loop#1 invariant 0 <= i && i <= n-1
//@   loop#1 invariant forall k in 0 .. i : chr(val[k])
//@   loop#1 decreases n-1-i
//@ func checkKeyRemain(key string) (ok bool)
//@   ensures ok == allRest(key, 0, len(key))
//@   loop#1 invariant 0 <= i && i <= len(key)
//@   loop#1 invariant forall k in 0 .. i : keyRest(key[k])
//@   loop#1 decreases len(key) - i

// simple-key = lcalpha 0*255(keyRest); system-id = lcalpha 0*13(keyRest); tenant-id = (lcalpha / DIGIT) 0*240(keyRest)
//@ spec keyPart(s string, n int) bool = 1 <= len(s) && len(s) <= n+1 && lcalpha(s[0]) && allRest(s, 1, len(s))
//@ spec tenantPart(s string, n int) bool = 1 <= len(s) && len(s) <= n+1 && (lcalpha(s[0]) || digit(s[0])) && allRest(s, 1, len(s))
//@ spec hasAt(s string) bool = exists i in 0 .. len(s) : s[i] == '@'
//@ spec firstAt(s string, p int) bool = 0 <= p && p < len(s) && s[p] == '@' && (forall q in 0 .. p : s[q] != '@')
//@ spec w3cKey(s string) bool = (!hasAt(s) && keyPart(s, 255)) || (exists p in 0 .. len(s) : firstAt(s, p) && tenantPart(s[:p], 240) && keyPart(s[p+1:], 13))

//@ func checkKeyPart(key string, n int) (ok bool)
//@   requires n >= 0
//@   ensures ok == keyPart(key, n)
//@ func checkKeyTenant(key string, n int) (ok bool)
//@   requires n >= 0
//@   ensures ok == tenantPart(key, n)
//@ func checkKey(key string) (ok bool)
//@   ensures ok == w3cKey(key)
//@ func newMember(key string, value string) (m member, err error)
//@   ensures (err == nil) == (w3cKey(key) && w3cValue(value))
//@   ensures err == nil ==> m.Key == key && m.Value == value

//@ spec validMember(m member) bool = w3cKey(m.Key) && w3cValue(m.Value)
//@ spec ows(c byte) bool = c == ' ' || c == '\t'
//@ func parseMember(m string) (r member, err error)
//@   ensures err == nil ==> validMember(r)
//@   ensures err == nil ==> exists p in 0 .. len(m) : m[p] == '=' && (forall q in 0 .. p : m[q] != '=')

// ---- TraceState: representation invariant (all members valid, keys pairwise distinct, at most 32)
//@ spec hasKey(l []member, k string) bool = exists i in 0 .. len(l) : l[i].Key == k
//@ spec distinctKeys(l []member) bool = forall i in 0 .. len(l) : forall j in 0 .. i : l[i].Key != l[j].Key
//@ spec validTS(l []member) bool = len(l) <= 32 && (forall i in 0 .. len(l) : validMember(l[i])) && distinctKeys(l)
//@ typeinv TraceState = validTS(self.list)

//@ func ParseTraceState(ts string) (r TraceState, err error)
//@   ensures ts == "" ==> err == nil && len(r.list) == 0
//@   ensures err != nil ==> len(r.list) == 0
//@   ensures err == nil ==> validTS(r.list)
//@   loop#1 invariant len(members) <= 32 && (forall i in 0 .. len(members) : validMember(members[i])) && distinctKeys(members)
//@   loop#1 invariant forall k in 0 .. len(members) : has(found, members[k].Key)
//@   loop#1 invariant found != nil
//@   loop#1 invariant fresh(members) && framed()

//@ func (ts TraceState) Len() (n int)
//@   ensures n == len(ts.list)
//@ func (ts TraceState) Get(key string) (v string)
//@   ensures !hasKey(ts.list, key) ==> v == ""
//@   ensures hasKey(ts.list, key) ==> exists i in 0 .. len(ts.list) : ts.list[i].Key == key && v == ts.list[i].Value
//@   loop#1 invariant forall q in 0 .. $k : ts.list[q].Key != key

// Insert: newest (or updated) member first, the rest keep their order, only the right-most is dropped on overflow,
// the receiver's list is untouched, invalid input returns the original TraceState.
//@ func (ts TraceState) Insert(key string, value string) (r TraceState, err error)
//@   ensures (err == nil) == (w3cKey(key) && w3cValue(value))
//@   ensures err != nil ==> r.list === ts.list
//@   ensures err == nil ==> len(r.list) >= 1 && r.list[0].Key == key && r.list[0].Value == value
//@   ensures err == nil && hasKey(ts.list, key) ==> len(r.list) == len(ts.list)
//@   ensures err == nil && !hasKey(ts.list, key) ==> len(r.list) == min(32, len(ts.list)+1)
//@   assert@return#2 : (found == len(ts.list) || ts.list[found].Key == key) && 0 <= found && found <= len(ts.list) && (found == len(ts.list) ==> forall j in 0 .. len(ts.list) : ts.list[j].Key != key)
//@   assert@return#2 : (forall j in 0 .. found : j+1 < len(cTS.list) ==> cTS.list[j+1] == ts.list[j]) && (forall j in found+1 .. len(ts.list) : cTS.list[j] == ts.list[j])
//@   ensures err == nil ==> fresh(r.list)
//@   ensures unchanged(ts.list)
//@   loop#1 invariant (found == n && (forall q in 0 .. $k : ts.list[q].Key != key)) || (0 <= found && found < $k && ts.list[found].Key == key)

// Delete: a copy without the member keyed key (order kept); the receiver's list is untouched.
//@ func (ts TraceState) Delete(key string) (r TraceState)
//@   ensures !hasKey(ts.list, key) ==> r.list == ts.list
//@   ensures hasKey(ts.list, key) ==> exists p in 0 .. len(ts.list) : ts.list[p].Key == key && len(r.list) == len(ts.list)-1 && (forall j in 0 .. p : r.list[j] == ts.list[j]) && (forall j in p .. len(r.list) : r.list[j] == ts.list[j+1])
//@   ensures fresh(r.list)
//@   ensures unchanged(ts.list)
//@   loop#1 invariant forall q in 0 .. $k : ts.list[q].Key != key

//@ func (ts TraceState) String() (s string)
//@   ensures len(ts.list) == 0 ==> s == ""
//@   loop#1 invariant 0 <= n && n <= 2*len(ts.list) + $k*512
//@   loop#2 invariant 1 <= i && i <= len(ts.list)

// ---- IDs and SpanContext (trace.go)
//@ func (t TraceID) IsValid() (ok bool)
//@   ensures ok == (exists i in 0 .. 16 : t[i] != 0)
//@ func (s SpanID) IsValid() (ok bool)
//@   ensures ok == (exists i in 0 .. 8 : s[i] != 0)
//@ func (sc SpanContext) IsValid() (ok bool)
//@   ensures ok == ((exists i in 0 .. 16 : sc.traceID[i] != 0) && (exists i in 0 .. 8 : sc.spanID[i] != 0))

// context.Value lookups are outside the modelled subset: a deterministic function of the context (assumed).
//@ func SpanContextFromContext(ctx context.Context) (sc SpanContext)
//@   prop -
//@   pure
//@   trusted "context.Value lookup is not modelled; treated as a deterministic function of ctx"

// ======================================================================== C03 IDs from hex (trace.go)
// decodeHex: accepted only if EVERY byte of h is a lower-case hex digit (the loop walks runes; an accepted rune is one byte);
// the decoding itself is encoding/hex's. TraceIDFromHex / SpanIDFromHex: exactly 32 / 16 characters, lower-case hex, non-zero.
//@ spec lowerHexB(c byte) bool = ('0' <= c && c <= '9') || ('a' <= c && c <= 'f')
//@ func decodeHex(h string, b []byte) (err error)
//@   prop C03
//@   overflow assumed
//@   modifies elems(b)
//@   ensures err == nil ==> forall i in 0 .. len(h) : lowerHexB(h[i])
//@   assert@call DecodeString#1 : $arg0 == h
//@   loop#1 invariant forall i in 0 .. $off : lowerHexB(h[i])
//@ func TraceIDFromHex(h string) (t TraceID, err error)
//@   prop C03
//@   overflow assumed
//@   unchecked frame the result array is filled through a slice of it
//@   ensures len(h) != 32 ==> err != nil
//@   ensures err == nil ==> len(h) == 32 && (forall i in 0 .. 32 : lowerHexB(h[i])) && t.IsValid()
//@   assert@call decodeHex#1 : $arg0 == h && len($arg1) == 16
//@ func SpanIDFromHex(h string) (s SpanID, err error)
//@   prop C03
//@   overflow assumed
//@   unchecked frame the result array is filled through a slice of it
//@   ensures len(h) != 16 ==> err != nil
//@   ensures err == nil ==> len(h) == 16 && (forall i in 0 .. 16 : lowerHexB(h[i])) && s.IsValid()
//@   assert@call decodeHex#1 : $arg0 == h && len($arg1) == 8
//@ func (tf TraceFlags) IsSampled() (r bool)
//@   prop C03 C09
//@   ensures r == (tf & 1 == 1)
//@ func (tf TraceFlags) WithSampled(sampled bool) (r TraceFlags)
//@   prop C03 C09
//@   mode bv
//@   ensures sampled ==> r == tf | 1
//@   ensures !sampled ==> r == tf - (tf & 1)
