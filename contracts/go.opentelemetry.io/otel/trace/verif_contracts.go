//go:build verif

// Contracts for property C03 (W3C trace-context). Comment-only file: with the build tag off it
// is not part of the build; with it on it adds no code. Checked by /verif/bin/govc.

package trace

//@ props C03

// ---- W3C tracestate grammar (https://www.w3.org/TR/trace-context-1/#tracestate-header)
//@ spec lcalpha(c byte) bool = 'a' <= c && c <= 'z'
//@ spec digit(c byte) bool = '0' <= c && c <= '9'
//@ spec keyRest(c byte) bool = lcalpha(c) || digit(c) || c == '_' || c == '-' || c == '*' || c == '/'
//@ spec allRest(s string, lo int, hi int) bool = forall i in lo .. hi : keyRest(s[i])
//@ spec chr(c byte) bool = 0x20 <= c && c <= 0x7e && c != ',' && c != '='
//@ spec nblk(c byte) bool = 0x21 <= c && c <= 0x7e && c != ',' && c != '='
//@ spec w3cValue(s string) bool = 1 <= len(s) && len(s) <= 256 && (forall i in 0 .. len(s)-1 : chr(s[i])) && nblk(s[len(s)-1])

//@ func checkValueChar(v byte) (ok bool)
//@   ensures ok == chr(v)
//@ func checkValueLast(v byte) (ok bool)
//@   ensures ok == nblk(v)
//@ func isAlphaNum(c byte) (ok bool)
//@   ensures ok == (lcalpha(c) || digit(c))
//@ func checkValue(val string) (ok bool)
//@   ensures ok == w3cValue(val)
//@   loop#1 invariant 0 <= i && i <= n-1
//@   loop#1 invariant forall k in 0 .. i : chr(val[k])
//@   loop#1 decreases n-1-i
//@ func checkKeyRemain(key string) (ok bool)
//@   ensures ok == allRest(key, 0, len(key))
//@   loop#1 invariant forall k in 0 .. $off : keyRest(key[k])

// simple-key = lcalpha 0*255(keyRest); system-id = lcalpha 0*13(keyRest); tenant-id = (lcalpha / DIGIT) 0*240(keyRest)
//@ spec keyPart(s string, n int) bool = 1 <= len(s) && len(s) <= n+1 && lcalpha(s[0]) && allRest(s, 1, len(s))
//@ spec tenantPart(s string, n int) bool = 1 <= len(s) && len(s) <= n+1 && (lcalpha(s[0]) || digit(s[0])) && allRest(s, 1, len(s))
//@ spec hasAt(s string) bool = exists i in 0 .. len(s) : s[i] == '@'
//@ spec firstAt(s string, p int) bool = 0 <= p && p < len(s) && s[p] == '@' && (forall q in 0 .. p : s[q] != '@')
//@ spec w3cKey(s string) bool = (!hasAt(s) && keyPart(s, 255)) || (exists p in 0 .. len(s) : firstAt(s, p) && tenantPart(s[:p], 240) && keyPart(s[p+1:], 13))

//@ func checkKeyPart(key string, n int) (ok bool)
//@   requires n >= 0
//@   ensures ok == keyPart(key, n)
//@ func checkKeyTenant(key string, n int) (ok bool)
//@   requires n >= 0
//@   ensures ok == tenantPart(key, n)
//@ func checkKey(key string) (ok bool)
//@   ensures ok == w3cKey(key)
//@ func newMember(key string, value string) (m member, err error)
//@   ensures (err == nil) == (w3cKey(key) && w3cValue(value))
//@   ensures err == nil ==> m.Key == key && m.Value == value
