//go:build verif

// Contracts for package otel (root). Comment-only file (build tag verif). Checked by /verif/bin/govc.

package otel

// the global error handler delegates to a user-installed handler (third-party code)
//@ func Handle(err error)
//@   prop -
//@   trusted "hands the error to the globally installed ErrorHandler (third-party); assumed to return without caller-visible writes"
