#!/bin/sh
# validates MANIFEST.json and every evidence file against the schemas
python3-vt - <<'PY'
import json,jsonschema,glob
jsonschema.validate(json.load(open('/verif/MANIFEST.json')), json.load(open('/root/.vp/MANIFEST.schema.json')))
print('manifest ok')
s=json.load(open('/root/.vp/EVIDENCE.schema.json'))
for f in sorted(glob.glob('/verif/evidence/*.json')):
    jsonschema.validate(json.load(open(f)), s); print('ok', f)
PY
