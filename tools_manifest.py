#!/usr/bin/env python3
"""Generates /verif/MANIFEST.json from the table below (kept next to the checks so the two stay in step)."""
import json, subprocess, os

BASELINE_OFF = ("for m in $(cat /w/out/gomods.txt); do MF=$(cd /repo/$m && . /w/out/goenv.sh && gomodflag); "
                "(cd /repo/$m && go test $MF -json -vet=off -count=1 -timeout 25m ./...); done")

# id -> (claimed?, level text, level note, design ref) ; unclaimed ids carry the reason instead
CLAIMED = {}
NOT_APPLICABLE = {}

def claim(pid, text, note, ref):
    CLAIMED[pid] = (text, note, ref)

def na(pid, reason):
    NOT_APPLICABLE[pid] = reason

exec(open(os.path.join(os.path.dirname(__file__), "manifest_table.py")).read())

def hook_commits():
    try:
        out = subprocess.check_output(["git", "-C", "/repo", "log", "--format=%H %s"], text=True)
    except Exception:
        return []
    return [l.split()[0] for l in out.splitlines() if l.split(" ", 1)[1].startswith("verif:")]

checks = []
for pid in sorted(CLAIMED):
    text, note, ref = CLAIMED[pid]
    checks.append({
        "property_id": pid,
        "quick_cmd": f"./check.sh {pid} quick",
        "thorough_cmd": f"./check.sh {pid} thorough",
        "evidence_file": f"/verif/evidence/{pid}.json",
        "replay_cmd_template": "/verif/bin/govc replay {path}",
        "engine": "govc",
        "level_claimed": {"category": "proof", "text": text, "design_ref": ref},
        "level_note": note,
        "technique": "contract-based deductive verification: contracts (requires/ensures/loop invariants/lock invariants/site assertions) in /repo verif_contracts.go files, verification conditions generated from the go/ssa form of /repo's working tree by govc, every obligation discharged by z3 5.1 / z3 4.8.12 / cvc5 1.0.3; quick = 4 s then a 45 s race of the three; thorough = 10 s then a 120 s race, every discharged obligation also given to an independent second solver (a sat there is a violation) and re-solved under a second seed (instability listed in the evidence); refuted no-panic/postcondition obligations of scalar-parameter functions are replayed on the real code with go test -overlay",
    })

manifest = {
    "version": 1,
    "setup_cmd": "./setup.sh",
    "hooks": {
        "guard": "verif",
        "enable": "-tags=verif (adds comment-only verif_contracts.go files; no code)",
        "baseline_off_cmd": BASELINE_OFF,
        "source_commits": hook_commits(),
        "add_only": True,
    },
    "engines": [{
        "name": "govc",
        "path": "/verif/govc",
        "serves_properties": sorted(CLAIMED),
        "kind_free_text": "own verification-condition generator for Go (go/packages + go/ssa, x/tools v0.29.0): contracts as //@ comments in build-tag-guarded files in /repo, weakest-precondition style symbolic execution per function, callee contracts used modularly, loop invariants, lock invariants; obligations in SMT-LIB discharged by z3 5.1.0, z3 4.8.12, cvc5 1.0.3",
    }],
    "checks": checks,
    "not_applicable": [{"property_id": p, "reason": NOT_APPLICABLE[p]} for p in sorted(NOT_APPLICABLE)],
    "notes": "See DESIGN.md. Each check regenerates every obligation from /repo's working tree; evidence/<id>.json lists functions under contract, obligations, solver times and every assumption.",
}
json.dump(manifest, open(os.path.join(os.path.dirname(__file__), "MANIFEST.json"), "w"), indent=1)
print("claimed", sorted(CLAIMED), "not_applicable", sorted(NOT_APPLICABLE))
