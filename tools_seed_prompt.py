#!/usr/bin/env python3
"""Prints the prompt given to a seeding sub-agent for one property (only the property text and its scratch worktree)."""
import json, sys
pid = sys.argv[1]
hint = sys.argv[2] if len(sys.argv) > 2 else ""
mods = sys.argv[3] if len(sys.argv) > 3 else ""
tag = sys.argv[4] if len(sys.argv) > 4 else pid   # directory tag (second rounds: e.g. C03b)
for l in open('/verif/properties.jsonl'):
    d = json.loads(l)
    if d['id'] == pid:
        break
print(f"""You are helping test a verification system by writing a deliberately subtle, property-breaking change ("seeded defect") to the Go repository open-telemetry/opentelemetry-go.

Work ONLY inside the scratch git worktree /tmp/wt_{tag} (a checkout of the repository). Never touch /repo or /verif. Do not commit anything.

The property that your change must break:
"{d['id']}: {d['title']}. {d['statement']}"
Quantified over: {d['quantifier']['text']}
Relevant code: {', '.join(d['anchors']['files'])}.

Your task: make ONE small source change (a few lines, in non-test .go files) that
 1. still compiles,
 2. keeps the existing test suite of the affected Go module(s) passing (run it!),
 3. breaks the property above - but only under a specific condition that ordinary use and the existing tests do not hit: an unusual input (boundary value, particular byte, particular position, exact limit), a particular interleaving, a multi-step sequence of operations, a fault at a particular point, or two cooperating sites that each look fine alone. Do NOT make a change that any normal call would expose at once.
{hint}

Also write a demonstration: a Go test file (package-internal or external _test.go, placed where it compiles in the worktree) with a test named TestSeededDemo that FAILS with your change and PASSES on the original code. Verify both: run it with your change (must fail), then `git stash` your source change (keep the untracked test file), run it (must pass), then `git stash pop`.

Environment: no network. Before every go command: export GOFLAGS=-mod=mod GOPROXY=off GOSUMDB=off GOTOOLCHAIN=local
The repository has several Go modules (each directory with a go.mod: root, trace, sdk, sdk/metric, sdk/log, metric, log, exporters/...). Run tests from the module directory, e.g. `cd /tmp/wt_{tag}/sdk && go test -count=1 -vet=off ./trace/...`. {mods}

Deliverables, written to the directory /tmp/seed_{tag}/ (create it):
 - patch.diff : `git -C /tmp/wt_{tag} diff` restricted to your non-test source change only (not the demo test). It must apply cleanly with `git apply` to an unmodified checkout.
 - the demonstration test file (copy), plus a file demo_path.txt containing the path (relative to the repo root) where the test file must be placed.
 - meta.json : {{"property": "{pid}", "summary": "<what you changed>", "needs": "<the specific input/sequence/interleaving needed for the violation to manifest>", "commands_run": ["..."], "suite_result": "<which module test suites you ran and that they passed>"}}
Leave your source change and demo test in place in the worktree when you finish. In your final answer, report the change, the triggering condition, and the exact commands you ran with their outcomes.""")
