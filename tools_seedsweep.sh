#!/bin/sh
# usage: tools_seedsweep.sh [seeds...]   -- runs every claimed check under several solver seeds; lists alarms and slow obligations
# (an obligation that only discharges under some seeds, or needs seconds, is an unstable proof: fix the contract/invariant)
cd /verif
seeds="${*:-1 2 3 4}"
props=$(python3 -c "import json;print(' '.join(c['property_id'] for c in json.load(open('MANIFEST.json'))['checks']))")
for s in $seeds; do
  for p in $props; do
    VERIF_SEED=$s ./bin/govc check -property $p -v 2>&1 | awk -v p=$p -v s=$s '/VIOLATION/ {print "ALARM seed=" s " " $0} /^  (unsat|sat|unknown|timeout|error)/ { if ($3+0 > 1200) print "SLOW seed=" s " " p " " $0 }' | cut -c1-220
  done
done
echo sweep done
