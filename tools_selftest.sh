#!/bin/sh
# Must-fail corpus: every seeded mutant (seeded/*/patch.diff) and every line of selftest/mutants.txt must make its
# property's check exit 1; every line of selftest/refactors.txt must keep exit 0. Patches are applied to /repo and
# reverted immediately; nothing is committed. Usage: tools_selftest.sh [property filter]
# Works on a scratch copy of /repo's working tree (removed at the end), so /repo itself is never touched.
cd /verif || exit 2
filter=${1:-C}
pass=0; fail=0
SH=${SHARD:-0/1}; SI=${SH%/*}; SN=${SH#*/}
R=/tmp/st_repo_$SI
V=/tmp/st_verif_$SI
cnt=0
mine() { cnt=$((cnt+1)); [ $(( (cnt-1) % SN )) -eq $SI ]; }
rm -rf $R $V; mkdir -p $R $V; rsync -a --exclude .git /repo/ $R/; rsync -a --exclude .git --exclude bin --exclude replays --exclude seeded --exclude govc /verif/ $V/
L=/tmp/st_$SI.log
run() { GOVC_FULL_SEC=${ST_FULL:-20} ./bin/govc check -j 6 -repo $R -verif $V -property "$1" >$L 2>&1; echo $?; }
for d in seeded/*/; do
  id=$(basename $d); pid=$(python3 -c "import json;print(json.load(open('$d/meta.json'))['property'])" 2>/dev/null || echo ${id%%-*})
  case $pid in $filter*) ;; *) continue;; esac
  mine || continue
  # a seed that is known NOT to be detected (reason in the file, and in DESIGN.md) is reported, not counted as a regression
  if [ -f $d/NOT_DETECTED.txt ]; then echo "SEED $id ($pid): known undetected: $(cat $d/NOT_DETECTED.txt)"; continue; fi
  (cd $R && git apply /verif/$d/patch.diff) || { echo "SEED $id: patch does not apply"; fail=$((fail+1)); continue; }
  rc=$(run $pid); (cd $R && git apply -R /verif/$d/patch.diff)
  if [ "$rc" = 1 ]; then pass=$((pass+1)); echo "SEED $id ($pid): detected: $(grep VIOLATION $L | sed 's/.*obligation=//' | head -2 | tr '\n' ' ')"; else fail=$((fail+1)); echo "SEED $id ($pid): MISSED (exit $rc)"; fi
done
grep -v '^#' selftest/mutants.txt | while IFS="|" read -r pid file expr; do
  case $pid in $filter*) ;; *) continue;; esac
  mine || continue
  cp $R/$file /tmp/st_backup_$SI; sed -i "$expr" $R/$file
  if cmp -s $R/$file /tmp/st_backup_$SI; then echo "MUT $pid $file: sed did not change the file: $expr"; continue; fi
  rc=$(run $pid); cp /tmp/st_backup_$SI $R/$file
  if [ "$rc" = 1 ]; then echo "MUT $pid $file: detected: $(grep VIOLATION $L | sed 's/.*obligation=//' | head -1)"; else echo "MUT $pid $file: MISSED (exit $rc): $expr"; fi
done
grep -v '^#' selftest/refactors.txt | while IFS="|" read -r pid file expr; do
  case $pid in $filter*) ;; *) continue;; esac
  mine || continue
  cp $R/$file /tmp/st_backup_$SI; sed -i "$expr" $R/$file
  if cmp -s $R/$file /tmp/st_backup_$SI; then echo "REF $pid $file: sed did not change the file: $expr"; continue; fi
  rc=$(run $pid); cp /tmp/st_backup_$SI $R/$file
  if [ "$rc" = 0 ]; then echo "REF $pid $file: ok (no alarm)"; else echo "REF $pid $file: FALSE ALARM (exit $rc): $(grep VIOLATION $L | sed 's/.*obligation=//' | head -1)"; fi
done
# behaviour-preserving refactorings written by sub-agents (selftest/refactor_patches/*.diff): no check of a property whose
# contracts cover the touched package may alarm
for p in selftest/refactor_patches/*.diff; do
  mine || continue
  (cd $R && git apply /verif/$p) || { echo "REFPATCH $p: does not apply"; continue; }
  file=$(grep '^+++ b/' $p | head -1 | sed 's|+++ b/||'); dir=$(dirname $file)
  props=$(grep -oh "C[0-9][0-9]" $R/$dir/verif_contracts.go 2>/dev/null | sort -u | tr '\n' ' ')
  res=""
  for pr in $props; do
    case $pr in $filter*) ;; *) continue;; esac
    rc=$(run $pr); [ "$rc" = 0 ] || res="$res $pr:$(grep VIOLATION $L | sed 's/.*obligation=//' | head -1)"
  done
  if [ -z "$res" ]; then echo "REFPATCH $(basename $p) [$props]: ok (no alarm)"; else echo "REFPATCH $(basename $p): FALSE ALARM $res"; fi
  (cd $R && git apply -R /verif/$p)
done
rm -rf $R $V
