#!/usr/bin/env python3
"""Compact summary of failing obligations of the last run of a property: name, status, first error line."""
import json,glob,sys
pid=sys.argv[1]
for f in sorted(glob.glob(f'/verif/replays/{pid}/*.json')):
    d=json.load(open(f))
    out=(d.get('solver_output') or '').replace('\n',' ')
    err=''
    if 'error' in out:
        i=out.index('error'); err=out[i:i+140]
    print(f"{d['obligation']:70s} {d['status']:8s} {err or d['desc'][:110]}")
