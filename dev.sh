#!/bin/sh
# development helper: sync contract mirror into /repo, rebuild govc, run a check
cd /verif && ./tools_sync.sh >/dev/null; ./setup.sh >/dev/null || exit 2
exec ./bin/govc check -property "$@"
