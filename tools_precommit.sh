#!/bin/sh
# run before committing a manifest/spec change: every claimed check must exit 0 on the unchanged tree and write valid evidence
# same environment as the acceptance run
export VERIF_SEED=1 VERIF_TIER=quick
cd /verif && ./tools_sync.sh >/dev/null
fail=0
for p in $(python3 -c "import json;print(' '.join(c['property_id'] for c in json.load(open('/verif/MANIFEST.json'))['checks']))"); do
  rm -f evidence/$p.json
  ./check.sh $p quick > /tmp/pre_$p.log 2>&1; rc=$?
  echo "$p exit=$rc $(grep -c VIOLATION /tmp/pre_$p.log) violations; $(tail -1 /tmp/pre_$p.log | cut -c1-120)"
  [ $rc -ne 0 ] && fail=1
done
./tools_validate.sh | grep -v "^ok" 
(cd /repo && git status --short | grep -v '^??' | head -3)
exit $fail
