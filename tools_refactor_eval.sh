#!/bin/sh
# usage: tools_refactor_eval.sh <TAG>   -- applies each /tmp/refactor_<TAG>/patch_k.diff to a scratch copy of /repo, runs every check
# whose contract files live in the touched package's module... (simply: all properties listed for the file), expects exit 0; stores patches
# that raise an alarm under /verif/selftest/refactor_patches/ for analysis
tag=$1
R=/tmp/rf_repo; V=/tmp/rf_verif
rm -rf $R $V; mkdir -p $R $V; rsync -a --exclude .git /repo/ $R/; rsync -a --exclude .git --exclude bin --exclude replays --exclude seeded --exclude govc /verif/ $V/
mkdir -p /verif/selftest/refactor_patches
for p in /tmp/refactor_$tag/patch_*.diff; do
  (cd $R && git apply $p) || { echo "$p: does not apply"; continue; }
  file=$(grep '^+++ b/' $p | head -1 | sed 's|+++ b/||')
  dir=$(dirname $file)
  # properties whose contract file covers this package
  props=$(grep -l "prop C\|props C" $R/$dir/verif_contracts.go 2>/dev/null | xargs -r grep -oh "C[0-9][0-9]" | sort -u | tr '\n' ' ')
  res=""
  for pr in $props; do
    GOVC_FULL_SEC=20 /verif/bin/govc check -repo $R -verif $V -property $pr > /tmp/rf.log 2>&1; rc=$?
    if [ $rc -ne 0 ]; then res="$res $pr:ALARM($(grep VIOLATION /tmp/rf.log | sed 's/.*obligation=//' | head -2 | tr '\n' ' '))"; else res="$res $pr:ok"; fi
  done
  echo "$(basename $p) $file [$props]: $res"
  case "$res" in *ALARM*) cp $p /verif/selftest/refactor_patches/${tag}_$(basename $p);; esac
  (cd $R && git apply -R $p)
done
rm -rf $R $V
