#!/bin/sh
# Builds the verifier from files on disk only (offline).
set -e
cd "$(dirname "$0")/govc"
export GOFLAGS=-mod=mod GOPROXY=off GOSUMDB=off GOTOOLCHAIN=local GOWORK=off
mkdir -p ../bin
go build -o ../bin/govc .
echo "built $(cd .. && pwd)/bin/govc"
