#!/bin/sh
# runs tools_selftest.sh in 4 shards in parallel; output in /tmp/selftest_par.<i>.log, summary at the end
cd /verif
for i in 0 1 2 3; do SHARD=$i/4 ./tools_selftest.sh "$@" > /tmp/selftest_par.$i.log 2>&1 & done
wait
cat /tmp/selftest_par.*.log | grep -c "detected"
cat /tmp/selftest_par.*.log | grep "MISSED\|FALSE ALARM\|does not apply\|did not change"
echo "selftest done"
