# Table read by tools_manifest.py.  claim(id, level text, level note, design ref) / na(id, reason)
claim("C03",
      "Proof, function by function, that the tracestate validators, parser and editors of package trace satisfy contracts "
      "transcribed from the W3C grammar for every input string (no bound): validators equal the grammar predicates, "
      "ParseTraceState/Insert/Delete only ever produce lists with valid members and pairwise distinct keys (type invariant), "
      "Insert/Delete order and copy-on-write postconditions, no run-time panic. Tests sample a few dozen headers; these obligations quantify over all strings.",
      "Trusted: go/ssa translation, govc's SMT encoding, solver soundness, library models strings.Cut/TrimLeft/TrimRight/Builder, fmt.Errorf non-nil. "
      "Not decided: round-trip identity String∘Parse and Inject∘Extract (needs the recursive join spec; planned), propagation package.",
      "DESIGN.md 4 C03")
_todo = "check not built yet in this session (engine exists; contracts for this property's functions still to be written)"
for _p in ["C01","C02","C04","C05","C06","C07","C08","C09","C10","C11","C12","C13","C14","C15","C16","C17","C18","C19","C20"]:
    na(_p, _todo)
