# Table read by tools_manifest.py.  claim(id, level text, level note, design ref) / na(id, reason)
_TB = ("Trusted base: go/packages+go/ssa (x/tools v0.29.0) translation, govc's SMT encoding of the Go subset, solver soundness "
       "(z3 5.1.0 / z3 4.8.12 / cvc5 1.0.3), the library models and interface/trusted contracts listed in the evidence file's assumptions. ")
claim("C03",
      "Proof, function by function and for every input string (no bound), that the tracestate validators, parser and editors of package trace satisfy contracts "
      "transcribed from the W3C grammar: validators equal the grammar predicates, ParseTraceState/Insert/Delete only ever produce lists with valid members, "
      "pairwise distinct keys and at most 32 members (type invariant), Insert/Delete order, drop-right-most and copy-on-write postconditions, ID validity, no run-time panic. "
      "The suite samples a few dozen headers; these obligations quantify over all strings and all list contents.",
      _TB + "Also package propagation: TraceContext.extract returns a valid span context only for a traceparent of the shape vv-<32>-<16>-ff[-...] with lower-case hex digits only (upper case rejected), version != ff, and for version 00 nothing after the flags and flags <= 02; "
      "encoding/hex.Decode is a library model. Not decided: round-trip identity String∘Parse / Inject∘Extract, Inject's layout (see evidence not_decided).",
      "DESIGN.md 4 C03")
claim("C09",
      "Proof for all trace IDs, ratios and parent contexts: the ratio sampler's decision is the stated function of the low 8 ID bytes and the bound (bit-vector exact), "
      "the bound is monotone in the ratio and within 2^63 (floating-point lemmas), always-on/off samplers, the parent-based dispatch table, default delegates, and in tracer.newSpan: "
      "trace-ID inheritance from a valid parent, new root ignores the parent, sampled flag <=> RecordAndSample, other flag bits kept, tracestate from the sampler, recording span <=> decision != Drop, generated IDs valid.",
      _TB + "Third-party Sampler/IDGenerator implementations are assumed deterministic/valid (interface contracts); newRecordingSpan's field mapping (parent, span context, kind, name, start time, limits) is itself verified. "
      "Not decided: span-ID uniqueness (probabilistic).",
      "DESIGN.md 4 C09")
claim("C13",
      "Proof of field-mapping postconditions for every input: OTLP span (IDs, name, kind table, start/end clamped at 0, dropped counts clamped to uint32, status, parent ID presence, flags), "
      "clampUint32, status, spanKind, buildSpanFlags; the typed attribute value table (Value: eight kinds, slice kinds element by element), KeyValues (one output per input, in order), links and spanEvents (one output per input in order, "
      "IDs copied into storage of their own - no two outputs share a backing array -, names, timestamps, dropped counts), the resource/scope grouping key of Spans; OTLP log record in both the HTTP and gRPC copies against one shared contract text "
      "(severity table, timestamps, text, event name, flags, dropped attribute count, trace/span ID presence, LogAttrs/LogAttrValues one output per input).",
      _TB + "ReadOnlySpan accessors are assumed deterministic (interface contracts); log.Value accessors and Record.WalkAttributes are extern contracts on another module. Not decided: protobuf wire round trip, gRPC-vs-HTTP payload equality beyond the shared contract text, Zipkin tags/annotations.",
      "DESIGN.md 4 C13")
claim("C14",
      "Proof over the real retry loop (six generated copies, one contract text): success or a non-retryable error is returned at once and unchanged, the wait is max(throttle, backoff) >= throttle, "
      "the loop gives up exactly when the time budget is or would be exceeded (ghost monotone clock); HTTP evaluate retries exactly retryableError values (three copies); the gRPC retryable code table is exact and throttleDelay reports RetryInfo exactly when the status carries one, zero delay included (three copies); "
      "newRequest of the three HTTP clients: the body factory is on every path bodyReader(...) over the immutable payload, so a retry re-sends the identical body. "
      "Known finding (listed in KNOWN_FINDINGS.txt, class-split so other violations still alarm): Retry-After seconds are used as nanoseconds.",
      _TB + "fn/evaluate/waitFunc are function values treated as deterministic; backoff, time.Since and grpc status accessors are external (havocked / assumed pure). "
      "Not decided: wall-clock behaviour, cancellation timing, HTTP status classification in the Upload* closures.",
      "DESIGN.md 4 C14")
claim("C18",
      "Proof that collector.getName never panics for every non-empty instrument name, unit, namespace and type (the index into the trimmed name is guarded), and that counters end in _total; convertsToUnderscore table; "
      "getAttrs returns label names and values of equal length in both branches and, when sanitising merges keys, only ever appends to the values collected for a key (a fresh list only for an absent key); the metric-type table (histograms -> HISTOGRAM, monotonic sums -> COUNTER, other sums and gauges -> GAUGE); explicit histograms: the series count/sum are the data point's count/sum, "
      "labels stay paired, bucket index in range given len(BucketCounts) > len(Bounds); sums/gauges: value and value type as specified; validateMetrics: family table only under the lock, first definition of a name is kept.",
      _TB + "model.EscapeName (prometheus/common) is assumed to return a non-empty name for a non-empty input; Prometheus client constructors are unknown calls. Not decided: registry acceptance, concurrent scrapes, cumulative bucket sums (no summation operator), exponential histograms, exemplars.",
      "DESIGN.md 4 C18")
claim("C20",
      "Proof for every environment content (os.Getenv as an arbitrary function of the key, strconv.Atoi as an arbitrary partial function): IntEnvOr/firstInt return the parsed value of the first non-empty key "
      "else the default, unparsable => default, signal-specific key before generic key for the span limits; NewBatchSpanProcessor has no run-time panic (make(chan)/make([]T) sizes) for every integer the environment or an option can supply.",
      _TB + "Options are unknown function values that may write the options struct arbitrarily; integer overflow in duration arithmetic is assumed absent (wraps, never panics). "
      "Also (four generated copies each, one contract text): the OTLP environment readers WithString/WithBool/WithDuration pass a set variable on exactly once and nothing for an unset or unparsable one, GetEnvValue is present iff non-empty after trimming, "
      "WithEnvCompression passes gzip for \"gzip\" and NO compression for every other set value (so a signal-specific \"none\" overrides a generic \"gzip\"). "
      "Log SDK setting resolvers (clearLessThanOne, clampMax, fallback, getenv: a set value is never overridden, values below 1 are cleared) and the log exporters' getenv/getEnv/fallback resolvers (a resolver that gives up has read EVERY key: an unparsable specific value does not hide a valid generic one). "
      "Not decided: the ORDER of generic-before-specific readers in getOptionsFromEnv (a list of closures), option folds, wire behaviour.",
      "DESIGN.md 4 C20")
claim("C04",
      "Proof for every attribute list, limit and call order of the span mutators: bounded FIFO (evictedQueue.add for events and links) against a sequence view, per-event/-link attribute caps and dropped counts, "
      "status precedence, SetName/addChild, nothing changes after End; in-place de-duplication over the shared backing array (keys unique, index map exact, no key lost, frame); over-capacity insert (keys unique, "
      "limit never exceeded); SetAttributes (limit 0 drops all, count limit holds, fast-path count conservation); truncate (cut position has exactly `limit` runes before it, fast path only when the whole string fits).",
      _TB + "Integer overflow of drop counters assumed absent. truncateAttr's string-slice path and SetAttributes' array frame are marked unchecked. Not decided: see evidence not_decided.",
      "DESIGN.md 4 C04")
claim("C05",
      "Proof for every input slice and filter: after the stable sort the de-duplication loop leaves a strictly key-sorted (sorted and unique) suffix that becomes the set; filteredToFront partitions by the filter and keeps a strictly sorted kept part; "
      "fixed-size array storage for 1..10 attributes equals the slice; Set.Filter leaves the original untouched (frame), keeps exactly the attributes satisfying the filter, returns the rest, loses nothing; "
      "iterator and merge-iterator steps (first iterator wins on equal keys).",
      _TB + "slices.SortStableFunc is a library model (sorted + stable permutation w.r.t. the comparator closure, which is itself proved to order by key). Reflect-built storage is behind trusted contracts. "
      "Not decided: permutation/no-value-lost, last-wins, NaN reflexivity (see evidence).",
      "DESIGN.md 4 C05")
claim("C10",
      "Lock-discipline proof per method of recordingSpan: every access to a guarded field happens with the span lock held (guarded-by obligations), locks are balanced on every path, and the lock invariant "
      "ends[s] == (endTime set ? 1 : 0) over a ghost end-counter holds at every unlock - which is provable only if the recording check and the end-time store are in one critical section, so exactly one End wins in every interleaving; "
      "processors and snapshot are called with no span lock held; mutators change nothing after End.",
      _TB + "sync.Mutex gives mutual exclusion (assumed); a re-acquired lock havocs the guarded fields. End's no-panic and frame obligations are marked unchecked (third-party processors). Not decided: races outside guarded fields, tracer.Start child counting.",
      "DESIGN.md 4 C10")
claim("C19",
      "Proof of Merge's case analysis for all resources: nil identities, the four-row schema URL table including the conflict error, the merge iterator is built with b first (b wins by the proved 'first iterator wins' step contract), "
      "and every attribute the iterator yields reaches the new resource also on a conflict; OTEL_RESOURCE_ATTRIBUTES parsing (constructOTResources): key and value are trimmed before the value is percent-decoded, the decoded value is used unchanged, "
      "pairs without '=' are skipped and make the error non-nil, every pair is either kept or reported.",
      _TB + "Not decided: the merged list as a full right-biased union and the algebraic laws (need a recursive merge specification), url.PathUnescape itself (standard library), detectors.",
      "DESIGN.md 4 C19")
claim("C17",
      "Proof for every attribute list and limit: dedup in place over the caller's array (keys unique, duplicates counted, no key lost), head, the index map of existing attributes, addAttrs/SetAttributes/AddAttributes: "
      "every store into the record's inline array or back slice is of a value that went through applyAttrLimits (abstract predicate established only by the limiter) - whether the key is new or overwrites an existing one - "
      "the count limit holds afterwards, dropped counters never decrease, type invariant 0 <= nFront <= 5; truncate as in C04. Known finding (class-split): a count limit of 0 keeps everything.",
      _TB + "applyValueLimits (recursion over log.Value) is verified except for one `assumes` clause - the abstract predicate limitedV, which it establishes by definition; log.Value accessors are extern contracts on another module; sync.Pool index maps are assumed empty and exclusively owned. Not decided: see evidence.",
      "DESIGN.md 4 C17")
claim("C02",
      "Proof for both number types and every map content: valueMap.measure adds exactly `value` to exactly the stream the limiter selects (new streams start at 0) and leaves every other stream untouched, under the mutex with the "
      "guarded-by obligations on the stream map; sum.delta reports every stream's value over [old start, t], then clears the map and moves the start; sum.cumulative reports the same values and keeps everything; "
      "int64Inst/float64Inst.aggregate hand the value to every measure function exactly once; pipeline.produce computes every instrument into its own output slot (scratch read and result written at the same index) with that instrument's name, description and unit.",
      _TB + "int64 overflow assumed absent; float64 only per step. Map iteration is an arbitrary present element per step. Not decided: reader goroutines, ghost-total lock invariant (see evidence).",
      "DESIGN.md 4 C02")
claim("C07",
      "Proof for all values, bounds and scales: explicit buckets - bin/sum step contracts, measure places a value in the (lower, upper] bucket found by the binary-search contract and only in the bucket set the limiter selects, new bucket sets have len(bounds)+1 counts; "
      "exponential - getBin for scale <= 0 against an integer specification on the Frexp exponent (bit-vector exact), scaleChange (result bound, fit condition, termination), record (scale monotone and >= -10, a dropped underflow measurement is not counted), configuration validation. "
      "Known finding (canary lemma): int64 values are bucketed by their float64 rounding.",
      _TB + "math.Frexp is a library model (IEEE fields), sort.SearchFloat64s a library model. Not decided: getBin for scale > 0 (math.Log), bucket window arithmetic, sum-of-counts invariant.",
      "DESIGN.md 4 C07")
claim("C08",
      "Proof that the contract DIFFERENCE between the sum aggregator's delta and cumulative collection is exactly the property: same points (value, attributes, count of points), delta over [previous start, t] then forget and move the start, "
      "cumulative over [fixed start, t] and keep. Same for the precomputed sum (delta = value minus the previous cycle's value per stream, `reported` = exactly this cycle's keys incl. the overflow stream), the last-value aggregator, "
      "the explicit histogram (delta forgets, cumulative hands out copies of the counts) and the exponential histogram's delta (a reused data point keeps nothing stale, negative buckets included); observable instruments' callbacks write only their own pipeline's aggregators.",
      _TB + "Map iteration is an arbitrary present, not yet visited element per step. Not decided: exponential histogram cumulative, callback histories across collections, exemplars.",
      "DESIGN.md 4 C08")
claim("C12",
      "Proof for every map content and limit: limiter.Attributes answers the attribute set itself when it already has a stream or fewer than limit-1 streams exist, otherwise the single overflow set, and is the identity for non-positive limits; "
      "sum, last-value and explicit-histogram measure index their stream map only with that answer's identity; the attribute filter wrappers (Builder.filter) measure the filtered set and hand the dropped attributes on; "
      "precomputedSum.delta remembers the overflow stream like any other; inserter.Instrument de-duplicates aggregate functions by the cache id.",
      _TB + "Not decided: the cardinality bound as a lock invariant, filters, view matching (see evidence).",
      "DESIGN.md 4 C12")
claim("C15",
      "Proof for every processor list: UnregisterSpanProcessor changes nothing for a processor that is not registered and removes exactly one entry otherwise (copy-on-write), RegisterSpanProcessor appends a fresh state, "
      "TracerProvider.Shutdown is a no-op for every call that loses the compare-and-swap, empties the list on normal completion and stays shut down; simpleSpanProcessor calls its exporter only under its lock, only for sampled spans and never when it is nil - "
      "including inside the goroutine Shutdown spawns (spawned closures are followed for panic obligations); batchSpanProcessor.Shutdown: every return is preceded by exactly one Once.Do; metric side: unify calls every registered function exactly once whatever the earlier ones return, "
      "PeriodicReader.Shutdown shuts the exporter down also when the final flush fails. Known finding (site canary): Shutdown with an already cancelled context.",
      _TB + "sync.Once/atomic semantics assumed; frames of the list-publishing functions are marked unchecked. Not decided: log provider, MeterProvider membership, liveness.",
      "DESIGN.md 4 C15")
claim("C16",
      "Proof of deadlock freedom by lock order for the global meter side: a strict order meterProvider.mtx < meter.mtx < registration.unregMu is declared and every acquisition - direct Lock(), a call of a function whose contract declares `acquires`, "
      "or a call through the function-typed field registration.unreg (declared footprint: meter.mtx, checked at every store into the field) - must respect it; delegate/instruments/meters/tracers are accessed only under their lock (guarded_by), and the lock invariants "
      "'delegate installed => nothing left waiting in instruments/meters/tracers' hold at every unlock, for all 14 instrument constructors, RegisterCallback, Meter, Tracer and the setDelegate chain; registration.setDelegate re-registers only while unreg != nil. "
      "The check found the Unregister/setDelegate lock-order inversion (fixed, see KNOWN_FINDINGS.txt).",
      _TB + "sync.Mutex semantics assumed; third-party SDK calls and container/list are unknown calls (frames and no-panic of these functions are marked unchecked). Not decided: atomic.Value forwarding of instruments/tracers, state.go once-only installation.",
      "DESIGN.md 4 C16")
claim("C06",
      "Proof for every queue state, capacity and buffer length: the record queue is a FIFO over a cyclic list (ghost numbering of the ring nodes; well-formedness is the invariant of the queue's lock, re-established at every unlock): "
      "Enqueue appends, and when full drops exactly the OLDEST record, counts it and keeps the order of the rest; TryDequeue copies the oldest min(len(buf), len) records in order, offers them to write as one batch never longer than buf, "
      "removes them iff write returned true and otherwise leaves the queue exactly as it was; Flush returns everything oldest-first and empties the queue; chunkExporter hands on consecutive non-empty pieces of at most `size` records that cover its input; "
      "OnEmit enqueues only while not stopped and enqueues a clone sharing no attribute storage; bufferExporter sends on its channel only under inputMu while not stopped and closes it only under inputMu after setting stopped (once).",
      _TB + "sync.Mutex/atomic semantics assumed; calls through function values and unknown interface methods are treated as side-effect free; newQueue is a trusted contract. Not decided: channel hand-over to the export goroutine, single-exporter-call enumeration, poll loop.",
      "DESIGN.md 4 C06")
claim("C01",
      "Partial, by contracts on the worker and the enqueue side: (1) the batch never holds more than MaxExportBatchSize spans for every MaxExportBatchSize >= 1 - lock invariant of batchMutex, maintained by an owner-thread rely/guarantee argument "
      "(only processQueue/drainQueue, which run in one goroutine, append; every other critical section only shrinks the batch: checked as a guarantee at each unlock); (2) the exporter is called only with batchMutex held, with the whole non-empty batch, and the batch is emptied in the same critical "
      "section whether or not the export failed; (3) enqueueDrop/enqueueBlockOnQueueFull: an unsampled span is neither sent nor counted, a sampled one is sent exactly once or (non-blocking mode) counted as dropped exactly once, and the result says which; (4) OnEnd enqueues nothing once stopped is set or without an exporter; (5) ForceFlush enqueues its marker with the blocking enqueue and Shutdown reaches stopOnce.Do exactly once before every return. "
      "Known finding (class split with canary): MaxExportBatchSize == 0 exports batches of 1 and, on drain, of any size.",
      _TB + "sync.Mutex/atomic semantics and channel send/receive pairing assumed; timers, contexts, the exporter and otel.Handle are unknown calls (frames and no-panic of these functions are marked unchecked). NOT decided (see spec/C01.json): delivery by the time ForceFlush/Shutdown returns (a whole-history property over the channel hand-over), nothing after Shutdown.",
      "DESIGN.md 4 C01, 10.2")
claim("C11",
      "Partial. Proved for every byte string: the baggage parsers (skipSpace, validateKey/validateValue and their per-character tests, parsePropertyInternal, parseProperty, parseMember, replaceInvalidUTF8Sequences, Parse) never index or slice out of range - "
      "the rune loops advance a byte index once per rune, which is only right because every accepted character is one byte long (loop invariant keyEnd == keyStart + byte offset); an accepted key is a non-empty run of one-byte key characters, accepted values are valid UTF-8 (valid input unchanged); "
      "limits: a member over 4096 bytes and a header over 8192 bytes are rejected, Parse and New return at most 180 members, New at most 8192 bytes and only members that carry data. "
      "Immutability, for every map content: SetMember and DeleteMember write no existing map, return a fresh map holding exactly the old entries plus/minus the member (uses the visited-set model of range over a map; an obligation shows the map ranged over is not the one updated). "
      "Known finding (class split with canary): New does not enforce the 4096-byte member limit.",
      _TB + "library models for strings.Cut/TrimSpace/Split, utf8.*, strings.Builder, url.PathUnescape (arbitrary result); two assumed axioms about UTF-8 validity; Member.String/Baggage.String trusted as deterministic. valueEscape is under contract for memory safety and exact output length only. NOT decided (see spec/C11.json): the header round trip / Inject-Extract identity, last-duplicate-wins, serialisation layout.",
      "DESIGN.md 4 C11, 10.2")
_todo = "check not built yet in this session (engine exists; contracts for this property's functions still to be written)"
for _p in []:
    na(_p, _todo)

# ---- coverage added in the last build session (appended to the level texts above; the evidence files list every function)
_ADD = {
 "C01": " drainQueue returns only from the queue-empty branch after the final export made there; span.End's single-critical-section contract (C10) is part of this check.",
 "C02": " pipeline.produce slot pinning, inserter.Instrument de-duplication by cache id, resolver.Aggregators/HistogramAggregators ask every pipeline exactly once, observable instruments register with each pipeline exactly the measures that pipeline returned.",
 "C03": " TraceIDFromHex/SpanIDFromHex/decodeHex (length, lower-case hex, non-zero), TraceFlags, TraceContext.Inject (headers written, flag byte keeps the sampled bit only).",
 "C04": " AddLink: a link is skipped only for an ended span or when it carried no attributes as given.",
 "C05": " computeDistinct/computeDistinctReflect call structure (array sized by len, element i addressed for kvs[i]; the reflect storage view itself is assumed), Set.Value answer shape, Iterator.ToSlice = whole contents after rewinding.",
 "C06": " ForceFlush buffer = queue capacity, timeoutExporter calls the wrapped exporter synchronously exactly once, Shutdown shuts the exporter chain down exactly once on every path of the winning call.",
 "C08": " expoHistogram.cumulative (same point contents as delta, streams kept), expoBuckets.record/downscale are part of this check too.",
 "C09": " randomIDGenerator (every ID returned is the one validated), processors' sampled checks (enqueueDrop/enqueueBlockOnQueueFull), TraceFlags.",
 "C11": " every constructor/validator of Member and Property (decoded value is what is validated), Property.String shape (key=value exactly when it has a value).",
 "C12": " cachedAggregator passes the cardinality limit and the view's filter to the builder unchanged, NewView criteria (every non-empty criterion must agree, wildcard path included).",
 "C13": " OTLP metric transform (both copies: ResourceMetrics, ScopeMetrics, Metrics, metric, Gauge, Sum, Histogram, ExponentialHistogram, Summary, DataPoints, HistogramDataPoints, ExponentialHistogramDataPoints, buckets, Exemplars, Temporality, attribute values), log ResourceLogs grouping key and LogAttrValue kinds, trace InstrumentationScope/Resource, Zipkin IDs/kind/span context/name/timestamp/duration.",
 "C14": " per-attempt HTTP closures (retryable error only for 429/502/503/504 or a temporary transport error; three clients), retry.wait (nil only when the timer fired; six copies), trace HTTP Stop (every call closes the stop channel through the Once), throttleDelay first-RetryInfo rule.",
 "C15": " LoggerProvider (Logger/Shutdown/ForceFlush), TracerProvider.Tracer and its locked closure, TracerProvider.ForceFlush, MeterProvider (Meter/Shutdown/ForceFlush), ManualReader (Shutdown/Collect), log BatchProcessor.Shutdown exporter shutdown count.",
 "C16": " every instrument constructor files its placeholder under an identity whose kind is the reflect type of that placeholder; all placeholders' setDelegate and Add/Record forwarders; unwrapCallback allocates one observer wrapper per invocation; SetMeterProvider/SetTracerProvider delegate once, then publish.",
 "C17": " logger.newRecord copies the provider's limits before the first attribute is added; Clone is part of this check.",
 "C18": " native (exponential) histogram conversion: each side under its own offset, scope info series (real scope name/version last, so they win), target info.",
 "C19": " detect (every detector's answer merged or its error reported), Environment, NewSchemaless filter.",
 "C20": " samplerFromEnv/parseTraceIDRatio table, NewSpanLimits, option closures of both log exporters (setting = exactly the value passed).",
}
for _pid, _t in _ADD.items():
    if _pid in CLAIMED:
        CLAIMED[_pid] = (CLAIMED[_pid][0] + " Also:" + _t, CLAIMED[_pid][1], CLAIMED[_pid][2])
