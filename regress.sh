#!/bin/sh
# runs every property that has contracts; prints one summary line each
cd /verif && ./tools_sync.sh >/dev/null
for p in ${@:-C01 C02 C03 C04 C05 C06 C07 C08 C09 C10 C11 C12 C13 C14 C15 C16 C17 C18 C19 C20}; do
  ./bin/govc check -property $p 2>&1 | grep -v "^KNOWN\|no contracts for" | grep "quick:\|VIOLATION" | sed 's/replay=[^ ]* //' | head -6
done
