#!/bin/sh
# usage: tools_mkwt.sh <name>  -> creates scratch worktree /tmp/wt_<name> of /repo HEAD without the contract files
set -e
d=/tmp/wt_$1
git -C /repo worktree add --detach "$d" HEAD >/dev/null 2>&1
cd "$d"
find . -name verif_contracts.go | sed 's|^\./||' > /tmp/wt_$1.contracts
xargs git update-index --skip-worktree < /tmp/wt_$1.contracts
xargs rm -f < /tmp/wt_$1.contracts
git status --short | head -3
echo "$d ready"
