#!/bin/sh
# usage: tools_seed_eval.sh <seed dir name under /tmp, e.g. seed_C20> <property id> <module dir relative to repo> [test pkg pattern]
# 1. confirms in the agent's scratch worktree that the demo fails with the change and passes without it and that the module's suite passes with it
# 2. stores the seed under /verif/seeded/<name>/ ; 3. applies the patch to /repo, runs the property's quick check, reverts.
name=$1; pid=$2; mod=$3; pat=${4:-./...}
src=/tmp/$name; wt=/tmp/wt_${name#seed_}
export GOFLAGS=-mod=mod GOPROXY=off GOSUMDB=off GOTOOLCHAIN=local
dst=/verif/seeded/${name#seed_}; mkdir -p $dst; cp -r $src/* $dst/
demo=$(cat $src/demo_path.txt); demopkg=./$(dirname ${demo#$mod/})
cd $wt/$mod || exit 2
echo "== demo with change (must FAIL)"; go test -count=1 -vet=off -run 'TestSeededDemo' $demopkg > $dst/demo_with_change.log 2>&1; r1=$?; tail -3 $dst/demo_with_change.log
cd $wt && git stash -q && cd $wt/$mod
echo "== demo without change (must PASS)"; go test -count=1 -vet=off -run 'TestSeededDemo' $demopkg > $dst/demo_without_change.log 2>&1; r2=$?; tail -2 $dst/demo_without_change.log
cd $wt && git stash pop -q && cd $wt/$mod
mv $wt/$demo /tmp/demo_aside.go
echo "== suite with change (must PASS)"; go test -count=1 -vet=off $pat > $dst/suite_with_change.log 2>&1; r3=$?; grep -v "^ok\|no test files" $dst/suite_with_change.log | tail -5
mv /tmp/demo_aside.go $wt/$demo
echo "== check on /repo with the patch"
cd /repo && git apply $src/patch.diff || { echo "patch does not apply"; exit 2; }
cd /verif && ./bin/govc check -property $pid > $dst/check_with_patch.log 2>&1; r4=$?
cd /repo && git apply -R $src/patch.diff
grep -c VIOLATION $dst/check_with_patch.log; grep VIOLATION $dst/check_with_patch.log | sed 's/.*obligation=//' | head -6
echo "demo_with_change_exit=$r1 demo_without_change_exit=$r2 suite_with_change_exit=$r3 check_exit=$r4" | tee $dst/verified.txt
cd /repo && git status --short | grep -v '^??' | head -3
