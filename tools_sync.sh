#!/bin/sh
# Copies the contract mirror into /repo (the /repo copy is authoritative for checks; both are kept byte-identical).
cd "$(dirname "$0")/contracts" || exit 2
find . -name verif_contracts.go | while read f; do
  pkg=$(dirname "$f" | sed 's|^\./||')
  rel=${pkg#go.opentelemetry.io/otel}
  rel=${rel#/}
  dst="/repo/$rel/verif_contracts.go"
  if [ -d "/repo/$rel" ]; then
    cmp -s "$f" "$dst" || { cp "$f" "$dst"; echo "synced $dst"; }
  else
    echo "no such package dir: /repo/$rel" >&2
  fi
done
