package main

// Trusted models of library functions (DESIGN.md 3.4). Each model states the documentation
// sentence it encodes; all are assumptions and are listed in the evidence when used.

import (
	"unicode/utf8"
	"go/constant"
	"fmt"
	"go/token"
	"go/types"
	"strings"

	"golang.org/x/tools/go/ssa"
)

type modelFn func(f *Frame, st *State, cc *ssa.CallCommon, args []Val, rt types.Type, pos token.Pos) Val

var libModels map[string]modelFn

func init() {
	libModels = map[string]modelFn{
		"strings.Cut":        modelCut,
		"bytes.Equal":        modelBytesEqual,
		"cmp.Compare":        modelCmpCompare,
		"slices.SortStableFunc": modelSortStableFunc,
		"github.com/prometheus/common/model.EscapeName": modelEscapeName,
		"strings.TrimLeft":   modelTrimLeft,
		"strings.TrimRight":  modelTrimRight,
		"strings.TrimSpace":  modelTrimSpace,
		"strings.HasPrefix":  modelHasPrefix,
		"strings.HasSuffix":  modelHasSuffix,
		"strings.TrimSuffix": modelTrimSuffix,
		"strings.TrimPrefix": modelTrimPrefix,
		"strings.IndexByte":  modelIndexByte,
		"strings.ToLower":    modelOpaqueStr("strings.ToLower"),
		"strings.ToUpper":    modelOpaqueStr("strings.ToUpper"),
		"fmt.Errorf":         modelNewError,
		"errors.New":         modelNewError,
		"fmt.Sprintf":        modelHavocPure,
		"fmt.Sprint":         modelHavocPure,
		"errors.Is":          modelHavocPure,
		"errors.Join":        modelErrorsJoin,
		"reflect.TypeOf":     modelReflectTypeOf,
		"unicode/utf8.RuneCountInString": modelRuneCount,
		"unicode/utf8.ValidString":       modelValidString,
		"unicode/utf8.DecodeRuneInString": modelDecodeRune,
		"unicode/utf8.RuneLen":           modelRuneLen,
		"(*strings.Builder).Grow":        modelBuilderGrow,
		"(*strings.Builder).WriteString": modelBuilderWriteString,
		"(*strings.Builder).WriteByte":   modelBuilderWriteByte,
		"(*strings.Builder).WriteRune":   modelBuilderWriteRune,
		"(*strings.Builder).String":      modelBuilderString,
		"(*strings.Builder).Cap":         modelBuilderCap,
		"(*strings.Builder).Len":         modelBuilderLen,
		"math.IsNaN":                     modelIsNaN,
		"math.IsInf":                     modelIsInf,
		"math.Float64bits":               modelFloat64bits,
		"math.Float64frombits":           modelFloat64frombits,
		"math.Abs":                       modelAbs,
		"math.Frexp":                     modelFrexp,
		"sort.SearchFloat64s":            modelSearchFloat64s,
		"slices.Clone":                   modelSlicesClone,
		"slices.Grow":                    modelSlicesGrow,
		"time.Now":                       modelTimeNow,
		"time.Since":                     modelTimeSince,
		"(time.Time).IsZero":             modelTimeIsZero,
		"(time.Time).UnixNano":           modelOpaque1("time.UnixNano"),
		"(time.Time).Sub":                modelHavocPure,
		"(time.Time).Add":                modelHavocPure,
		"(time.Time).Before":             modelHavocPure,
		"(time.Time).After":              modelHavocPure,
		"(time.Time).Equal":              modelHavocPure,
		"context.Background":             modelNonNilIface,
		"context.WithCancel":             modelHavocPure,
		"context.WithTimeout":            modelHavocPure,
		"context.WithValue":              modelNonNilIface,
		"os.Getenv":                      modelGetenv,
		"os.LookupEnv":                   modelHavocPure,
		"strconv.Atoi":                   modelAtoi,
		"strconv.ParseInt":               modelHavocPure,
		"strconv.ParseFloat":             modelHavocPure,
		"strconv.ParseBool":              modelHavocPure,
		"strconv.Itoa":                   modelHavocPure,
		"strconv.FormatInt":              modelHavocPure,
		"strconv.Quote":                  modelHavocPure,
		"encoding/hex.Decode":            modelHexDecode,
		"net/url.PathUnescape":           modelHavocPure,
		"net/url.Parse":                  modelHavocPure,
		"encoding/binary.bigEndian.Uint64": modelBE64,
		"(encoding/binary.bigEndian).Uint64": modelBE64,
		"runtime/trace.IsEnabled":        modelHavocPure,
	}
}

func libModelEffects(callee *ssa.Function) func(f *Frame, cc *ssa.CallCommon, blocks map[*ssa.BasicBlock]bool, ef *effects) {
	full := callee.String()
	if o := callee.Origin(); o != nil {
		full = o.String()
	}
	if _, ok := libModels[full]; !ok {
		if isLockCall(callee) {
			return func(f *Frame, cc *ssa.CallCommon, blocks map[*ssa.BasicBlock]bool, ef *effects) {}
		}
		return nil
	}
	return func(f *Frame, cc *ssa.CallCommon, blocks map[*ssa.BasicBlock]bool, ef *effects) {
		if strings.HasPrefix(full, "(*strings.Builder).") && len(cc.Args) > 0 {
			f.storeEffect(cc.Args[0], blocks, ef)
		}
	}
}

func modelHavocPure(f *Frame, st *State, cc *ssa.CallCommon, args []Val, rt types.Type, pos token.Pos) Val {
	return f.e.havocVal(rt, "lib", st)
}

func modelNonNilIface(f *Frame, st *State, cc *ssa.CallCommon, args []Val, rt types.Type, pos token.Pos) Val {
	v := f.e.havocVal(rt, "lib", st)
	f.e.assume("true", sNot(sEq(v.S, "iface.nil")))
	return v
}

// errors.New / fmt.Errorf: "returns an error" - the result is never nil.
func modelNewError(f *Frame, st *State, cc *ssa.CallCommon, args []Val, rt types.Type, pos token.Pos) Val {
	e := f.e
	v := e.havocVal(rt, "err", st)
	e.assume("true", sNot(sEq(v.S, "iface.nil")))
	return v
}

// reflect.TypeOf(i): "returns the reflection Type that represents the dynamic type of i. If i is a nil interface value, TypeOf
// returns nil." Two Type values are equal exactly when they represent identical types: the result is an injective function of the
// dynamic type tag.
func modelReflectTypeOf(f *Frame, st *State, cc *ssa.CallCommon, args []Val, rt types.Type, pos token.Pos) Val {
	e := f.e
	e.sc.Decl("fun:rtype.of", "(declare-fun rtype.of (Int) Iface)\n(declare-fun rtype.tagof (Iface) Int)\n(assert (forall ((a Int)) (! (= (rtype.tagof (rtype.of a)) a) :pattern ((rtype.of a)))))\n(assert (= (rtype.of 0) iface.nil))\n(assert (forall ((a Int)) (! (=> (not (= a 0)) (not (= (rtype.of a) iface.nil))) :pattern ((rtype.of a)))))")
	return Val{T: rt, S: fmt.Sprintf("(rtype.of (iface.tag %s))", args[0].S)}
}

// errors.Join: nil iff every argument is nil.
func modelErrorsJoin(f *Frame, st *State, cc *ssa.CallCommon, args []Val, rt types.Type, pos token.Pos) Val {
	e := f.e
	v := e.havocVal(rt, "errjoin", st)
	if len(args) == 1 && isSliceT(args[0].T) {
		s := args[0].S
		h := e.getHeapA(st, "Iface")
		e.assume("true", fmt.Sprintf("(= (= %s iface.nil) (forall ((i Int)) (=> (and (<= 0 i) (< i (s.len %s))) (= (select (select %s (s.arr %s)) (+ (s.off %s) i)) iface.nil))))", v.S, s, h, s, s))
	}
	return v
}

func modelOpaqueStr(name string) modelFn {
	return func(f *Frame, st *State, cc *ssa.CallCommon, args []Val, rt types.Type, pos token.Pos) Val {
		e := f.e
		fn := "lib." + sanitizeSym(name)
		e.sc.Decl("fun:"+fn, fmt.Sprintf("(declare-fun %s (Str) Str)", fn))
		return Val{T: rt, S: fmt.Sprintf("(%s %s)", fn, args[0].S)}
	}
}

func modelOpaque1(name string) modelFn {
	return func(f *Frame, st *State, cc *ssa.CallCommon, args []Val, rt types.Type, pos token.Pos) Val {
		e := f.e
		fn := "lib." + sanitizeSym(name)
		e.sc.Decl("fun:"+fn, fmt.Sprintf("(declare-fun %s (%s) %s)", fn, e.valSort(args[0]), e.sortOf(rt)))
		v := Val{T: rt, S: fmt.Sprintf("(%s %s)", fn, args[0].S)}
		e.assumeTyping(st, v)
		return v
	}
}

func (e *Engine) strLitOf(v ssa.Value) (string, bool) {
	if c, ok := v.(*ssa.Const); ok && c.Value != nil && isString(c.Type()) {
		return constantString(c), true
	}
	return "", false
}

// strings.Cut(s, sep): "slices s around the first instance of sep, returning the text before and after sep.
// The found result reports whether sep appears in s. If sep does not appear in s, cut returns s, "", false."
func modelCut(f *Frame, st *State, cc *ssa.CallCommon, args []Val, rt types.Type, pos token.Pos) Val {
	e := f.e
	s, sep := e.nameConst("cut.s", "Str", args[0].S), args[1].S
	p := e.freshConst("cut.p", "Int")
	found := e.freshConst("cut.found", "Bool")
	match := func(q string) string {
		if lit, ok := e.strLitOf(cc.Args[1]); ok && len(lit) == 1 {
			return fmt.Sprintf("(= (sbyte %s %s) %d)", s, q, lit[0])
		}
		return fmt.Sprintf("(forall ((j Int)) (=> (and (<= 0 j) (< j (slen %s))) (= (sbyte %s (+ %s j)) (sbyte %s j))))", sep, s, q, sep)
	}
	e.assume("true", fmt.Sprintf("(=> %s (and (<= 0 %s) (<= (+ %s (slen %s)) (slen %s)) %s (forall ((q Int)) (! (=> (and (<= 0 q) (< q %s)) (not %s)) :pattern ((sbyte %s q))))))",
		found, p, p, sep, s, match(p), p, match("q"), s))
	e.assume("true", fmt.Sprintf("(=> (not %s) (forall ((q Int)) (! (=> (and (<= 0 q) (<= (+ q (slen %s)) (slen %s))) (not %s)) :pattern ((sbyte %s q)))))",
		found, sep, s, match("q"), s))
	// named constants, not macros: a macro containing ite is not allowed inside quantifier patterns (z3 drops the pattern)
	before := e.nameConst("cut.before", "Str", sIte(found, fmt.Sprintf("(ssub %s 0 %s)", s, p), s))
	after := e.nameConst("cut.after", "Str", sIte(found, fmt.Sprintf("(ssub %s (+ %s (slen %s)) (slen %s))", s, p, sep, s), "str.empty"))
	e.lastCut = p
	tup := rt.(*types.Tuple)
	return Val{T: rt, Tuple: []Val{{T: tup.At(0).Type(), S: before}, {T: tup.At(1).Type(), S: after}, {T: tup.At(2).Type(), S: found}}}
}

func cutsetPred(e *Engine, cutset ssa.Value, b string) (string, bool) {
	lit, ok := e.strLitOf(cutset)
	if !ok {
		return "", false
	}
	var alts []string
	for i := 0; i < len(lit); i++ {
		if lit[i] >= 0x80 {
			return "", false
		}
		alts = append(alts, fmt.Sprintf("(= %s %d)", b, lit[i]))
	}
	return sOr(alts...), true
}

// strings.TrimLeft(s, cutset): "returns a slice of the string s with all leading Unicode code points contained in cutset removed" (ASCII cutsets only).
func modelTrimLeft(f *Frame, st *State, cc *ssa.CallCommon, args []Val, rt types.Type, pos token.Pos) Val {
	e := f.e
	s := e.nameConst("trim.s", "Str", args[0].S)
	if _, ok := cutsetPred(e, cc.Args[1], "0"); !ok {
		e.note("strings.TrimLeft with a non-literal or non-ASCII cutset: result havocked")
		return e.havocVal(rt, "trim", st)
	}
	p := e.freshConst("trim.p", "Int")
	inq, _ := cutsetPred(e, cc.Args[1], fmt.Sprintf("(sbyte %s q)", s))
	inp, _ := cutsetPred(e, cc.Args[1], fmt.Sprintf("(sbyte %s %s)", s, p))
	e.assume("true", fmt.Sprintf("(and (<= 0 %s) (<= %s (slen %s)) (forall ((q Int)) (! (=> (and (<= 0 q) (< q %s)) %s) :pattern ((sbyte %s q)))) (=> (< %s (slen %s)) (not %s)))",
		p, p, s, p, inq, s, p, s, inp))
	return Val{T: rt, S: e.define("trimmed", "Str", fmt.Sprintf("(ssub %s %s (slen %s))", s, p, s))}
}

func modelTrimRight(f *Frame, st *State, cc *ssa.CallCommon, args []Val, rt types.Type, pos token.Pos) Val {
	e := f.e
	s := e.nameConst("trim.s", "Str", args[0].S)
	if _, ok := cutsetPred(e, cc.Args[1], "0"); !ok {
		e.note("strings.TrimRight with a non-literal or non-ASCII cutset: result havocked")
		return e.havocVal(rt, "trim", st)
	}
	p := e.freshConst("trim.p", "Int") // new length
	inq, _ := cutsetPred(e, cc.Args[1], fmt.Sprintf("(sbyte %s q)", s))
	inp, _ := cutsetPred(e, cc.Args[1], fmt.Sprintf("(sbyte %s (- %s 1))", s, p))
	e.assume("true", fmt.Sprintf("(and (<= 0 %s) (<= %s (slen %s)) (forall ((q Int)) (! (=> (and (<= %s q) (< q (slen %s))) %s) :pattern ((sbyte %s q)))) (=> (> %s 0) (not %s)))",
		p, p, s, p, s, inq, s, p, inp))
	return Val{T: rt, S: e.define("trimmed", "Str", fmt.Sprintf("(ssub %s 0 %s)", s, p))}
}

// strings.TrimSpace: result is a substring s[a:b] whose first and last bytes (if any) are not ASCII space characters;
// removed bytes are >= 0x80 (possible Unicode space) or ASCII space. (weak model: ASCII part exact)
func modelTrimSpace(f *Frame, st *State, cc *ssa.CallCommon, args []Val, rt types.Type, pos token.Pos) Val {
	e := f.e
	s := e.nameConst("trim.s", "Str", args[0].S)
	a := e.freshConst("ts.a", "Int")
	b := e.freshConst("ts.b", "Int")
	sp := func(x string) string {
		return fmt.Sprintf("(or (= %s 32) (and (<= 9 %s) (<= %s 13)))", x, x, x)
	}
	e.assume("true", fmt.Sprintf("(and (<= 0 %s) (<= %s %s) (<= %s (slen %s)) (=> (< %s %s) (and (not %s) (not %s))) (forall ((q Int)) (! (=> (and (<= 0 q) (< q (slen %s)) (or (< q %s) (>= q %s))) (or %s (>= (sbyte %s q) 128))) :pattern ((sbyte %s q)))))",
		a, a, b, b, s, a, b, sp(fmt.Sprintf("(sbyte %s %s)", s, a)), sp(fmt.Sprintf("(sbyte %s (- %s 1))", s, b)), s, a, b, sp(fmt.Sprintf("(sbyte %s q)", s)), s, s))
	return Val{T: rt, S: e.define("trimmed", "Str", fmt.Sprintf("(ssub %s %s %s)", s, a, b))}
}

func hasPrefixTerm(e *Engine, s, p string) string {
	return fmt.Sprintf("(and (>= (slen %s) (slen %s)) (forall ((j Int)) (! (=> (and (<= 0 j) (< j (slen %s))) (= (sbyte %s j) (sbyte %s j))) :pattern ((sbyte %s j)))))", s, p, p, s, p, p)
}

func hasSuffixTerm(e *Engine, s, p string) string {
	return fmt.Sprintf("(and (>= (slen %s) (slen %s)) (forall ((j Int)) (! (=> (and (<= 0 j) (< j (slen %s))) (= (sbyte %s (+ (- (slen %s) (slen %s)) j)) (sbyte %s j))) :pattern ((sbyte %s j)))))", s, p, p, s, s, p, p, p)
}

func litPrefix(e *Engine, s string, lit string, suffix bool) string {
	var cs []string
	cs = append(cs, fmt.Sprintf("(>= (slen %s) %d)", s, len(lit)))
	for i := 0; i < len(lit); i++ {
		if suffix {
			cs = append(cs, fmt.Sprintf("(= (sbyte %s (+ (- (slen %s) %d) %d)) %d)", s, s, len(lit), i, lit[i]))
		} else {
			cs = append(cs, fmt.Sprintf("(= (sbyte %s %d) %d)", s, i, lit[i]))
		}
	}
	return sAnd(cs...)
}

func modelHasPrefix(f *Frame, st *State, cc *ssa.CallCommon, args []Val, rt types.Type, pos token.Pos) Val {
	e := f.e
	if lit, ok := e.strLitOf(cc.Args[1]); ok && len(lit) <= 32 {
		return Val{T: rt, S: e.define("hasp", "Bool", litPrefix(e, args[0].S, lit, false))}
	}
	return Val{T: rt, S: e.define("hasp", "Bool", hasPrefixTerm(e, args[0].S, args[1].S))}
}

func modelHasSuffix(f *Frame, st *State, cc *ssa.CallCommon, args []Val, rt types.Type, pos token.Pos) Val {
	e := f.e
	if lit, ok := e.strLitOf(cc.Args[1]); ok && len(lit) <= 32 {
		return Val{T: rt, S: e.define("hass", "Bool", litPrefix(e, args[0].S, lit, true))}
	}
	return Val{T: rt, S: e.define("hass", "Bool", hasSuffixTerm(e, args[0].S, args[1].S))}
}

func modelTrimSuffix(f *Frame, st *State, cc *ssa.CallCommon, args []Val, rt types.Type, pos token.Pos) Val {
	e := f.e
	s, p := args[0].S, args[1].S
	var has string
	if lit, ok := e.strLitOf(cc.Args[1]); ok && len(lit) <= 32 {
		has = e.define("hass", "Bool", litPrefix(e, s, lit, true))
	} else {
		has = e.define("hass", "Bool", hasSuffixTerm(e, s, p))
	}
	return Val{T: rt, S: e.define("trims", "Str", sIte(has, fmt.Sprintf("(ssub %s 0 (- (slen %s) (slen %s)))", s, s, p), s))}
}

func modelTrimPrefix(f *Frame, st *State, cc *ssa.CallCommon, args []Val, rt types.Type, pos token.Pos) Val {
	e := f.e
	s, p := args[0].S, args[1].S
	var has string
	if lit, ok := e.strLitOf(cc.Args[1]); ok && len(lit) <= 32 {
		has = e.define("hasp", "Bool", litPrefix(e, s, lit, false))
	} else {
		has = e.define("hasp", "Bool", hasPrefixTerm(e, s, p))
	}
	return Val{T: rt, S: e.define("trimp", "Str", sIte(has, fmt.Sprintf("(ssub %s (slen %s) (slen %s))", s, p, s), s))}
}

// strings.IndexByte: "returns the index of the first instance of c in s, or -1 if c is not present in s."
func modelIndexByte(f *Frame, st *State, cc *ssa.CallCommon, args []Val, rt types.Type, pos token.Pos) Val {
	e := f.e
	s, c := e.nameConst("ib.s", "Str", args[0].S), args[1].S
	p := e.freshConst("idx", "Int")
	e.assume("true", fmt.Sprintf("(and (<= (- 1) %s) (< %s (slen %s)) (=> (>= %s 0) (= (sbyte %s %s) %s)) (forall ((q Int)) (! (=> (and (<= 0 q) (< q (ite (>= %s 0) %s (slen %s)))) (not (= (sbyte %s q) %s))) :pattern ((sbyte %s q)))))",
		p, p, s, p, s, p, c, p, p, s, s, c, s))
	return Val{T: rt, S: p}
}

// ---- UTF-8

func (e *Engine) utf8Valid(s string) string {
	e.utf8dec(s, "0")
	e.sc.Decl("fun:utf8valid", `(declare-fun utf8.start (Str Int) Bool)
(declare-fun utf8.valid (Str) Bool)
(define-fun utf8.okat ((s Str) (i Int)) Bool (or (< (sbyte s i) 128) (utf8.w2 s i) (utf8.w3 s i) (utf8.w4 s i)))`)
	e.note("utf8valid/runes are uninterpreted up-to functions constrained only by step lemmas instantiated at loop positions")
	return fmt.Sprintf("(utf8.valid %s)", s)
}

func (e *Engine) runesUpto(s, i string) string {
	e.utf8dec(s, "0")
	// runes_upto(s, i): number of runes (valid or not) that start before byte offset i, for i on a rune boundary.
	// Only runes_upto(s,0)=0 is stated for all s; the step lemma runes_upto(s, i+width(s,i)) = runes_upto(s,i)+1 is
	// instantiated by the generator at the positions a range-over-string loop visits (a quantified version would be a
	// matching loop, and stating it for non-boundary positions together with non-negativity is inconsistent).
	e.sc.Decl("fun:runesupto", "(declare-fun utf8.runes_upto (Str Int) Int)\n(assert (forall ((s Str)) (! (= (utf8.runes_upto s 0) 0) :pattern ((utf8.runes_upto s 0)))))")
	return fmt.Sprintf("(utf8.runes_upto %s %s)", s, i)
}

// utf8.RuneCountInString(s) = number of runes = runes_upto(s, len(s))
func modelRuneCount(f *Frame, st *State, cc *ssa.CallCommon, args []Val, rt types.Type, pos token.Pos) Val {
	e := f.e
	v := Val{T: rt, S: e.define("rc", "Int", e.runesUpto(args[0].S, "(slen "+args[0].S+")"))}
	e.assume("true", fmt.Sprintf("(and (<= 0 %s) (<= %s (slen %s)))", v.S, v.S, args[0].S))
	return v
}

func modelValidString(f *Frame, st *State, cc *ssa.CallCommon, args []Val, rt types.Type, pos token.Pos) Val {
	e := f.e
	return Val{T: rt, S: e.utf8Valid(args[0].S)}
}

// utf8.DecodeRuneInString(s): first rune and its width; ("", RuneError, 0) for empty input; (RuneError, 1) for invalid encodings.
func modelDecodeRune(f *Frame, st *State, cc *ssa.CallCommon, args []Val, rt types.Type, pos token.Pos) Val {
	e := f.e
	s := args[0].S
	r, w := e.utf8dec(s, "0")
	empty := fmt.Sprintf("(= (slen %s) 0)", s)
	rv := e.define("dr", "Int", sIte(empty, "65533", r))
	wv := e.define("dw", "Int", sIte(empty, "0", w))
	tup := rt.(*types.Tuple)
	return Val{T: rt, Tuple: []Val{{T: tup.At(0).Type(), S: rv}, {T: tup.At(1).Type(), S: wv}}}
}

func modelRuneLen(f *Frame, st *State, cc *ssa.CallCommon, args []Val, rt types.Type, pos token.Pos) Val {
	e := f.e
	r := args[0].S
	return Val{T: rt, S: e.define("rl", "Int", fmt.Sprintf("(ite (< %s 0) (- 1) (ite (< %s 128) 1 (ite (< %s 2048) 2 (ite (and (<= 55296 %s) (<= %s 57343)) (- 1) (ite (< %s 65536) 3 (ite (<= %s 1114111) 4 (- 1)))))))", r, r, r, r, r, r, r))}
}

// ---- strings.Builder: content is a ghost Str per builder object, capacity a ghost Int.

func (e *Engine) builderKey(f *Frame, v Val) (string, bool) {
	l := e.locOf(f, v)
	if l == nil {
		return "", false
	}
	switch l.Kind {
	case LCell:
		return fmt.Sprintf("sb.cell.%s.%s", f.prefix, l.Cell.Name()), true
	case LHeap:
		return "sb.heap." + l.Base, true
	}
	return "", false
}

func (e *Engine) builderGet(st *State, key string) (content, cap string) {
	e.ghostDecl[key+".s"] = "Str"
	e.ghostDecl[key+".cap"] = "Int"
	c, ok := st.ghost[key+".s"]
	if !ok {
		c = "str.empty"
	}
	k, ok := st.ghost[key+".cap"]
	if !ok {
		k = "0"
	}
	return c, k
}

func modelBuilderGrow(f *Frame, st *State, cc *ssa.CallCommon, args []Val, rt types.Type, pos token.Pos) Val {
	e := f.e
	key, ok := e.builderKey(f, args[0])
	if !ok {
		return e.havocVal(rt, "sb", st)
	}
	e.check(f, st, "no-panic.grow", "strings.Builder.Grow: negative count", "(>= "+args[1].S+" 0)", pos)
	c, k := e.builderGet(st, key)
	// Grow(n): "after Grow(n), at least n bytes can be written without another allocation"; Grow(0) on an empty builder allocates nothing.
	nk := e.freshConst("sbcap", "Int")
	e.assume("true", fmt.Sprintf("(and (>= %s %s) (>= %s (+ (slen %s) %s)) (=> (and (= %s 0) (= %s 0)) (= %s 0)))", nk, k, nk, c, args[1].S, k, args[1].S, nk))
	st.ghost[key+".cap"] = nk
	return Val{T: rt}
}

func builderAppend(f *Frame, st *State, key string, add string, addLen string) {
	e := f.e
	c, k := e.builderGet(st, key)
	st.ghost[key+".s"] = e.define("sbs", "Str", fmt.Sprintf("(scat %s %s)", c, add))
	nk := e.freshConst("sbcap", "Int")
	e.assume("true", fmt.Sprintf("(and (>= %s %s) (>= %s (+ (slen %s) %s)) (=> (= %s 0) (= %s %s)))", nk, k, nk, c, addLen, addLen, nk, k))
	st.ghost[key+".cap"] = nk
}

func modelBuilderWriteString(f *Frame, st *State, cc *ssa.CallCommon, args []Val, rt types.Type, pos token.Pos) Val {
	e := f.e
	key, ok := e.builderKey(f, args[0])
	if !ok {
		return e.havocVal(rt, "sb", st)
	}
	if c, ok := cc.Args[1].(*ssa.Const); ok && c.Value != nil && c.Value.Kind() == constant.String && utf8.ValidString(constant.StringVal(c.Value)) {
		// a string constant whose bytes are well-formed UTF-8 (decided here, on the constant)
		e.assume("true", e.utf8Valid(args[1].S))
	}
	builderAppend(f, st, key, args[1].S, "(slen "+args[1].S+")")
	tup := rt.(*types.Tuple)
	return Val{T: rt, Tuple: []Val{{T: tup.At(0).Type(), S: "(slen " + args[1].S + ")"}, {T: tup.At(1).Type(), S: "iface.nil"}}}
}

func modelBuilderWriteByte(f *Frame, st *State, cc *ssa.CallCommon, args []Val, rt types.Type, pos token.Pos) Val {
	e := f.e
	key, ok := e.builderKey(f, args[0])
	if !ok {
		return e.havocVal(rt, "sb", st)
	}
	b := e.freshConst("bstr", "Str")
	e.assume("true", fmt.Sprintf("(and (= (slen %s) 1) (= (sbyte %s 0) %s))", b, b, args[1].S))
	builderAppend(f, st, key, b, "1")
	return Val{T: rt, S: "iface.nil"}
}

func modelBuilderWriteRune(f *Frame, st *State, cc *ssa.CallCommon, args []Val, rt types.Type, pos token.Pos) Val {
	e := f.e
	key, ok := e.builderKey(f, args[0])
	if !ok {
		return e.havocVal(rt, "sb", st)
	}
	// the UTF-8 encoding of r (RuneError for invalid runes): a string of 1..4 bytes that decodes to r
	b := e.freshConst("rstr", "Str")
	r := args[1].S
	rr, w := e.utf8dec(b, "0")
	valid := fmt.Sprintf("(and (<= 0 %s) (<= %s 1114111) (not (and (<= 55296 %s) (<= %s 57343))))", r, r, r, r)
	e.assume("true", fmt.Sprintf("(and (>= (slen %s) 1) (<= (slen %s) 4) (= %s (slen %s)) (= %s (ite %s %s 65533)) (=> (not %s) (= (slen %s) 3)) (=> (and %s (< %s 128)) (= (slen %s) 1)))", b, b, w, b, rr, valid, r, valid, b, valid, r, b))
	// what WriteRune appends is well-formed UTF-8 (the encoding of r, or of U+FFFD for an invalid r)
	e.assume("true", e.utf8Valid(b))
	builderAppend(f, st, key, b, "(slen "+b+")")
	tup := rt.(*types.Tuple)
	return Val{T: rt, Tuple: []Val{{T: tup.At(0).Type(), S: "(slen " + b + ")"}, {T: tup.At(1).Type(), S: "iface.nil"}}}
}

func modelBuilderString(f *Frame, st *State, cc *ssa.CallCommon, args []Val, rt types.Type, pos token.Pos) Val {
	e := f.e
	key, ok := e.builderKey(f, args[0])
	if !ok {
		return e.havocVal(rt, "sb", st)
	}
	c, _ := e.builderGet(st, key)
	return Val{T: rt, S: c}
}

func modelBuilderCap(f *Frame, st *State, cc *ssa.CallCommon, args []Val, rt types.Type, pos token.Pos) Val {
	e := f.e
	key, ok := e.builderKey(f, args[0])
	if !ok {
		return e.havocVal(rt, "sb", st)
	}
	_, k := e.builderGet(st, key)
	return Val{T: rt, S: k}
}

func modelBuilderLen(f *Frame, st *State, cc *ssa.CallCommon, args []Val, rt types.Type, pos token.Pos) Val {
	e := f.e
	key, ok := e.builderKey(f, args[0])
	if !ok {
		return e.havocVal(rt, "sb", st)
	}
	c, _ := e.builderGet(st, key)
	return Val{T: rt, S: "(slen " + c + ")"}
}

// ---- math

func modelIsNaN(f *Frame, st *State, cc *ssa.CallCommon, args []Val, rt types.Type, pos token.Pos) Val {
	return Val{T: rt, S: "(fp.isNaN " + args[0].S + ")"}
}

func modelIsInf(f *Frame, st *State, cc *ssa.CallCommon, args []Val, rt types.Type, pos token.Pos) Val {
	e := f.e
	x, sign := args[0].S, args[1].S
	zero := e.intLit(types.Typ[types.Int], "0")
	var gt, lt string
	if e.mode == "bv" {
		gt, lt = fmt.Sprintf("(bvsge %s %s)", sign, zero), fmt.Sprintf("(bvsle %s %s)", sign, zero)
	} else {
		gt, lt = fmt.Sprintf("(>= %s 0)", sign), fmt.Sprintf("(<= %s 0)", sign)
	}
	return Val{T: rt, S: e.define("isinf", "Bool", fmt.Sprintf("(or (and %s (fp.isInfinite %s) (fp.isPositive %s)) (and %s (fp.isInfinite %s) (fp.isNegative %s)))", gt, x, x, lt, x, x))}
}

func (e *Engine) float64bits(x string) string {
	// the IEEE bit pattern: an uninterpreted-by-name bit-vector b with to_fp(b) = x (NaN payloads unconstrained)
	b := e.freshConst("fbits", "(_ BitVec 64)")
	e.assume("true", fmt.Sprintf("(= ((_ to_fp 11 53) %s) %s)", b, x))
	if e.mode == "bv" {
		return b
	}
	return "(bv2nat " + b + ")"
}

func modelFloat64bits(f *Frame, st *State, cc *ssa.CallCommon, args []Val, rt types.Type, pos token.Pos) Val {
	return Val{T: rt, S: f.e.float64bits(args[0].S)}
}

func modelFloat64frombits(f *Frame, st *State, cc *ssa.CallCommon, args []Val, rt types.Type, pos token.Pos) Val {
	e := f.e
	if e.mode == "bv" {
		return Val{T: rt, S: fmt.Sprintf("((_ to_fp 11 53) %s)", args[0].S)}
	}
	return Val{T: rt, S: fmt.Sprintf("((_ to_fp 11 53) ((_ int2bv 64) %s))", args[0].S)}
}

func modelAbs(f *Frame, st *State, cc *ssa.CallCommon, args []Val, rt types.Type, pos token.Pos) Val {
	return Val{T: rt, S: "(fp.abs " + args[0].S + ")"}
}

// math.Frexp: "breaks f into a normalized fraction and an integral power of two. It returns frac and exp satisfying
// f == frac x 2**exp, with the absolute value of frac in the interval [1/2, 1)"; special cases: 0, Inf, NaN return (f, 0).
func modelFrexp(f *Frame, st *State, cc *ssa.CallCommon, args []Val, rt types.Type, pos token.Pos) Val {
	e := f.e
	x := args[0].S
	tup := rt.(*types.Tuple)
	// deterministic: frac and exp are functions of the argument
	expSort := e.sortOf(tup.At(1).Type())
	e.sc.Decl("fun:frexp", fmt.Sprintf("(declare-fun lib.math.FrexpFrac (%s) %s)\n(declare-fun lib.math.FrexpExp (%s) %s)", fp64, fp64, fp64, expSort))
	frac := fmt.Sprintf("(lib.math.FrexpFrac %s)", x)
	expT := fmt.Sprintf("(lib.math.FrexpExp %s)", x)
	special := fmt.Sprintf("(or (fp.isZero %s) (fp.isInfinite %s) (fp.isNaN %s))", x, x, x)
	zero := e.intLit(types.Typ[types.Int], "0")
	half := fpLit(0.5, false)
	one := fpLit(1, false)
	var bounds, scaled string
	if e.mode == "bv" {
		bounds = fmt.Sprintf("(and (bvsge %s %s) (bvsle %s %s))", expT, bvLit("-1073", 64), expT, bvLit("1024", 64))
		// frac * 2^exp == x, stated on the IEEE fields for normal numbers: the biased exponent of x is exp + 1022 and the
		// significand of frac equals the significand of x
		scaled = fmt.Sprintf("(=> (fp.isNormal %s) (and (= ((_ extract 62 52) (lib.math.bits %s)) ((_ extract 10 0) (bvadd %s (_ bv1022 64)))) (= ((_ extract 51 0) (lib.math.bits %s)) ((_ extract 51 0) (lib.math.bits %s))) (= ((_ extract 62 52) (lib.math.bits %s)) #b01111111110)))", x, x, expT, x, frac, frac)
		e.sc.Decl("fun:mathbits", fmt.Sprintf("(declare-fun lib.math.bits (%s) (_ BitVec 64))\n(assert (forall ((f %s)) (! (=> (not (fp.isNaN f)) (= ((_ to_fp 11 53) (lib.math.bits f)) f)) :pattern ((lib.math.bits f)))))", fp64, fp64))
	} else {
		bounds = fmt.Sprintf("(and (>= %s (- 1073)) (<= %s 1024))", expT, expT)
		scaled = "true"
	}
	e.assume("true", fmt.Sprintf("(ite %s (and (= %s %s) (= %s %s)) (and (fp.leq %s (fp.abs %s)) (fp.lt (fp.abs %s) %s) (= (fp.isNegative %s) (fp.isNegative %s)) %s %s))",
		special, frac, x, expT, zero, half, frac, frac, one, frac, x, bounds, scaled))
	return Val{T: rt, Tuple: []Val{{T: tup.At(0).Type(), S: e.nameConst("frac", fp64, frac)}, {T: tup.At(1).Type(), S: e.nameConst("fexp", expSort, expT)}}}
}

// sort.SearchFloat64s(a, x): "returns the index to insert x if x is not present (it could be len(a)). The slice must be sorted in ascending order":
// the smallest i in [0, len(a)] with a[i] >= x (binary search result on a sorted slice).
func modelSearchFloat64s(f *Frame, st *State, cc *ssa.CallCommon, args []Val, rt types.Type, pos token.Pos) Val {
	e := f.e
	a, x := args[0].S, args[1].S
	h := e.getHeapA(st, fp64)
	at := func(i string) string {
		return fmt.Sprintf("(select (select %s (s.arr %s)) (+ (s.off %s) %s))", h, a, a, i)
	}
	i := e.freshConst("search", "Int")
	// For a sorted slice without NaNs: all elements before i are < x, a[i] >= x.
	e.assume(st.cond, fmt.Sprintf("(and (<= 0 %s) (<= %s (s.len %s)))", i, i, a))
	sorted := fmt.Sprintf("(forall ((p Int) (q Int)) (=> (and (<= 0 p) (< p q) (< q (s.len %s))) (fp.leq %s %s)))", a, at("p"), at("q"))
	e.assume("true", fmt.Sprintf("(=> %s (and (forall ((q Int)) (! (=> (and (<= 0 q) (< q %s)) (not (fp.geq %s %s))) :pattern (%s))) (=> (< %s (s.len %s)) (fp.geq %s %s))))",
		sorted, i, at("q"), x, at("q"), i, a, at(i), x))
	if e.mode == "bv" {
		return Val{T: rt, S: "((_ int2bv 64) " + i + ")"}
	}
	return Val{T: rt, S: i}
}

// slices.Clone: "returns a copy of the slice. The elements are copied using assignment" (nil stays nil).
func modelSlicesClone(f *Frame, st *State, cc *ssa.CallCommon, args []Val, rt types.Type, pos token.Pos) Val {
	e := f.e
	s := args[0].S
	sl := rt.Underlying().(*types.Slice)
	srt := e.sortOf(sl.Elem())
	h := e.getHeapA(st, srt)
	arr := e.alloc(st)
	na := e.freshConst("arr", "(Array Int "+srt+")")
	e.assume("true", fmt.Sprintf("(forall ((i Int)) (! (=> (and (<= 0 i) (< i (s.len %s))) (= (select %s i) (select (select %s (s.arr %s)) (+ (s.off %s) i)))) :pattern ((select %s i))))", s, na, h, s, s, na))
	st.heapA[srt] = e.define("ha", e.heapASort(srt), fmt.Sprintf("(store %s %s %s)", h, arr, na))
	cp := e.freshConst("cap", "Int")
	e.assume(st.cond, fmt.Sprintf("(and (>= %s (s.len %s)) (<= %s 4611686018427387904))", cp, s, cp))
	return Val{T: rt, S: e.define("clone", "Slice", sIte(fmt.Sprintf("(= (s.arr %s) 0)", s), "(mk-slice 0 0 0 0)", fmt.Sprintf("(mk-slice %s 0 (s.len %s) %s)", arr, s, cp)))}
}

// ---- wall clock: a ghost monotone clock. Every call whose duration is unknown (function values, interface methods,
// unmodelled callees, channel operations, time.Now/Since themselves) advances it by an arbitrary non-negative amount.
func (e *Engine) clockNow(st *State) string {
	e.ghostDecl["lib.clock"] = "Int"
	c, _ := e.getGhost(st, "lib.clock")
	return c
}

func (e *Engine) tick(st *State) {
	if st == nil {
		return
	}
	c := e.clockNow(st)
	n := e.freshConst("clock", "Int")
	e.assume("true", fmt.Sprintf("(>= %s %s)", n, c))
	st.ghost["lib.clock"] = n
}

func (e *Engine) timeUnix(t Val) string {
	e.sc.Decl("fun:time.unixns", fmt.Sprintf("(declare-fun lib.time.clockOf (%s) Int)", e.valSort(t)))
	return fmt.Sprintf("(lib.time.clockOf %s)", t.S)
}

// time.Now: "returns the current local time" - the ghost clock after an arbitrary advance.
func modelTimeNow(f *Frame, st *State, cc *ssa.CallCommon, args []Val, rt types.Type, pos token.Pos) Val {
	e := f.e
	e.tick(st)
	v := e.havocVal(rt, "now", st)
	e.assume("true", fmt.Sprintf("(= %s %s)", e.timeUnix(v), e.clockNow(st)))
	e.assumed["time.Now/time.Since read a monotone non-decreasing clock"] = true
	return v
}

// time.Since(t): "returns the time elapsed since t" = now - t on the monotone clock.
func modelTimeSince(f *Frame, st *State, cc *ssa.CallCommon, args []Val, rt types.Type, pos token.Pos) Val {
	e := f.e
	e.tick(st)
	e.assumed["time.Now/time.Since read a monotone non-decreasing clock"] = true
	term := fmt.Sprintf("(- %s %s)", e.clockNow(st), e.timeUnix(args[0]))
	if e.mode == "bv" {
		return e.havocVal(rt, "since", st)
	}
	v := Val{T: rt, S: e.define("since", "Int", term)}
	e.assumeTyping(st, v)
	return v
}

func modelTimeIsZero(f *Frame, st *State, cc *ssa.CallCommon, args []Val, rt types.Type, pos token.Pos) Val {
	e := f.e
	e.sc.Decl("fun:time.iszero", fmt.Sprintf("(declare-fun lib.time.IsZero (%s) Bool)", e.valSort(args[0])))
	zero := e.zero(args[0].T)
	e.sc.Decl("ax:time.iszero", fmt.Sprintf("(assert (lib.time.IsZero %s))", zero))
	return Val{T: rt, S: fmt.Sprintf("(lib.time.IsZero %s)", args[0].S)}
}

// binary.BigEndian.Uint64(b): b[7] | b[6]<<8 | ... | b[0]<<56 ; panics unless len(b) >= 8.
func modelBE64(f *Frame, st *State, cc *ssa.CallCommon, args []Val, rt types.Type, pos token.Pos) Val {
	e := f.e
	b := args[len(args)-1]
	e.check(f, st, "no-panic.index", "binary.BigEndian.Uint64 needs 8 bytes", fmt.Sprintf("(>= (s.len %s) 8)", b.S), pos)
	srt := e.sortOf(types.Typ[types.Uint8])
	h := e.getHeapA(st, srt)
	at := func(i int) string {
		return fmt.Sprintf("(select (select %s (s.arr %s)) (+ (s.off %s) %d))", h, b.S, b.S, i)
	}
	if e.mode == "bv" {
		var parts []string
		for i := 0; i < 8; i++ {
			parts = append(parts, at(i))
		}
		return Val{T: rt, S: e.define("be64", "(_ BitVec 64)", "(concat "+strings.Join(parts, " ")+")")}
	}
	var parts []string
	mul := []string{"72057594037927936", "281474976710656", "1099511627776", "4294967296", "16777216", "65536", "256", "1"}
	for i := 0; i < 8; i++ {
		parts = append(parts, fmt.Sprintf("(* %s %s)", at(i), mul[i]))
	}
	return Val{T: rt, S: e.define("be64", "Int", "(+ "+strings.Join(parts, " ")+")")}
}

// bytes.Equal: "reports whether a and b are the same length and contain the same bytes".
func modelBytesEqual(f *Frame, st *State, cc *ssa.CallCommon, args []Val, rt types.Type, pos token.Pos) Val {
	e := f.e
	a, b := args[0].S, args[1].S
	srt := e.sortOf(types.Typ[types.Uint8])
	h := e.getHeapA(st, srt)
	q := e.fresh("q.i")
	return Val{T: rt, S: e.define("beq", "Bool", fmt.Sprintf("(and (= (s.len %s) (s.len %s)) (forall ((%s Int)) (=> (and (<= 0 %s) (< %s (s.len %s))) (= (select (select %s (s.arr %s)) (+ (s.off %s) %s)) (select (select %s (s.arr %s)) (+ (s.off %s) %s))))))",
		a, b, q, q, q, a, h, a, a, q, h, b, b, q))}
}

// os.Getenv: "retrieves the value of the environment variable named by the key": a deterministic function of the key
// for the duration of one verified call (the environment is assumed not to change meanwhile).
func (e *Engine) getenvTerm(key string) string {
	e.sc.Decl("fun:getenv", "(declare-fun lib.os.Getenv (Str) Str)")
	e.assumed["the process environment does not change during one call (os.Getenv is a function of the key)"] = true
	return fmt.Sprintf("(lib.os.Getenv %s)", key)
}

func modelGetenv(f *Frame, st *State, cc *ssa.CallCommon, args []Val, rt types.Type, pos token.Pos) Val {
	return Val{T: rt, S: f.e.getenvTerm(args[0].S)}
}

// strconv.Atoi: a deterministic partial function of the string: (value, nil) or (0, error).
func (e *Engine) atoiTerms(s string) (val, ok string) {
	e.sc.Decl("fun:atoi", "(declare-fun lib.strconv.AtoiVal (Str) Int)\n(declare-fun lib.strconv.AtoiOK (Str) Bool)\n(assert (forall ((s Str)) (! (and (<= (- 9223372036854775808) (lib.strconv.AtoiVal s)) (<= (lib.strconv.AtoiVal s) 9223372036854775807)) :pattern ((lib.strconv.AtoiVal s)))))")
	return fmt.Sprintf("(lib.strconv.AtoiVal %s)", s), fmt.Sprintf("(lib.strconv.AtoiOK %s)", s)
}

func modelAtoi(f *Frame, st *State, cc *ssa.CallCommon, args []Val, rt types.Type, pos token.Pos) Val {
	e := f.e
	v, ok := e.atoiTerms(args[0].S)
	tup := rt.(*types.Tuple)
	errv := e.havocVal(tup.At(1).Type(), "atoierr", st)
	e.assume("true", fmt.Sprintf("(= (= %s iface.nil) %s)", errv.S, ok))
	val := v
	if e.mode == "bv" {
		val = "((_ int2bv 64) " + v + ")"
	}
	return Val{T: rt, Tuple: []Val{{T: tup.At(0).Type(), S: e.define("atoi", e.sortOf(tup.At(0).Type()), sIte(ok, val, e.zero(tup.At(0).Type())))}, errv}}
}

// model.EscapeName (prometheus/common, external): assumed to return a non-empty name for a non-empty input.
func modelEscapeName(f *Frame, st *State, cc *ssa.CallCommon, args []Val, rt types.Type, pos token.Pos) Val {
	e := f.e
	v := e.havocVal(rt, "escaped", st)
	e.assume("true", fmt.Sprintf("(=> (>= (slen %s) 1) (>= (slen %s) 1))", args[0].S, v.S))
	return v
}

// cmp.Compare(x, y): "-1 if x is less than y, 0 if x equals y, +1 if x is greater than y" (strings and integers).
func modelCmpCompare(f *Frame, st *State, cc *ssa.CallCommon, args []Val, rt types.Type, pos token.Pos) Val {
	e := f.e
	lt := e.binop(f, st, token.LSS, args[0], args[1], types.Typ[types.Bool], pos)
	eq := e.binop(f, st, token.EQL, args[0], args[1], types.Typ[types.Bool], pos)
	b, _ := isInt(rt)
	return Val{T: rt, S: e.define("cmp", e.sortOf(rt), sIte(lt.S, e.intLit(b, "-1"), sIte(eq.S, e.intLit(b, "0"), e.intLit(b, "1"))))}
}

// slices.SortStableFunc(x, cmp): "sorts the slice x while keeping the original order of equal elements, using cmp to compare
// elements". Model: afterwards cmp(x[p], x[q]) <= 0 for all p < q, and the new contents are a stable rearrangement given by a
// witness bijection src (new position -> old position) that is increasing on cmp-equal elements. The comparator must be a
// closure with a pure contract (its ensures is assumed for all arguments, it is proved on the closure itself).
func modelSortStableFunc(f *Frame, st *State, cc *ssa.CallCommon, args []Val, rt types.Type, pos token.Pos) Val {
	e := f.e
	x, cmpv := args[0], args[1]
	sl := x.T.Underlying().(*types.Slice)
	srt := e.sortOf(sl.Elem())
	h := e.getHeapA(st, srt)
	if cmpv.Fn == nil {
		e.note("slices.SortStableFunc with an unknown comparator: slice contents havocked")
		e.havocLoc(st, modLoc{kind: "elems", base: "(s.arr " + x.S + ")", rootT: sl.Elem(), slice: x.S})
		return Val{T: rt}
	}
	c := e.P.ContractFor(cmpv.Fn.Fn)
	if c == nil || !c.Pure {
		e.note("slices.SortStableFunc: comparator %s has no pure contract: slice contents havocked", funcKey(cmpv.Fn.Fn))
		e.havocLoc(st, modLoc{kind: "elems", base: "(s.arr " + x.S + ")", rootT: sl.Elem(), slice: x.S})
		return Val{T: rt}
	}
	e.usedContracts[c.Pkg+"."+c.Key] = true
	xs := e.nameConst("sort.x", "Slice", x.S)
	na := e.freshConst("sorted", "(Array Int "+srt+")")
	src := e.freshConst("sort.src", "(Array Int Int)")
	old := e.nameConst("sort.old", "(Array Int "+srt+")", fmt.Sprintf("(select %s (s.arr %s))", h, xs))
	lo := "(s.off " + xs + ")"
	hi := "(+ (s.off " + xs + ") (s.len " + xs + "))"
	it := types.Typ[types.Int]
	app := func(a, b string) string {
		v, _ := e.pureApply(c, 0, it, []Val{{T: sl.Elem(), S: a}, {T: sl.Elem(), S: b}})
		return v.S
	}
	// comparator facts for all arguments (its proved postcondition)
	qa, qb := e.fresh("q.a"), e.fresh("q.b")
	ctx := &EvalCtx{st: st, old: st, binds: map[string]Val{}, results: []Val{{T: it, S: app(qa, qb)}}, resNames: c.ResultNames}
	ctx.pkg = funcTypesPkg(cmpv.Fn.Fn)
	ctx.cf = e.P.Contracts[funcPkgPath(cmpv.Fn.Fn)]
	ctx.paramVals = map[string]Val{}
	for i, p := range cmpv.Fn.Fn.Params {
		v := Val{T: p.Type(), S: []string{qa, qb}[i%2]}
		ctx.paramVals[p.Name()] = v
		if i < len(c.ParamNames) {
			ctx.paramVals[c.ParamNames[i]] = v
		}
	}
	var facts []string
	for _, en := range c.Ensures {
		if g, err := e.evalBool(ctx, en.E); err == nil {
			facts = append(facts, g)
		}
	}
	if len(facts) > 0 {
		e.sc.Line(fmt.Sprintf("(assert (forall ((%s %s) (%s %s)) (! %s :pattern (%s))))", qa, srt, qb, srt, sAnd(facts...), app(qa, qb)))
	}
	// outside the slice nothing changes; inside: sorted, and a stable permutation of the old contents
	e.assume("true", fmt.Sprintf("(forall ((q.i Int)) (! (=> (or (< q.i %s) (>= q.i %s)) (= (select %s q.i) (select %s q.i))) :pattern ((select %s q.i))))", lo, hi, na, old, na))
	e.assume("true", fmt.Sprintf("(forall ((q.p Int) (q.q Int)) (! (=> (and (<= %s q.p) (< q.p q.q) (< q.q %s)) (<= %s 0)) :pattern ((select %s q.p) (select %s q.q))))", lo, hi, app("(select "+na+" q.p)", "(select "+na+" q.q)"), na, na))
	e.assume("true", fmt.Sprintf("(forall ((q.p Int)) (! (=> (and (<= %s q.p) (< q.p %s)) (and (<= %s (select %s q.p)) (< (select %s q.p) %s) (= (select %s q.p) (select %s (select %s q.p))))) :pattern ((select %s q.p))))", lo, hi, lo, src, src, hi, na, old, src, na))
	e.assume("true", fmt.Sprintf("(forall ((q.p Int) (q.q Int)) (! (=> (and (<= %s q.p) (< q.p q.q) (< q.q %s)) (not (= (select %s q.p) (select %s q.q)))) :pattern ((select %s q.p) (select %s q.q))))", lo, hi, src, src, src, src))
	e.assume("true", fmt.Sprintf("(forall ((q.p Int) (q.q Int)) (! (=> (and (<= %s q.p) (< q.p q.q) (< q.q %s) (= %s 0)) (< (select %s q.p) (select %s q.q))) :pattern ((select %s q.p) (select %s q.q))))", lo, hi, app("(select "+na+" q.p)", "(select "+na+" q.q)"), src, src, src, src))
	st.heapA[srt] = e.define("ha", e.heapASort(srt), fmt.Sprintf("(store %s (s.arr %s) %s)", h, xs, na))
	e.sortSrc = src
	return Val{T: rt}
}

// slices.Grow(s, n): "increases the slice's capacity, if necessary, to guarantee space for another n elements. After Grow(n),
// at least n elements can be appended to the slice without another allocation. If n is negative or too large to allocate the
// memory, Grow panics." Same length and elements; either the same slice (enough capacity) or a fresh backing array.
func modelSlicesGrow(f *Frame, st *State, cc *ssa.CallCommon, args []Val, rt types.Type, pos token.Pos) Val {
	e := f.e
	s, n := args[0].S, e.idxTerm(args[1])
	e.check(f, st, "no-panic.grow", "slices.Grow: negative count", "(>= "+n+" 0)", pos)
	sl := rt.Underlying().(*types.Slice)
	srt := e.sortOf(sl.Elem())
	h := e.getHeapA(st, srt)
	fits := e.define("growfits", "Bool", fmt.Sprintf("(<= (+ (s.len %s) %s) (s.cap %s))", s, n, s))
	arr := e.alloc(st)
	na := e.freshConst("arr", "(Array Int "+srt+")")
	e.assume("true", fmt.Sprintf("(forall ((q.i Int)) (! (=> (and (<= 0 q.i) (< q.i (s.len %s))) (= (select %s q.i) (select (select %s (s.arr %s)) (+ (s.off %s) q.i)))) :pattern ((select %s q.i))))", s, na, h, s, s, na))
	cp := e.freshConst("cap", "Int")
	e.assume(st.cond, fmt.Sprintf("(and (>= %s (+ (s.len %s) %s)) (<= %s 4611686018427387904))", cp, s, n, cp))
	st.heapA[srt] = e.define("ha", e.heapASort(srt), sIte(fits, h, fmt.Sprintf("(store %s %s %s)", h, arr, na)))
	return Val{T: rt, S: e.define("grown", "Slice", sIte(fits, s, fmt.Sprintf("(mk-slice %s 0 (s.len %s) %s)", arr, s, cp)))}
}

// encoding/hex.Decode(dst, src): "Decode expects that src contains only hexadecimal characters and that src has even length.
// If the input is malformed, Decode returns the number of bytes decoded before the error." Model (mode int): with
// hv(c) the value of a hexadecimal digit of either case (-1 otherwise): if len(src) is even and every byte is a hex digit, then
// n == len(src)/2, err == nil and dst[j] == 16*hv(src[2j]) + hv(src[2j+1]) for j < n; otherwise err != nil and 0 <= n <= len(src)/2.
// dst must hold len(src)/2 bytes (obligation). Only dst[0 .. len(src)/2) is written.
func modelHexDecode(f *Frame, st *State, cc *ssa.CallCommon, args []Val, rt types.Type, pos token.Pos) Val {
	e := f.e
	tup := rt.(*types.Tuple)
	if e.mode == "bv" {
		return e.havocVal(rt, "hexdec", st)
	}
	dst, src := args[0].S, args[1].S
	e.sc.Decl("fun:hexval", "(define-fun hex.val ((c Int)) Int (ite (and (<= 48 c) (<= c 57)) (- c 48) (ite (and (<= 97 c) (<= c 102)) (- c 87) (ite (and (<= 65 c) (<= c 70)) (- c 55) (- 1)))))")
	bsort := e.sortOf(types.Typ[types.Uint8])
	h := e.getHeapA(st, bsort)
	srcAt := func(i string) string {
		return fmt.Sprintf("(select (select %s (s.arr %s)) (+ (s.off %s) %s))", h, src, src, i)
	}
	e.check(f, st, "no-panic.hexdecode", "hex.Decode: dst holds at least len(src)/2 bytes", fmt.Sprintf("(>= (s.len %s) (div (s.len %s) 2))", dst, src), pos)
	allHex := e.define("hexok", "Bool", fmt.Sprintf("(and (= (mod (s.len %s) 2) 0) (forall ((i Int)) (! (=> (and (<= 0 i) (< i (s.len %s))) (>= (hex.val %s) 0)) :pattern (%s))))", src, src, srcAt("i"), srcAt("i")))
	n := e.freshConst("hexn", "Int")
	errv := e.freshConst("hexerr", "Iface")
	// new content of dst's array
	na := e.freshConst("hexdst", "(Array Int "+bsort+")")
	old := fmt.Sprintf("(select %s (s.arr %s))", h, dst)
	half := fmt.Sprintf("(div (s.len %s) 2)", src)
	e.assume(st.cond, fmt.Sprintf("(and (<= 0 %s) (<= %s %s) (= (= %s iface.nil) %s) (=> %s (= %s %s)))", n, n, half, errv, allHex, allHex, n, half))
	// frame: outside dst[0..half) unchanged; inside (when ok): decoded
	e.assume(st.cond, fmt.Sprintf("(forall ((k Int)) (! (=> (or (< k (s.off %s)) (>= k (+ (s.off %s) %s))) (= (select %s k) (select %s k))) :pattern ((select %s k))))", dst, dst, half, na, old, na))
	e.assume(st.cond, fmt.Sprintf("(=> %s (forall ((j Int)) (! (=> (and (<= 0 j) (< j %s)) (= (select %s (+ (s.off %s) j)) (+ (* 16 (hex.val %s)) (hex.val %s)))) :pattern ((select %s (+ (s.off %s) j))))))", allHex, half, na, dst, srcAt("(* 2 j)"), srcAt("(+ (* 2 j) 1)"), na, dst))
	st.heapA[bsort] = e.define("ha", e.heapASort(bsort), fmt.Sprintf("(store %s (s.arr %s) %s)", h, dst, na))
	return Val{T: rt, Tuple: []Val{{T: tup.At(0).Type(), S: n}, {T: tup.At(1).Type(), S: errv}}}
}
