package main

// Loop cutting with invariants; effect (frame) inference for loop havoc.

import (
	"fmt"
	"go/token"
	"go/types"
	"sort"
	"strings"

	"golang.org/x/tools/go/ssa"
)

type heapTarget struct {
	base   ssa.Value    // pointer / slice / map value defined outside the loop; nil = unknown (whole heap)
	fields map[int]bool // heapP: top-level fields written; nil = whole object
	baseTerm string     // explicit term (from modifies clauses)
	capWin   bool       // heapA: writes may reach up to cap (append/copy), not just len
}

type effects struct {
	cells   map[*ssa.Alloc]bool
	heapP   map[string][]heapTarget // sort -> targets
	heapPT  map[string]types.Type
	heapA   map[string][]heapTarget
	heapAT  map[string]types.Type
	maps    map[string][]heapTarget
	mapT    map[string]*types.Map
	globals map[*ssa.Global]bool
	iters   map[*ssa.Range]bool
	ghosts  map[string]bool
	allocs  bool
	unknownCalls []string
}

func newEffects() *effects {
	return &effects{cells: map[*ssa.Alloc]bool{}, heapP: map[string][]heapTarget{}, heapPT: map[string]types.Type{}, heapA: map[string][]heapTarget{},
		heapAT: map[string]types.Type{}, maps: map[string][]heapTarget{}, mapT: map[string]*types.Map{}, globals: map[*ssa.Global]bool{},
		iters: map[*ssa.Range]bool{}, ghosts: map[string]bool{}}
}

func (f *Frame) definedOutside(v ssa.Value, blocks map[*ssa.BasicBlock]bool) bool {
	switch x := v.(type) {
	case *ssa.Parameter, *ssa.Const, *ssa.Global, *ssa.FreeVar, *ssa.Function:
		return true
	case ssa.Instruction:
		return !blocks[x.Block()]
	}
	return false
}

// addrRoot walks an address expression to its root and records the effect of a store through it.
func (f *Frame) storeEffect(addr ssa.Value, blocks map[*ssa.BasicBlock]bool, ef *effects) {
	e := f.e
	field := -1
	whole := true
	v := addr
	for {
		switch x := v.(type) {
		case *ssa.FieldAddr:
			field = x.Field
			whole = false
			// does the base resolve to a heap pointer directly?
			v = x.X
			if _, isAddr := x.X.(*ssa.FieldAddr); isAddr {
				continue
			}
			if _, isAddr := x.X.(*ssa.IndexAddr); isAddr {
				field = -1
				whole = true
				continue
			}
			if a, ok := x.X.(*ssa.Alloc); ok {
				if val, ok := f.vals[a]; ok && val.Loc != nil && val.Loc.Kind == LCell {
					ef.cells[a] = true
					return
				}
				if _, isArr := a.Type().(*types.Pointer).Elem().Underlying().(*types.Array); isArr {
					continue
				}
				if _, known := f.vals[a]; !known && !allocEscapes(a) {
					ef.cells[a] = true
					return
				}
			}
			// pointer value base
			pt := x.X.Type().Underlying().(*types.Pointer).Elem()
			srt := e.sortOf(pt)
			ef.heapPT[srt] = pt
			t := heapTarget{}
			if f.definedOutside(x.X, blocks) {
				t.base = x.X
				t.fields = map[int]bool{field: true}
			}
			ef.heapP[srt] = append(ef.heapP[srt], t)
			return
		case *ssa.IndexAddr:
			switch u := x.X.Type().Underlying().(type) {
			case *types.Slice:
				srt := e.sortOf(u.Elem())
				ef.heapAT[srt] = u.Elem()
				t := heapTarget{}
				if f.definedOutside(x.X, blocks) {
					t.base = x.X
				}
				ef.heapA[srt] = append(ef.heapA[srt], t)
				return
			case *types.Pointer:
				at := u.Elem().Underlying().(*types.Array)
				if a, ok := x.X.(*ssa.Alloc); ok {
					srt := e.sortOf(at.Elem())
					ef.heapAT[srt] = at.Elem()
					t := heapTarget{}
					if f.definedOutside(a, blocks) {
						t.base = a
					}
					ef.heapA[srt] = append(ef.heapA[srt], t)
					return
				}
				v = x.X
				whole = true
				field = -1
				continue
			}
			return
		case *ssa.Alloc:
			if val, ok := f.vals[x]; ok && val.Loc != nil && val.Loc.Kind == LCell {
				ef.cells[x] = true
				return
			}
			et := x.Type().(*types.Pointer).Elem()
			if at, isArr := et.Underlying().(*types.Array); isArr {
				srt := e.sortOf(at.Elem())
				ef.heapAT[srt] = at.Elem()
				t := heapTarget{}
				if f.definedOutside(x, blocks) {
					t.base = x
				}
				ef.heapA[srt] = append(ef.heapA[srt], t)
				return
			}
			if _, known := f.vals[x]; !known && !allocEscapes(x) {
				ef.cells[x] = true
				return
			}
			srt := e.sortOf(et)
			ef.heapPT[srt] = et
			t := heapTarget{}
			if f.definedOutside(x, blocks) {
				t.base = x
			}
			ef.heapP[srt] = append(ef.heapP[srt], t)
			return
		case *ssa.Global:
			ef.globals[x] = true
			return
		default:
			// pointer value
			if p, ok := v.Type().Underlying().(*types.Pointer); ok {
				srt := e.sortOf(p.Elem())
				ef.heapPT[srt] = p.Elem()
				t := heapTarget{}
				if f.definedOutside(v, blocks) {
					t.base = v
					if !whole && field >= 0 {
						t.fields = map[int]bool{field: true}
					}
				}
				ef.heapP[srt] = append(ef.heapP[srt], t)
			}
			return
		}
	}
}

func (f *Frame) scanEffects(blocks map[*ssa.BasicBlock]bool, ef *effects, depth int) {
	e := f.e
	// ghost variables assigned by a `ghost@<site>` clause of the contract under verification may be assigned in any loop
	// (the site may lie in the loop body): they are loop-modified, only the invariants say what is known about them
	if depth == 0 && e.C != nil {
		for i := range e.C.Sites {
			if sc := &e.C.Sites[i]; sc.Kind == "ghost" && sc.Site != "entry" {
				ef.ghosts[sc.Var] = true
			}
		}
	}
	var bl []*ssa.BasicBlock
	for b := range blocks {
		bl = append(bl, b)
	}
	sort.Slice(bl, func(i, j int) bool { return bl[i].Index < bl[j].Index })
	for _, b := range bl {
		for _, instr := range b.Instrs {
			switch in := instr.(type) {
			case *ssa.Select:
				ef.ghosts["$sel"] = true
				e.ghostDecl["$sel"] = "Int"
			case *ssa.Store:
				f.storeEffect(in.Addr, blocks, ef)
			case *ssa.MapUpdate:
				mt := in.Map.Type().Underlying().(*types.Map)
				k := e.mapKey(mt)
				ef.mapT[k] = mt
				t := heapTarget{}
				if f.definedOutside(in.Map, blocks) {
					t.base = in.Map
				}
				ef.maps[k] = append(ef.maps[k], t)
			case *ssa.Next:
				if r, ok := in.Iter.(*ssa.Range); ok {
					ef.iters[r] = true
				}
			case *ssa.Range:
				ef.iters[in] = true
			case *ssa.Alloc, *ssa.MakeSlice, *ssa.MakeMap, *ssa.MakeChan, *ssa.MakeClosure:
				ef.allocs = true
				if a, ok := in.(*ssa.Alloc); ok {
					if !allocEscapes(a) {
						if _, isArr := a.Type().(*types.Pointer).Elem().Underlying().(*types.Array); !isArr {
							ef.cells[a] = true
						}
					}
				}
			case *ssa.Convert:
				ef.allocs = true
			case ssa.CallInstruction:
				f.callEffects(in, blocks, ef, depth)
			}
		}
	}
}

func (f *Frame) callEffects(in ssa.CallInstruction, blocks map[*ssa.BasicBlock]bool, ef *effects, depth int) {
	e := f.e
	cc := in.Common()
	ef.allocs = true
	if bi, ok := cc.Value.(*ssa.Builtin); ok {
		switch bi.Name() {
		case "append", "copy":
			sl := cc.Args[0]
			if st, ok := sl.Type().Underlying().(*types.Slice); ok {
				srt := e.sortOf(st.Elem())
				ef.heapAT[srt] = st.Elem()
				t := heapTarget{capWin: true}
				if f.definedOutside(sl, blocks) {
					t.base = sl
				}
				ef.heapA[srt] = append(ef.heapA[srt], t)
			}
		case "delete", "clear":
			if mt, ok := cc.Args[0].Type().Underlying().(*types.Map); ok {
				k := e.mapKey(mt)
				ef.mapT[k] = mt
				t := heapTarget{}
				if f.definedOutside(cc.Args[0], blocks) {
					t.base = cc.Args[0]
				}
				ef.maps[k] = append(ef.maps[k], t)
			} else if st, ok := cc.Args[0].Type().Underlying().(*types.Slice); ok {
				srt := e.sortOf(st.Elem())
				ef.heapAT[srt] = st.Elem()
				t := heapTarget{}
				if f.definedOutside(cc.Args[0], blocks) {
					t.base = cc.Args[0]
				}
				ef.heapA[srt] = append(ef.heapA[srt], t)
			}
		}
		return
	}
	callee := cc.StaticCallee()
	if callee == nil {
		if mc, ok := cc.Value.(*ssa.MakeClosure); ok {
			callee = mc.Fn.(*ssa.Function)
		}
	}
	var c *Contract
	if callee != nil {
		c = e.P.ContractFor(callee)
	} else if cc.IsInvoke() {
		c = e.ifaceContract(cc)
	}
	if c != nil && !c.Inline {
		for _, m := range c.Modifies {
			f.modifiesEffect(c, callee, cc, m, blocks, ef)
		}
		for _, g := range c.Ghosts {
			ef.ghosts[g] = true
		}
		return
	}
	if callee != nil {
		if model := libModelEffects(callee); model != nil {
			model(f, cc, blocks, ef)
			return
		}
		if len(callee.Blocks) > 0 && depth < 3 && e.inlinable(callee) {
			// inlined callee: scan its body; stores through its own parameters are attributed conservatively
			sub := e.newFrame(callee, f)
			all := map[*ssa.BasicBlock]bool{}
			for _, b := range callee.Blocks {
				all[b] = true
			}
			sef := newEffects()
			sub.scanEffects(all, sef, depth+1)
			// merge: everything from the callee counts as unknown-base
			for k, ts := range sef.heapP {
				ef.heapPT[k] = sef.heapPT[k]
				for range ts {
					ef.heapP[k] = append(ef.heapP[k], heapTarget{})
				}
			}
			for k, ts := range sef.heapA {
				ef.heapAT[k] = sef.heapAT[k]
				for range ts {
					ef.heapA[k] = append(ef.heapA[k], heapTarget{})
				}
			}
			for k, ts := range sef.maps {
				ef.mapT[k] = sef.mapT[k]
				for range ts {
					ef.maps[k] = append(ef.maps[k], heapTarget{})
				}
			}
			for g := range sef.globals {
				ef.globals[g] = true
			}
			for g := range sef.ghosts {
				ef.ghosts[g] = true
			}
			return
		}
	}
	name := "?"
	if callee != nil {
		name = callee.String()
	} else if cc.IsInvoke() {
		name = cc.Method.FullName()
	} else {
		// unknown function value: writes through pointer arguments
		for _, a := range cc.Args {
			if p, ok := a.Type().Underlying().(*types.Pointer); ok {
				srt := e.sortOf(p.Elem())
				ef.heapPT[srt] = p.Elem()
				t := heapTarget{}
				if f.definedOutside(a, blocks) {
					t.base = a
				}
				ef.heapP[srt] = append(ef.heapP[srt], t)
			}
		}
		name = "func value " + cc.Value.Name()
	}
	ef.unknownCalls = append(ef.unknownCalls, name)
}

// modifiesEffect maps one modifies entry of a callee to a loop effect.
func (f *Frame) modifiesEffect(c *Contract, callee *ssa.Function, cc *ssa.CallCommon, m string, blocks map[*ssa.BasicBlock]bool, ef *effects) {
	e := f.e
	if strings.HasPrefix(m, "ghost ") {
		ef.ghosts[strings.TrimSpace(strings.TrimPrefix(m, "ghost "))] = true
		return
	}
	// evaluate the entry with the real arguments where they are loop-invariant, dummy symbols otherwise
	var args []Val
	var argVals []ssa.Value
	if cc.IsInvoke() {
		argVals = append(argVals, cc.Value)
	}
	argVals = append(argVals, cc.Args...)
	for _, a := range argVals {
		if f.definedOutside(a, blocks) {
			if v, ok := f.vals[a]; ok && (v.S != "" || v.Loc != nil) {
				if v.S == "" {
					if pt, ok := e.ptrTerm(v); ok {
						v.S = pt
					}
				}
				if v.S != "" {
					args = append(args, v)
					continue
				}
			}
			if _, isParam := a.(*ssa.Parameter); isParam {
				args = append(args, f.val(a))
				continue
			}
		}
		args = append(args, e.havocVal(a.Type(), "dummy.arg", nil))
	}
	locs, ok := e.modifiesLocs(f, c, callee, cc, m, args, nil)
	if !ok {
		ef.unknownCalls = append(ef.unknownCalls, "modifies "+m)
		return
	}
	for _, ml := range locs {
		switch ml.kind {
		case "obj", "field":
			srt := e.sortOf(ml.rootT)
			ef.heapPT[srt] = ml.rootT
			if ml.base != "" && !strings.Contains(ml.base, "dummy") {
				t := heapTarget{baseTerm: ml.base}
				if ml.kind == "field" {
					t.fields = map[int]bool{ml.field: true}
				}
				ef.heapP[srt] = append(ef.heapP[srt], t)
				continue
			}
			ef.heapP[srt] = append(ef.heapP[srt], heapTarget{})
		case "elems":
			srt := e.sortOf(ml.rootT)
			ef.heapAT[srt] = ml.rootT
			ef.heapA[srt] = append(ef.heapA[srt], heapTarget{})
		case "map":
			k := e.mapKey(ml.mapT)
			ef.mapT[k] = ml.mapT
			ef.maps[k] = append(ef.maps[k], heapTarget{})
		}
	}
}

func (f *Frame) loopSpec(l *Loop) *LoopSpec {
	c := f.contract
	if c == nil || c.Loops == nil {
		return nil
	}
	return c.Loops[l.Ord]
}

// enterLoop: init obligations, havoc, assume invariants. Returns the state for an arbitrary iteration.
func (f *Frame) enterLoop(l *Loop, cur *State, phiVals map[*ssa.Phi]Val) *State {
	e := f.e
	spec := f.loopSpec(l)
	pos := token.NoPos
	for _, in := range l.Header.Instrs {
		if in.Pos().IsValid() {
			pos = in.Pos()
			break
		}
	}
	for phi, v := range phiVals {
		f.vals[phi] = v
	}
	lname := fmt.Sprintf("loop#%d", l.Ord)
	if spec == nil || (len(spec.Invariants) == 0 && spec.Unroll == 0) {
		e.note("loop#%d of %s has no invariant: only inferred facts are kept", l.Ord, funcKey(f.fn))
	}
	// init
	if spec != nil {
		for _, inv := range spec.Invariants {
			ctx := f.evalCtx(cur, l)
			ctx.loopK = e.kInit(l)
			g, err := e.evalBool(ctx, inv.E)
			if err != nil {
				e.bindError(fmt.Sprintf("%s.%s.invariant#%d", e.fname, lname, inv.Ord), err)
				continue
			}
			e.obNamed(fmt.Sprintf("%s.%s%s.init#%d", e.fname, lname, f.label, inv.Ord), "loop.init", "invariant holds on entry: "+inv.Text, cur.cond, g, pos)
		}
	}
	// effects
	ef := newEffects()
	f.scanEffects(l.Blocks, ef, 0)
	if len(ef.unknownCalls) > 0 {
		e.note("loop#%d of %s calls functions without a contract/model (assumed not to write caller-visible state): %s", l.Ord, funcKey(f.fn), strings.Join(uniq(ef.unknownCalls), ", "))
	}
	st := cur.clone()
	// phis
	var phis []*ssa.Phi
	for _, in := range l.Header.Instrs {
		if p, ok := in.(*ssa.Phi); ok {
			phis = append(phis, p)
		} else {
			break
		}
	}
	wmIn := cur.wm
	if ef.allocs {
		st.wm = e.freshConst("wm", "Int")
		e.assume("true", fmt.Sprintf("(>= %s %s)", st.wm, wmIn))
	}
	entryPhi := map[*ssa.Phi]Val{}
	for _, p := range phis {
		entryPhi[p] = phiVals[p]
		if phiVals[p].S == "" && phiVals[p].Tuple == nil {
			// non-term values (locations, closures) are kept if loop-invariant
			continue
		}
		f.vals[p] = e.havocVal(p.Type(), f.prefix+"."+p.Name(), st)
	}
	for a := range ef.cells {
		if _, ok := cur.cells[a]; !ok {
			continue
		}
		t := a.Type().(*types.Pointer).Elem()
		st.cells[a] = e.havocVal(t, "cell."+a.Name(), st).S
	}
	for g := range ef.globals {
		t := g.Type().(*types.Pointer).Elem()
		st.globals[g] = e.havocVal(t, "g", st).S
	}
	for r := range ef.iters {
		if _, ok := cur.iters[r]; !ok {
			continue
		}
		n := e.freshConst("it", "Int")
		st.iters[r] = n
		if mt, ok := r.X.Type().Underlying().(*types.Map); ok {
			if _, ok := cur.visited[r]; ok {
				st.visited[r] = e.freshConst("vis", "(Array "+e.sortOf(mt.Key())+" Bool)")
			}
		}
		x := f.val(r.X)
		if isString(r.X.Type()) {
			e.assume("true", fmt.Sprintf("(and (<= 0 %s) (<= %s (slen %s)))", n, n, x.S))
		} else {
			e.assume("true", fmt.Sprintf("(<= 0 %s)", n))
		}
	}
	for g := range ef.ghosts {
		if srt, ok := e.ghostDecl[g]; ok {
			st.ghost[g] = e.freshConst("gh."+g, srt)
		}
	}
	if ef.allocs {
		// the loop contains calls: the ghost clock may have advanced by any amount
		c0 := e.clockNow(cur)
		n := e.freshConst("clock", "Int")
		e.assume("true", fmt.Sprintf("(>= %s %s)", n, c0))
		st.ghost["lib.clock"] = n
	}
	f.havocHeaps(ef, cur, st, wmIn)
	// inferred: range-index bounds
	for _, p := range phis {
		if p.Comment == "rangeindex" {
			n := f.rangeLen(l, p)
			if n != "" {
				e.assume("true", fmt.Sprintf("(and (<= (- 1) %s) (< %s %s))", f.vals[p].S, f.vals[p].S, sOr2max(n)))
			}
		}
	}
	// assume invariants
	if spec != nil {
		for _, inv := range spec.Invariants {
			ctx := f.evalCtx(st, l)
			g, err := e.evalBool(ctx, inv.E)
			if err != nil {
				continue
			}
			e.assume(st.cond, g)
		}
		if spec.Decreases != nil {
			ctx := f.evalCtx(st, l)
			v, err := e.eval(ctx, spec.Decreases.E)
			if err == nil {
				l.variant0 = e.define("variant", e.valSort(v), v.S)
			} else {
				e.bindError(fmt.Sprintf("%s.%s.decreases", e.fname, lname), err)
			}
		}
	}
	return st
}

func sOr2max(n string) string { return fmt.Sprintf("(ite (< %s 0) 0 %s)", n, n) }

// rangeLen finds the length term the range-index loop compares against.
func (f *Frame) rangeLen(l *Loop, p *ssa.Phi) string {
	// pattern: t2 = p + 1 ; t3 = t2 < len ; if t3 ...
	for _, in := range l.Header.Instrs {
		if b, ok := in.(*ssa.BinOp); ok && b.Op == token.LSS {
			if add, ok := b.X.(*ssa.BinOp); ok && add.X == p {
				if f.definedOutside(b.Y, l.Blocks) {
					return f.val(b.Y).S
				}
			}
		}
	}
	return ""
}

func uniq(xs []string) []string {
	m := map[string]bool{}
	var out []string
	for _, x := range xs {
		if !m[x] {
			m[x] = true
			out = append(out, x)
		}
	}
	sort.Strings(out)
	return out
}

// havocHeaps replaces the heaps written by the loop with fresh ones, framed as precisely as the targets allow.
func (f *Frame) havocHeaps(ef *effects, cur, st *State, wmIn string) {
	e := f.e
	for _, srt := range sortedKeys(ef.heapP) {
		ts := ef.heapP[srt]
		old := e.getHeapP(cur, srt)
		rootT := ef.heapPT[srt]
		targeted := true
		for _, t := range ts {
			if t.base == nil && t.baseTerm == "" {
				targeted = false
			}
		}
		if targeted {
			h := old
			seen := map[string]bool{}
			// group fields per base
			fields := map[string]map[int]bool{}
			var bases []string
			for _, t := range ts {
				bt := t.baseTerm
				if bt == "" {
					bv := f.val(t.base)
					p, ok := e.ptrTerm(bv)
					if !ok {
						targeted = false
						break
					}
					bt = p
				}
				if !seen[bt] {
					seen[bt] = true
					bases = append(bases, bt)
					fields[bt] = map[int]bool{}
				}
				if t.fields == nil {
					fields[bt] = nil
				} else if fields[bt] != nil {
					for k := range t.fields {
						fields[bt][k] = true
					}
				}
			}
			if targeted {
				for _, bt := range bases {
					fresh := e.freshConst("obj", srt)
					nv := fresh
					if stt, ok := rootT.Underlying().(*types.Struct); ok && fields[bt] != nil {
						var fs []string
						for i := 0; i < stt.NumFields(); i++ {
							if fields[bt][i] {
								fs = append(fs, e.fieldSel(rootT, stt, i, fresh))
							} else {
								fs = append(fs, e.fieldSel(rootT, stt, i, fmt.Sprintf("(select %s %s)", old, bt)))
							}
						}
						nv = e.mkStruct(rootT, stt, fs)
					}
					h = fmt.Sprintf("(store %s %s %s)", h, bt, nv)
				}
				st.heapP[srt] = e.define("hp", e.heapPSort(srt), h)
				continue
			}
		}
		nh := e.freshConst("hp", e.heapPSort(srt))
		st.heapP[srt] = nh
		_ = wmIn
		e.note("loop in %s writes %s objects through pointers computed inside the loop: heap havocked (frame must come from the invariant)", funcKey(f.fn), srt)
	}
	for _, srt := range sortedKeys(ef.heapA) {
		ts := ef.heapA[srt]
		old := e.getHeapA(cur, srt)
		targeted := true
		var bases []string
		seen := map[string]bool{}
		windows := map[string][2]string{}
		noWindow := map[string]bool{}
		for _, t := range ts {
			if t.base == nil && t.baseTerm == "" {
				targeted = false
				break
			}
			bt := t.baseTerm
			if bt == "" {
				bv := f.val(t.base)
				if bv.Loc != nil && bv.Loc.Kind == LElem {
					bt = bv.Loc.Base
					noWindow[bt] = true
				} else if bv.S != "" {
					bt = "(s.arr " + bv.S + ")"
					hiT := "(+ (s.off " + bv.S + ") (s.len " + bv.S + "))"
					if t.capWin {
						hiT = "(+ (s.off " + bv.S + ") (s.cap " + bv.S + "))"
					}
					nw := [2]string{"(s.off " + bv.S + ")", hiT}
					if ow, dup := windows[bt]; dup && ow != nw {
						if ow[0] == nw[0] && strings.Contains(ow[1], "s.cap") {
							nw = ow // same slice, wider window wins
						} else if !(ow[0] == nw[0] && strings.Contains(nw[1], "s.cap")) {
							noWindow[bt] = true // two different slices over the same array: no window claim
						}
					}
					windows[bt] = nw
				} else {
					targeted = false
					break
				}
			} else {
				noWindow[bt] = true
			}
			if !seen[bt] {
				seen[bt] = true
				bases = append(bases, bt)
			}
		}
		if targeted {
			h := old
			for _, bt := range bases {
				fresh := e.freshConst("arr", "(Array Int "+srt+")")
				// writes through a slice stay inside its window [off, off+len) (or +cap for append/copy)
				if w, ok := windows[bt]; ok && !noWindow[bt] {
					e.assume("true", fmt.Sprintf("(forall ((q.i Int)) (! (=> (or (< q.i %s) (>= q.i %s)) (= (select %s q.i) (select (select %s %s) q.i))) :pattern ((select %s q.i))))", w[0], w[1], fresh, old, bt, fresh))
				}
				h = fmt.Sprintf("(store %s %s %s)", h, bt, fresh)
			}
			st.heapA[srt] = e.define("ha", e.heapASort(srt), h)
			continue
		}
		nh := e.freshConst("ha", e.heapASort(srt))
		st.heapA[srt] = nh
		// arrays allocated before the loop that the loop cannot reach keep their contents only via invariants
		e.note("loop in %s writes %s arrays through slices computed inside the loop: array heap havocked", funcKey(f.fn), srt)
	}
	for _, k := range sortedKeys(ef.maps) {
		ts := ef.maps[k]
		mt := ef.mapT[k]
		targeted := true
		var bases []string
		seen := map[string]bool{}
		for _, t := range ts {
			if t.base == nil && t.baseTerm == "" {
				targeted = false
				break
			}
			bt := t.baseTerm
			if bt == "" {
				bt = f.val(t.base).S
			}
			if bt == "" {
				targeted = false
				break
			}
			if !seen[bt] {
				seen[bt] = true
				bases = append(bases, bt)
			}
		}
		d, v, n := e.getMapD(cur, mt), e.getMapV(cur, mt), e.getMapN(cur, mt)
		if targeted {
			for _, bt := range bases {
				d = fmt.Sprintf("(store %s %s %s)", d, bt, e.freshConst("dom", "(Array "+e.sortOf(mt.Key())+" Bool)"))
				v = fmt.Sprintf("(store %s %s %s)", v, bt, e.freshConst("val", "(Array "+e.sortOf(mt.Key())+" "+e.sortOf(mt.Elem())+")"))
				sz := e.freshConst("size", "Int")
				e.assume("true", "(>= "+sz+" 0)")
				n = fmt.Sprintf("(store %s %s %s)", n, bt, sz)
			}
			st.mapD[k] = e.define("md", e.mapSorts[k][0], d)
			st.mapV[k] = e.define("mv", e.mapSorts[k][1], v)
			st.mapN[k] = e.define("mn", "(Array Int Int)", n)
			continue
		}
		st.mapD[k] = e.freshConst("md", e.mapSorts[k][0])
		st.mapV[k] = e.freshConst("mv", e.mapSorts[k][1])
		nn := e.freshConst("mn", "(Array Int Int)")
		e.assume("true", fmt.Sprintf("(forall ((m Int)) (! (>= (select %s m) 0) :pattern ((select %s m))))", nn, nn))
		st.mapN[k] = nn
	}
}

func sortedKeys[V any](m map[string]V) []string {
	var ks []string
	for k := range m {
		ks = append(ks, k)
	}
	sort.Strings(ks)
	return ks
}

// backEdge: preserve obligations for the loop's invariants and the variant.
func (f *Frame) backEdge(l *Loop, from *ssa.BasicBlock, st *State) {
	e := f.e
	spec := f.loopSpec(l)
	if spec == nil {
		return
	}
	pos := token.NoPos
	for _, in := range l.Header.Instrs {
		if in.Pos().IsValid() {
			pos = in.Pos()
			break
		}
	}
	// bind header phis to the values flowing along this back edge
	saved := map[*ssa.Phi]Val{}
	predIdx := -1
	for i, p := range l.Header.Preds {
		if p == from {
			predIdx = i
		}
	}
	var kPrev string
	for _, in := range l.Header.Instrs {
		p, ok := in.(*ssa.Phi)
		if !ok {
			break
		}
		saved[p] = f.vals[p]
		if p.Comment == "rangeindex" {
			kPrev = saved[p].S
		}
	}
	newVals := map[*ssa.Phi]Val{}
	for p := range saved {
		if predIdx >= 0 {
			newVals[p] = f.val(p.Edges[predIdx])
		}
	}
	for p, v := range newVals {
		f.vals[p] = v
	}
	_ = kPrev
	lname := fmt.Sprintf("loop#%d", l.Ord)
	e.ordinals[e.fname+lname+"back"]++
	be := e.ordinals[e.fname+lname+"back"]
	suffix := ""
	if be > 1 {
		suffix = fmt.Sprintf(".edge%d", be)
	}
	for _, inv := range spec.Invariants {
		ctx := f.evalCtx(st, l)
		g, err := e.evalBool(ctx, inv.E)
		if err != nil {
			continue
		}
		e.obNamed(fmt.Sprintf("%s.%s%s.preserve#%d%s", e.fname, lname, f.label, inv.Ord, suffix), "loop.preserve", "invariant preserved by the loop body: "+inv.Text, st.cond, g, pos)
	}
	if spec.Decreases != nil && l.variant0 != "" {
		ctx := f.evalCtx(st, l)
		v, err := e.eval(ctx, spec.Decreases.E)
		if err == nil {
			goal := fmt.Sprintf("(and (>= %s 0) (< %s %s))", l.variant0, v.S, l.variant0)
			if srt := e.valSort(v); strings.HasPrefix(srt, "(_ BitVec") {
				goal = fmt.Sprintf("(and (bvsge %s %s) (bvslt %s %s))", l.variant0, bvLit("0", bvWidth(srt)), v.S, l.variant0)
			}
			e.obNamed(fmt.Sprintf("%s.%s%s.decreases%s", e.fname, lname, f.label, suffix), "loop.variant", "variant non-negative and strictly decreasing: "+spec.Decreases.Text, st.cond, goal, pos)
		}
	}
	for p, v := range saved {
		f.vals[p] = v
	}
}

func (e *Engine) kInit(l *Loop) string { return "0" }
