package main

// Replay of counterexamples on the real code (DESIGN.md 3.10, 10.5).
//
// Scope: a refuted (`sat`) no-panic or postcondition obligation of a plain function (no receiver, no closure, no generic
// instance) all of whose parameters are integers, booleans or strings. The solver is asked again for the values of the
// parameters; a Go test that calls the REAL function with these values is injected into the package through
// `go test -overlay` (nothing is written into the repository) and run. The violation counts as replayed only if the real
// code panics (no-panic obligations) or returns values that falsify the postcondition (translated to Go; only quantifier-
// free postconditions and range quantifiers over int are translated). Everything else keeps "no-failing-input-found".

import (
	"bytes"
	"context"
	"encoding/json"
	"fmt"
	"go/types"
	"os"
	"os/exec"
	"path/filepath"
	"regexp"
	"strconv"
	"strings"
	"time"
)

func tryReplay(cfg *Config, r *Report, o *Obligation) (map[string]any, *ReplayResult) {
	var fr *FuncResult
	for _, f := range r.Funcs {
		if f.Name == o.Func {
			fr = f
		}
	}
	if fr == nil || fr.Fn == nil || fr.C == nil {
		return nil, nil
	}
	note := func(s string) (map[string]any, *ReplayResult) { return nil, &ReplayResult{Note: "not replayed: " + s} }
	isPanic := strings.HasPrefix(o.Kind, "no-panic")
	isEns := o.Kind == "ensures"
	if !isPanic && !isEns {
		return note("only no-panic and postcondition obligations are replayed (this one is " + o.Kind + ")")
	}
	fn := fr.Fn
	if fr.Inst != "" || fn.Parent() != nil || fn.Signature.Recv() != nil || strings.Contains(fr.Key, "$") {
		return note("methods, closures and generic instances are not replayed")
	}
	if len(o.Inputs) != len(fn.Params) {
		return note("inputs not recorded")
	}
	pkgPath := fr.Pkg
	for _, p := range fn.Params {
		switch u := p.Type().Underlying().(type) {
		case *types.Basic:
			if u.Info()&(types.IsInteger|types.IsBoolean|types.IsString) == 0 {
				return note("parameter " + p.Name() + " is not an integer, boolean or string")
			}
		default:
			return note("parameter " + p.Name() + " is not an integer, boolean or string")
		}
		if n, ok := p.Type().(*types.Named); ok && (n.Obj().Pkg() == nil || n.Obj().Pkg().Path() != pkgPath) {
			return note("parameter type from another package")
		}
	}
	// ---- ask the solver for the parameter values
	var terms []string
	for i, p := range fn.Params {
		in := o.Inputs[i]
		if b, ok := p.Type().Underlying().(*types.Basic); ok && b.Info()&types.IsString != 0 {
			terms = append(terms, "(slen "+in.Term+")")
		} else {
			terms = append(terms, in.Term)
		}
	}
	vals, err := getValues(cfg, r, o, terms)
	if err != nil {
		return note("no model: " + err.Error())
	}
	model := map[string]any{}
	var goArgs []string
	for i, p := range fn.Params {
		in := o.Inputs[i]
		tstr := types.TypeString(p.Type(), func(pk *types.Package) string { return "" })
		b := p.Type().Underlying().(*types.Basic)
		switch {
		case b.Info()&types.IsString != 0:
			n, ok := parseSMTInt(vals[i])
			if !ok || n < 0 || n > 200 {
				return note(fmt.Sprintf("string parameter %s has length %s in the model (only lengths 0..200 are replayed)", p.Name(), vals[i]))
			}
			var bts []string
			for k := int64(0); k < n; k++ {
				bts = append(bts, fmt.Sprintf("(sbyte %s %d)", in.Term, k))
			}
			var bs []byte
			if n > 0 {
				bv, err := getValues(cfg, r, o, bts)
				if err != nil {
					return note("no model for string bytes: " + err.Error())
				}
				for _, v := range bv {
					x, ok := parseSMTInt(v)
					if !ok || x < 0 || x > 255 {
						x = 0
					}
					bs = append(bs, byte(x))
				}
			}
			model[p.Name()] = fmt.Sprintf("%q", string(bs))
			goArgs = append(goArgs, fmt.Sprintf("%s(%q)", tstr, string(bs)))
		case b.Info()&types.IsBoolean != 0:
			model[p.Name()] = vals[i]
			goArgs = append(goArgs, fmt.Sprintf("%s(%s)", tstr, vals[i]))
		default:
			n, ok := parseSMTInt(vals[i])
			if !ok {
				if bvv, ok2 := parseSMTBV(vals[i], b); ok2 {
					n, ok = bvv, true
				}
			}
			if !ok {
				return note("cannot read the model value of " + p.Name() + ": " + vals[i])
			}
			model[p.Name()] = n
			goArgs = append(goArgs, fmt.Sprintf("%s(%d)", tstr, n))
		}
	}
	// ---- the test
	mod := moduleOf(r.mods, pkgPath)
	if mod == nil {
		return model, &ReplayResult{Note: "not replayed: module not found"}
	}
	rel := strings.TrimPrefix(strings.TrimPrefix(pkgPath, mod.Path), "/")
	pkgDir := filepath.Join(mod.Dir, rel)
	pkgName := fn.Pkg.Pkg.Name()
	var res []string
	for i := 0; i < fn.Signature.Results().Len(); i++ {
		name := fmt.Sprintf("govcR%d", i)
		if i < len(fr.C.ResultNames) && fr.C.ResultNames[i] != "" && fr.C.ResultNames[i] != "_" {
			name = fr.C.ResultNames[i]
		}
		res = append(res, name)
	}
	check := ""
	if isEns {
		text := strings.TrimPrefix(o.Desc, "postcondition: ")
		x, err := parseExpr(text)
		if err != nil {
			return model, &ReplayResult{Note: "not replayed: postcondition does not parse"}
		}
		names := map[string]bool{}
		for _, p := range fn.Params {
			names[p.Name()] = true
		}
		for _, n := range res {
			names[n] = true
		}
		g, err := specToGo(x, names)
		if err != nil {
			return model, &ReplayResult{Note: "not replayed: postcondition not translatable to Go (" + err.Error() + ")"}
		}
		check = "\tif !(" + g + ") {\n\t\tfmt.Println(\"GOVC-REPLAY-ENSURES-VIOLATED\")\n\t}\n"
	}
	var src bytes.Buffer
	fmt.Fprintf(&src, "package %s\n\nimport (\n\t\"fmt\"\n\t\"testing\"\n)\n\n", pkgName)
	fmt.Fprintf(&src, "// generated by govc: replay of %s\nfunc TestGovcReplay(t *testing.T) {\n", o.Name)
	fmt.Fprintf(&src, "\tdefer func() {\n\t\tif r := recover(); r != nil {\n\t\t\tfmt.Printf(\"GOVC-REPLAY-PANIC: %%v\\n\", r)\n\t\t}\n\t}()\n")
	// parameters as variables (the postcondition refers to them by name)
	for i, p := range fn.Params {
		fmt.Fprintf(&src, "\t%s := %s\n\t_ = %s\n", p.Name(), goArgs[i], p.Name())
	}
	var pn []string
	for _, p := range fn.Params {
		pn = append(pn, p.Name())
	}
	call := fmt.Sprintf("%s(%s)", fn.Name(), strings.Join(pn, ", "))
	if fn.Signature.Variadic() && len(pn) > 0 {
		call = fmt.Sprintf("%s(%s...)", fn.Name(), strings.Join(pn, ", "))
	}
	if len(res) > 0 {
		fmt.Fprintf(&src, "\t%s := %s\n", strings.Join(res, ", "), call)
		for _, n := range res {
			fmt.Fprintf(&src, "\t_ = %s\n", n)
		}
	} else {
		fmt.Fprintf(&src, "\t%s\n", call)
	}
	src.WriteString(check)
	src.WriteString("\tfmt.Println(\"GOVC-REPLAY-RETURNED\")\n}\n")
	replayDir := filepath.Join(cfg.Verif, "replays", r.Property)
	_ = os.MkdirAll(replayDir, 0o755)
	testFile := filepath.Join(replayDir, sanitizeFile(o.Name)+"_replay_test.go")
	if err := os.WriteFile(testFile, src.Bytes(), 0o644); err != nil {
		return model, &ReplayResult{Note: "not replayed: " + err.Error()}
	}
	rr := runReplayTest(cfg, mod.Dir, pkgDir, testFile)
	rr.Test = testFile
	switch {
	case isPanic && strings.Contains(rr.Output, "GOVC-REPLAY-PANIC"):
		rr.Confirmed = true
		rr.Note = "the real function panics on the solver's input"
	case isEns && strings.Contains(rr.Output, "GOVC-REPLAY-ENSURES-VIOLATED"):
		rr.Confirmed = true
		rr.Note = "the real function returns values that falsify the postcondition on the solver's input"
	case isEns && strings.Contains(rr.Output, "GOVC-REPLAY-PANIC"):
		rr.Note = "the real function panics on the solver's input (the obligation was a postcondition)"
	default:
		rr.Note = "the solver's input does not reproduce the violation on the real code (the model may rely on an abstraction)"
	}
	return model, rr
}

func runReplayTest(cfg *Config, modDir, pkgDir, testFile string) *ReplayResult {
	ov := map[string]map[string]string{"Replace": {filepath.Join(pkgDir, "zz_govc_replay_test.go"): testFile}}
	data, _ := json.Marshal(ov)
	ovFile := filepath.Join(cfg.TmpDir, "overlay_"+sanitizeFile(filepath.Base(testFile))+".json")
	_ = os.WriteFile(ovFile, data, 0o644)
	ctx, cancel := context.WithTimeout(context.Background(), 180*time.Second)
	defer cancel()
	rel, _ := filepath.Rel(modDir, pkgDir)
	cmd := exec.CommandContext(ctx, "go", "test", "-overlay", ovFile, "-vet=off", "-count=1", "-timeout", "60s", "-run", "^TestGovcReplay$", "-v", "./"+rel)
	cmd.Dir = modDir
	cmd.Env = goEnv()
	var out bytes.Buffer
	cmd.Stdout = &out
	cmd.Stderr = &out
	_ = cmd.Run()
	o := out.String()
	if len(o) > 4000 {
		o = o[:4000]
	}
	return &ReplayResult{Output: o}
}

func rerunReplayTest(cfg *Config, testFile string) *ReplayResult {
	return &ReplayResult{Note: "re-run with: go test -overlay (see replay.test_file)"}
}

// getValues re-runs z3-new on the obligation's script and returns the model values of the given terms.
func getValues(cfg *Config, r *Report, o *Obligation, terms []string) ([]string, error) {
	if len(terms) == 0 {
		return nil, nil
	}
	text := o.Text
	idx := strings.LastIndex(text, "(check-sat)")
	if idx < 0 {
		return nil, fmt.Errorf("no check-sat in the script")
	}
	var out []string
	// one get-value per term keeps the output easy to split
	var q strings.Builder
	q.WriteString(text[:idx])
	q.WriteString("(check-sat)\n")
	for _, t := range terms {
		q.WriteString("(get-value (" + t + "))\n")
	}
	file := filepath.Join(cfg.TmpDir, sanitizeFile(o.Name)+".model.smt2")
	if err := os.WriteFile(file, []byte(q.String()), 0o644); err != nil {
		return nil, err
	}
	ctx, cancel := context.WithTimeout(context.Background(), 60*time.Second)
	defer cancel()
	sp := solverSpecs[0]
	if o.Result.Solver == "z3" {
		sp = solverSpecs[1]
	}
	cmd := exec.CommandContext(ctx, sp.bin, sp.args(file, 30, r.Seed)...)
	var buf bytes.Buffer
	cmd.Stdout = &buf
	cmd.Stderr = &buf
	_ = cmd.Run()
	lines := strings.Split(buf.String(), "\n")
	if len(lines) == 0 || strings.TrimSpace(lines[0]) != "sat" {
		return nil, fmt.Errorf("solver answered %q on the re-run", strings.TrimSpace(lines[0]))
	}
	rest := strings.Join(lines[1:], " ")
	// each answer has the form ((<term> <value>))
	for _, t := range terms {
		k := strings.Index(rest, "(("+t+" ")
		if k < 0 {
			return nil, fmt.Errorf("no value for %s", t)
		}
		v, n := sexprAt(rest[k+2+len(t)+1:])
		if n == 0 {
			return nil, fmt.Errorf("cannot parse the value of %s", t)
		}
		out = append(out, strings.TrimSpace(v))
		rest = rest[k+2+len(t)+1+n:]
	}
	return out, nil
}

// sexprAt returns the first s-expression (or atom) of s and its length.
func sexprAt(s string) (string, int) {
	i := 0
	for i < len(s) && s[i] == ' ' {
		i++
	}
	if i >= len(s) {
		return "", 0
	}
	if s[i] != '(' {
		j := i
		for j < len(s) && s[j] != ' ' && s[j] != ')' {
			j++
		}
		return s[i:j], j
	}
	d := 0
	for j := i; j < len(s); j++ {
		switch s[j] {
		case '(':
			d++
		case ')':
			d--
			if d == 0 {
				return s[i : j+1], j + 1
			}
		}
	}
	return "", 0
}

var reNeg = regexp.MustCompile(`^\(\s*-\s*(\d+)\s*\)$`)

func parseSMTInt(v string) (int64, bool) {
	v = strings.TrimSpace(v)
	if m := reNeg.FindStringSubmatch(v); m != nil {
		n, err := strconv.ParseInt(m[1], 10, 64)
		if err != nil {
			// -2^63
			if m[1] == "9223372036854775808" {
				return -9223372036854775808, true
			}
			return 0, false
		}
		return -n, true
	}
	n, err := strconv.ParseInt(v, 10, 64)
	return n, err == nil
}

func parseSMTBV(v string, b *types.Basic) (int64, bool) {
	v = strings.TrimSpace(v)
	var u uint64
	var err error
	bits := 64
	switch {
	case strings.HasPrefix(v, "#x"):
		u, err = strconv.ParseUint(v[2:], 16, 64)
		bits = 4 * len(v[2:])
	case strings.HasPrefix(v, "#b"):
		u, err = strconv.ParseUint(v[2:], 2, 64)
		bits = len(v[2:])
	default:
		return 0, false
	}
	if err != nil {
		return 0, false
	}
	if !isUnsigned(b) && bits < 64 && u&(1<<uint(bits-1)) != 0 {
		return int64(u) - (1 << uint(bits)), true
	}
	return int64(u), true
}

// specToGo translates a quantifier-free (or int-range quantified) specification expression over parameters and results to Go.
func specToGo(x *Expr, names map[string]bool) (string, error) {
	switch x.Op {
	case "lit":
		switch x.Kind {
		case "int", "char", "string", "bool", "float":
			return x.Lit, nil
		}
		return "", fmt.Errorf("literal %s", x.Lit)
	case "ident":
		if names[x.Name] || x.Name == "true" || x.Name == "false" {
			return x.Name, nil
		}
		return "", fmt.Errorf("name %s", x.Name)
	case "un":
		a, err := specToGo(x.Args[0], names)
		if err != nil {
			return "", err
		}
		if x.Name == "!" || x.Name == "-" {
			return "(" + x.Name + a + ")", nil
		}
		return "", fmt.Errorf("operator %s", x.Name)
	case "bin":
		a, err := specToGo(x.Args[0], names)
		if err != nil {
			return "", err
		}
		b, err := specToGo(x.Args[1], names)
		if err != nil {
			return "", err
		}
		switch x.Name {
		case "==>":
			return "(!(" + a + ") || (" + b + "))", nil
		case "===":
			return "(" + a + " == " + b + ")", nil
		case "&&", "||", "==", "!=", "<", "<=", ">", ">=", "+", "-", "*", "/", "%":
			return "(" + a + " " + x.Name + " " + b + ")", nil
		}
		return "", fmt.Errorf("operator %s", x.Name)
	case "call":
		switch x.Name {
		case "len", "min", "max", "int", "int64", "int32", "uint64", "uint32", "byte", "uint8":
			var as []string
			for _, a := range x.Args {
				g, err := specToGo(a, names)
				if err != nil {
					return "", err
				}
				as = append(as, g)
			}
			return x.Name + "(" + strings.Join(as, ", ") + ")", nil
		}
		return "", fmt.Errorf("call of %s", x.Name)
	case "index":
		a, err := specToGo(x.Args[0], names)
		if err != nil {
			return "", err
		}
		i, err := specToGo(x.Args[1], names)
		if err != nil {
			return "", err
		}
		return a + "[" + i + "]", nil
	case "ite":
		c, err := specToGo(x.Args[0], names)
		if err != nil {
			return "", err
		}
		a, err := specToGo(x.Args[1], names)
		if err != nil {
			return "", err
		}
		b, err := specToGo(x.Args[2], names)
		if err != nil {
			return "", err
		}
		return "func() int { if " + c + " { return int(" + a + ") }; return int(" + b + ") }()", nil
	case "forall", "exists":
		if x.VarT != "" {
			return "", fmt.Errorf("quantifier over a type")
		}
		lo, err := specToGo(x.Args[0], names)
		if err != nil {
			return "", err
		}
		hi, err := specToGo(x.Args[1], names)
		if err != nil {
			return "", err
		}
		n2 := map[string]bool{x.Var: true}
		for k := range names {
			n2[k] = true
		}
		body, err := specToGo(x.Args[2], n2)
		if err != nil {
			return "", err
		}
		if x.Op == "forall" {
			return fmt.Sprintf("func() bool { for %s := int(%s); %s < int(%s); %s++ { if !(%s) { return false } }; return true }()", x.Var, lo, x.Var, hi, x.Var, body), nil
		}
		return fmt.Sprintf("func() bool { for %s := int(%s); %s < int(%s); %s++ { if %s { return true } }; return false }()", x.Var, lo, x.Var, hi, x.Var, body), nil
	}
	return "", fmt.Errorf("construct %s", x.Op)
}
