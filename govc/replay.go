package main

// Replay of counterexamples on the real code (DESIGN.md 3.10).

func tryReplay(cfg *Config, r *Report, o *Obligation) (map[string]any, *ReplayResult) {
	return nil, nil
}

func rerunReplayTest(cfg *Config, testFile string) *ReplayResult {
	return &ReplayResult{}
}
