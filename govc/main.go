package main

import (
	"encoding/json"
	"flag"
	"fmt"
	"os"
	"path/filepath"
	"sort"
	"strconv"
	"strings"
	"sync"
	"time"

	"golang.org/x/tools/go/ssa"
)

type Config struct {
	Repo     string
	Verif    string
	Tier     string
	Seed     int
	Property string
	Only     string // restrict to functions whose name contains this
	Verbose  bool
	KeepSMT  bool
	TmpDir   string
	Jobs     int
}

func main() {
	if len(os.Args) < 2 {
		fmt.Fprintln(os.Stderr, "usage: govc check|vf|list|replay ...")
		os.Exit(2)
	}
	cmd := os.Args[1]
	fs := flag.NewFlagSet(cmd, flag.ExitOnError)
	cfg := &Config{}
	fs.StringVar(&cfg.Repo, "repo", "/repo", "repository root")
	fs.StringVar(&cfg.Verif, "verif", "/verif", "verification root")
	fs.StringVar(&cfg.Tier, "tier", "quick", "quick|thorough")
	fs.StringVar(&cfg.Property, "property", "", "property id")
	fs.StringVar(&cfg.Only, "only", "", "only functions containing this text")
	fs.BoolVar(&cfg.Verbose, "v", false, "verbose")
	fs.BoolVar(&cfg.KeepSMT, "keep", false, "keep SMT files")
	fs.IntVar(&cfg.Jobs, "j", 14, "parallel solver jobs")
	seed := fs.Int("seed", -1, "seed")
	_ = fs.Parse(os.Args[2:])
	if *seed >= 0 {
		cfg.Seed = *seed
	} else if s := os.Getenv("VERIF_SEED"); s != "" {
		if n, err := strconv.Atoi(s); err == nil {
			cfg.Seed = n
		}
	}
	if t := os.Getenv("VERIF_TIER"); t != "" && !flagSet(fs, "tier") {
		cfg.Tier = t
	}
	switch cmd {
	case "check":
		os.Exit(runCheck(cfg))
	case "replay":
		os.Exit(runReplayCmd(cfg, fs.Args()))
	default:
		fmt.Fprintln(os.Stderr, "unknown command", cmd)
		os.Exit(2)
	}
}

func flagSet(fs *flag.FlagSet, name string) bool {
	found := false
	fs.Visit(func(f *flag.Flag) {
		if f.Name == name {
			found = true
		}
	})
	return found
}

// contractIndex: all contract files (repo file authoritative, mirror as fallback), parsed.
type indexEntry struct {
	Pkg    string
	CF     *ContractFile
	Source string
	Differs bool
}

func contractIndex(cfg *Config, mods []Module) ([]indexEntry, error) {
	var out []indexEntry
	seen := map[string]bool{}
	mirrorRoot := filepath.Join(cfg.Verif, "contracts")
	_ = filepath.Walk(mirrorRoot, func(p string, info os.FileInfo, err error) error {
		if err != nil || info.IsDir() || filepath.Base(p) != contractFileName {
			return nil
		}
		pkgPath := filepath.ToSlash(strings.TrimPrefix(filepath.Dir(p), mirrorRoot+string(filepath.Separator)))
		seen[pkgPath] = true
		return nil
	})
	var pkgs []string
	for p := range seen {
		pkgs = append(pkgs, p)
	}
	sort.Strings(pkgs)
	for _, pkgPath := range pkgs {
		rf, mf := contractPaths(cfg.Repo, cfg.Verif, mods, pkgPath)
		src := "mirror"
		path := mf
		differs := false
		if rf != "" {
			if rd, err := os.ReadFile(rf); err == nil {
				src = "repo"
				path = rf
				if md, err := os.ReadFile(mf); err == nil && string(md) != string(rd) {
					differs = true
				}
			}
		}
		cf, err := ParseContractFile(path, pkgPath)
		if err != nil {
			return nil, err
		}
		out = append(out, indexEntry{Pkg: pkgPath, CF: cf, Source: src, Differs: differs})
	}
	return out, nil
}

func hasProp(c *Contract, cf *ContractFile, id string) bool {
	ps := c.Props
	if len(ps) == 0 {
		ps = cf.Props
	}
	for _, p := range ps {
		if p == id {
			return true
		}
	}
	return false
}

type workItem struct {
	mod   Module
	pkg   string
	cf    *ContractFile
	key   string
	c     *Contract
}

func instanceStub(pkgName string, items []workItem) string {
	var b strings.Builder
	b.WriteString("//go:build verif\n\npackage " + pkgName + "\n\n")
	// standard-library packages named in type arguments (e.g. time.Duration)
	imports := map[string]bool{}
	for _, it := range items {
		for _, inst := range it.c.Instances {
			for _, std := range []string{"time", "context"} {
				if strings.Contains(inst, std+".") {
					imports[std] = true
				}
			}
		}
	}
	for _, im := range keysOf(imports) {
		b.WriteString("import \"" + im + "\"\n")
	}
	b.WriteString("\nvar _ = []any{\n")
	n := 0
	for _, it := range items {
		for _, inst := range it.c.Instances {
			key := it.key
			if j := strings.Index(key, "$"); j >= 0 {
				key = key[:j]
			}
			if i := strings.Index(key, "."); i >= 0 {
				fmt.Fprintf(&b, "\t(*%s[%s]).%s,\n", key[:i], inst, key[i+1:])
			} else {
				fmt.Fprintf(&b, "\t%s[%s],\n", key, inst)
			}
			n++
		}
	}
	b.WriteString("}\n")
	if n == 0 {
		return ""
	}
	return b.String()
}

func runCheck(cfg *Config) int {
	start := time.Now()
	if cfg.Property == "" {
		fmt.Fprintln(os.Stderr, "check: -property required")
		return 2
	}
	tmp, err := os.MkdirTemp("", "govc-")
	if err != nil {
		fmt.Fprintln(os.Stderr, err)
		return 2
	}
	cfg.TmpDir = tmp
	if !cfg.KeepSMT {
		defer os.RemoveAll(tmp)
	} else {
		fmt.Fprintln(os.Stderr, "smt files in", tmp)
	}
	mods, err := findModules(cfg.Repo)
	if err != nil {
		fmt.Fprintln(os.Stderr, err)
		return 2
	}
	idx, err := contractIndex(cfg, mods)
	if err != nil {
		fmt.Fprintln(os.Stderr, "contract parse error:", err)
		return 2
	}
	known := loadKnownFindings(filepath.Join(cfg.Verif, "KNOWN_FINDINGS.txt"))
	rep := &Report{Property: cfg.Property, Tier: cfg.Tier, Seed: cfg.Seed, cfg: cfg, Known: known, ContractSource: map[string]string{}, mods: mods}
	// work items grouped by module
	byMod := map[string][]workItem{}
	lemmasByMod := map[string][]struct {
		cf *ContractFile
		lm *Lemma
	}{}
	modOf := map[string]Module{}
	for _, ie := range idx {
		m := moduleOf(mods, ie.Pkg)
		if m == nil {
			continue
		}
		any := false
		for _, key := range ie.CF.FuncOrder {
			c := ie.CF.Funcs[key]
			if !hasProp(c, ie.CF, cfg.Property) {
				continue
			}
			if cfg.Only != "" && !strings.Contains(key, cfg.Only) {
				continue
			}
			byMod[m.Path] = append(byMod[m.Path], workItem{mod: *m, pkg: ie.Pkg, cf: ie.CF, key: key, c: c})
			any = true
		}
		fileHas := false
		for _, p := range ie.CF.Props {
			if p == cfg.Property {
				fileHas = true
			}
		}
		if fileHas && cfg.Only == "" {
			for _, lm := range ie.CF.Lemmas {
				lemmasByMod[m.Path] = append(lemmasByMod[m.Path], struct {
					cf *ContractFile
					lm *Lemma
				}{ie.CF, lm})
				any = true
			}
		}
		if any {
			modOf[m.Path] = *m
			rep.ContractSource[ie.Pkg] = ie.Source
			if ie.Differs {
				rep.ContractSource[ie.Pkg] = ie.Source + " (differs from mirror)"
			}
		}
	}
	if len(modOf) == 0 {
		fmt.Fprintf(os.Stderr, "no contracts for property %s\n", cfg.Property)
		return 2
	}
	var modPaths []string
	for p := range modOf {
		modPaths = append(modPaths, p)
	}
	sort.Strings(modPaths)
	// load modules in parallel
	type loaded struct {
		P   *Program
		err error
	}
	progs := map[string]*loaded{}
	var mu sync.Mutex
	var wg sync.WaitGroup
	sem := make(chan struct{}, 4)
	for _, mp := range modPaths {
		mp := mp
		wg.Add(1)
		go func() {
			defer wg.Done()
			sem <- struct{}{}
			defer func() { <-sem }()
			pkgSet := map[string]bool{}
			for _, it := range byMod[mp] {
				pkgSet[it.pkg] = true
			}
			for _, l := range lemmasByMod[mp] {
				pkgSet[l.cf.Pkg] = true
			}
			var pkgs []string
			for p := range pkgSet {
				pkgs = append(pkgs, p)
			}
			sort.Strings(pkgs)
			stubs := map[string]string{}
			for _, p := range pkgs {
				var its []workItem
				for _, it := range byMod[mp] {
					if it.pkg == p {
						its = append(its, it)
					}
				}
				// also instances of callee contracts in the same package
				for _, ie := range idx {
					if ie.Pkg == p {
						for _, key := range ie.CF.FuncOrder {
							c := ie.CF.Funcs[key]
							if len(c.Instances) > 0 {
								dup := false
								for _, it := range its {
									if it.key == key {
										dup = true
									}
								}
								if !dup {
									its = append(its, workItem{pkg: p, cf: ie.CF, key: key, c: c})
								}
							}
						}
					}
				}
				if s := instanceStub(pkgShortName(cfg, mods, p), its); s != "" {
					stubs[p] = s
				}
			}
			P, err := LoadProgram(cfg.Repo, cfg.Verif, mods, modOf[mp], pkgs, stubs)
			mu.Lock()
			progs[mp] = &loaded{P, err}
			mu.Unlock()
		}()
	}
	wg.Wait()
	rep.LoadS = time.Since(start).Seconds()
	genStart := time.Now()
	for _, mp := range modPaths {
		ld := progs[mp]
		if ld.err != nil {
			rep.InternalErrs = append(rep.InternalErrs, fmt.Sprintf("load %s: %v", mp, ld.err))
			continue
		}
		P := ld.P
		for _, it := range byMod[mp] {
			insts := it.c.Instances
			if len(insts) == 0 {
				insts = []string{""}
			}
			cf := P.Contracts[it.pkg]
			if cf == nil {
				rep.InternalErrs = append(rep.InternalErrs, "contract file not loaded for "+it.pkg)
				continue
			}
			c := cf.Funcs[it.key]
			for _, inst := range insts {
				fn := P.FindFunc(it.pkg, it.key, inst)
				if fn == nil {
					rep.Funcs = append(rep.Funcs, &FuncResult{Pkg: it.pkg, Key: it.key, Inst: inst, Name: pkgShort(it.pkg) + "." + it.key,
						BindErrs: []string{fmt.Sprintf("%s.%s: function not found in %s (contract cannot be bound)", pkgShort(it.pkg), it.key, it.pkg)}})
					continue
				}
				if c.SplitVar != "" {
					rep.Funcs = append(rep.Funcs, safeVerify(P, fn, c, cf, inst, verifyOpts{knownActive: known.active(), splitCheck: true}))
					for v := c.SplitLo; v <= c.SplitHi; v++ {
						v := v
						rep.Funcs = append(rep.Funcs, safeVerify(P, fn, c, cf, inst, verifyOpts{knownActive: known.active(), split: &v}))
					}
					continue
				}
				rep.Funcs = append(rep.Funcs, safeVerify(P, fn, c, cf, inst, verifyOpts{knownActive: known.active()}))
				for _, k := range c.Known {
					if known.active()[k.ID] {
						fr := safeVerify(P, fn, c, cf, inst, verifyOpts{knownActive: known.active(), canaryFor: k.ID})
						for _, o := range fr.Obls {
							o.Canary = true
							o.KnownID = k.ID
							o.Name = o.Name + "[canary " + k.ID + "]"
						}
						fr.Name += " [canary " + k.ID + "]"
						fr.Covers = nil
						rep.Canaries = append(rep.Canaries, fr)
					}
				}
			}
		}
		for _, l := range lemmasByMod[mp] {
			cf := P.Contracts[l.cf.Pkg]
			if cf == nil {
				cf = l.cf
			}
			if l.lm.Assumed {
				rep.Axioms = append(rep.Axioms, pkgShort(cf.Pkg)+".axiom."+l.lm.Name+": "+l.lm.Text)
				continue
			}
			o, errs := LemmaObligation(P, cf, l.lm)
			if o != nil && l.lm.KnownID != "" {
				if known.active()[l.lm.KnownID] {
					o.Canary = true
					o.KnownID = l.lm.KnownID
					o.Name += "[canary " + l.lm.KnownID + "]"
					rep.Canaries = append(rep.Canaries, &FuncResult{Name: o.Name, Obls: []*Obligation{o}})
				}
				o = nil
			}
			if o != nil {
				rep.Lemmas = append(rep.Lemmas, o)
			}
			for _, e := range errs {
				rep.InternalErrs = append(rep.InternalErrs, "lemma: "+e)
			}
		}
	}
	rep.GenS = time.Since(genStart).Seconds()
	rep.solveAll()
	return rep.finish(start)
}

func pkgShortName(cfg *Config, mods []Module, pkgPath string) string {
	// read the package clause from any go file of the package
	m := moduleOf(mods, pkgPath)
	if m == nil {
		return lastElem(pkgPath)
	}
	rel := strings.TrimPrefix(strings.TrimPrefix(pkgPath, m.Path), "/")
	dir := filepath.Join(m.Dir, rel)
	ents, _ := os.ReadDir(dir)
	for _, en := range ents {
		if strings.HasSuffix(en.Name(), ".go") && !strings.HasSuffix(en.Name(), "_test.go") {
			data, err := os.ReadFile(filepath.Join(dir, en.Name()))
			if err != nil {
				continue
			}
			for _, ln := range strings.Split(string(data), "\n") {
				ln = strings.TrimSpace(ln)
				if strings.HasPrefix(ln, "package ") {
					f := strings.Fields(ln)
					if len(f) >= 2 {
						return f[1]
					}
				}
			}
		}
	}
	return lastElem(pkgPath)
}

func lastElem(p string) string {
	if i := strings.LastIndex(p, "/"); i >= 0 {
		return p[i+1:]
	}
	return p
}

func safeVerify(P *Program, fn *ssa.Function, c *Contract, cf *ContractFile, inst string, vo verifyOpts) (fr *FuncResult) {
	defer func() {
		if r := recover(); r != nil {
			name := pkgShort(c.Pkg) + "." + c.Key
			fr = &FuncResult{Pkg: c.Pkg, Key: c.Key, Inst: inst, Name: name, BindErrs: []string{fmt.Sprintf("%s: internal error during VC generation: %v", name, r)}}
			if os.Getenv("GOVC_PANIC") != "" {
				panic(r)
			}
		}
	}()
	return VerifyFunc(P, fn, c, cf, inst, vo)
}

func writeJSON(path string, v any) error {
	data, err := json.MarshalIndent(v, "", " ")
	if err != nil {
		return err
	}
	if err := os.MkdirAll(filepath.Dir(path), 0o755); err != nil {
		return err
	}
	return os.WriteFile(path, append(data, '\n'), 0o644)
}
