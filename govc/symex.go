package main

// Symbolic execution of go/ssa function bodies into verification conditions (DESIGN.md 3.5).
// Blocks are processed in reverse post-order of the CFG with back edges cut; joins merge
// values and state with ite terms (one query per obligation, no path enumeration).

import (
	"fmt"
	"go/ast"
	"strings"
	"go/constant"
	"go/token"
	"go/types"
	"sort"

	"golang.org/x/tools/go/ssa"
)

type Loop struct {
	Header *ssa.BasicBlock
	Blocks map[*ssa.BasicBlock]bool
	Back   []*ssa.BasicBlock
	Ord    int
	// runtime
	variant0 string
	havocked bool
	kVar     string // $k
}

type retInfo struct {
	st   *State
	vals []Val
}

type deferEntry struct {
	instr *ssa.Defer
	cond  string
	args  []Val
	fnval Val
}

type Frame struct {
	e       *Engine
	fn      *ssa.Function
	prefix  string
	depth   int
	vals    map[ssa.Value]Val
	sliceSnap map[ssa.Value]sliceSnapshot // slices over a snapshot of an array field: copy-out after calls
	out     map[*ssa.BasicBlock]*State
	edgeC   map[*ssa.BasicBlock][2]string // branch conditions of the terminating If
	loops   map[*ssa.BasicBlock]*Loop
	loopOf  map[*ssa.BasicBlock][]*Loop
	returns []retInfo
	defers  []deferEntry
	isTop   bool
	params  []Val
	entry   *State
	label   string // "" for top, "@callee" for inlined frames
	contract *Contract
	names   map[string][]*ssa.DebugRef
	parent  *Frame
	freeVars []Val
	panicked []*State
	silent   bool
	cellFns  map[*ssa.Alloc]*FuncVal
	fieldStored map[string]bool
}

func (e *Engine) newFrame(fn *ssa.Function, parent *Frame) *Frame {
	f := &Frame{e: e, fn: fn, vals: map[ssa.Value]Val{}, out: map[*ssa.BasicBlock]*State{}, edgeC: map[*ssa.BasicBlock][2]string{},
		loops: map[*ssa.BasicBlock]*Loop{}, loopOf: map[*ssa.BasicBlock][]*Loop{}, parent: parent}
	if parent != nil {
		f.depth = parent.depth + 1
		f.label = "@" + funcKey(fn)
	}
	e.n++
	f.prefix = fmt.Sprintf("f%d", e.n)
	f.findLoops()
	f.names = map[string][]*ssa.DebugRef{}
	for _, b := range fn.Blocks {
		for _, in := range b.Instrs {
			if d, ok := in.(*ssa.DebugRef); ok {
				if id, ok := d.Expr.(interface{ String() string }); ok {
					_ = id
				}
				// only plain identifiers name variables; selector expressions (s.attributes) refer to fields
				if _, isIdent := d.Expr.(*ast.Ident); !isIdent {
					continue
				}
				if obj := d.Object(); obj != nil {
					if v, isVar := obj.(*types.Var); isVar && v.IsField() {
						continue
					}
					f.names[obj.Name()] = append(f.names[obj.Name()], d)
				}
			}
		}
	}
	return f
}

func (f *Frame) findLoops() {
	fn := f.fn
	if len(fn.Blocks) == 0 {
		return
	}
	var headers []*ssa.BasicBlock
	for _, b := range fn.Blocks {
		for _, s := range b.Succs {
			if s.Dominates(b) {
				l := f.loops[s]
				if l == nil {
					l = &Loop{Header: s, Blocks: map[*ssa.BasicBlock]bool{s: true}}
					f.loops[s] = l
					headers = append(headers, s)
				}
				l.Back = append(l.Back, b)
				// natural loop: blocks reaching b without passing s
				stack := []*ssa.BasicBlock{b}
				for len(stack) > 0 {
					x := stack[len(stack)-1]
					stack = stack[:len(stack)-1]
					if l.Blocks[x] {
						continue
					}
					l.Blocks[x] = true
					stack = append(stack, x.Preds...)
				}
			}
		}
	}
	sort.Slice(headers, func(i, j int) bool { return headers[i].Index < headers[j].Index })
	for i, h := range headers {
		f.loops[h].Ord = i + 1
	}
	for _, h := range headers {
		l := f.loops[h]
		for b := range l.Blocks {
			f.loopOf[b] = append(f.loopOf[b], l)
		}
	}
}

func (f *Frame) rpo() []*ssa.BasicBlock {
	seen := map[*ssa.BasicBlock]bool{}
	var order []*ssa.BasicBlock
	var dfs func(b *ssa.BasicBlock)
	dfs = func(b *ssa.BasicBlock) {
		seen[b] = true
		for i := len(b.Succs) - 1; i >= 0; i-- {
			s := b.Succs[i]
			if seen[s] || s.Dominates(b) {
				continue
			}
			dfs(s)
		}
		order = append(order, b)
	}
	dfs(f.fn.Blocks[0])
	for i, j := 0, len(order)-1; i < j; i, j = i+1, j-1 {
		order[i], order[j] = order[j], order[i]
	}
	return order
}

// obligation emission
func (e *Engine) ob(f *Frame, kind, desc string, cond, goal string, pos token.Pos) *Obligation {
	if f != nil && f.isSilent() {
		return &Obligation{}
	}
	if f != nil && f.label != "" {
		kind = kind + f.label
	}
	e.ordinals[kind]++
	name := fmt.Sprintf("%s.%s#%d", e.fname, kind, e.ordinals[kind])
	return e.obNamed(name, kind, desc, cond, goal, pos)
}

func (e *Engine) obNamed(name, kind, desc string, cond, goal string, pos token.Pos) *Obligation {
	o := &Obligation{Name: name, Func: e.fname, Kind: kind, Desc: desc, sc: e.sc, snap: e.sc.Snap(),
		goal: "(assert (not " + sImp(cond, goal) + "))", Pos: e.P.pos(pos), Inputs: e.inputs, Bounded: e.bounded}
	o.extra = append(o.extra, e.extraAssume...)
	e.obls = append(e.obls, o)
	return o
}

// check emits an obligation and then assumes the fact (assert-then-assume).
func (e *Engine) check(f *Frame, st *State, kind, desc, goal string, pos token.Pos) {
	if goal == "true" {
		return
	}
	if f != nil && f.isSilent() {
		return
	}
	if e.C != nil && e.C.SkipPanics != "" && (strings.HasPrefix(kind, "no-panic") || kind == "range") {
		e.skippedPanics++
		e.assume(st.cond, goal)
		return
	}
	e.ob(f, kind, desc, st.cond, goal, pos)
	e.assume(st.cond, goal)
}

// ---- value lookup

func (f *Frame) val(v ssa.Value) Val {
	if x, ok := f.vals[v]; ok {
		return x
	}
	e := f.e
	switch c := v.(type) {
	case *ssa.Const:
		return e.constVal(c)
	case *ssa.Global:
		return Val{T: c.Type(), Loc: &Loc{Kind: LGlobal, Global: c, RootT: c.Type().(*types.Pointer).Elem()}}
	case *ssa.Function:
		return Val{T: c.Type(), Fn: &FuncVal{Fn: c}, S: e.funcTerm(c)}
	case *ssa.Builtin:
		return Val{T: c.Type()}
	case *ssa.FreeVar:
		for i, fv := range f.fn.FreeVars {
			if fv == c && i < len(f.freeVars) {
				return f.freeVars[i]
			}
		}
	case *ssa.Parameter:
		// unbound parameter
	}
	e.note("unbound value %s (%T) in %s: havocked", v.Name(), v, f.fn.Name())
	x := e.havocVal(v.Type(), "unbound", nil)
	f.vals[v] = x
	return x
}

func (e *Engine) funcTerm(fn *ssa.Function) string {
	name := "fn." + sanitizeSym(funcPkgPath(fn)+"."+funcKey(fn))
	e.sc.Decl("const:"+name, fmt.Sprintf("(declare-const %s Func)", name))
	e.sc.Decl("ax:"+name, fmt.Sprintf("(assert (not (= %s func.nil)))", name))
	return name
}

func (e *Engine) constVal(c *ssa.Const) Val {
	t := c.Type()
	if c.Value == nil {
		return Val{T: t, S: e.zero(t)}
	}
	switch u := t.Underlying().(type) {
	case *types.Basic:
		switch {
		case u.Info()&types.IsBoolean != 0:
			if constant.BoolVal(c.Value) {
				return Val{T: t, S: "true"}
			}
			return Val{T: t, S: "false"}
		case u.Info()&types.IsInteger != 0:
			s := c.Value.ExactString()
			if c.Value.Kind() == constant.Float {
				if i := constant.ToInt(c.Value); i.Kind() == constant.Int {
					s = i.ExactString()
				}
			}
			return Val{T: t, S: e.intLit(u, s)}
		case u.Info()&types.IsFloat != 0:
			f, _ := constant.Float64Val(c.Value)
			return Val{T: t, S: fpLit(f, u.Kind() == types.Float32)}
		case u.Info()&types.IsString != 0:
			return Val{T: t, S: e.strLit(constant.StringVal(c.Value))}
		}
	}
	return Val{T: t, S: e.zero(t)}
}

func (e *Engine) strLit(s string) string {
	if s == "" {
		return "str.empty"
	}
	if n, ok := e.strlits[s]; ok {
		return n
	}
	name := fmt.Sprintf("strlit.%d", len(e.strlits)+1)
	e.strlits[s] = name
	var facts []string
	facts = append(facts, fmt.Sprintf("(= (slen %s) %d)", name, len(s)))
	for i := 0; i < len(s); i++ {
		facts = append(facts, fmt.Sprintf("(= (sbyte %s %d) %d)", name, i, s[i]))
	}
	e.sc.decls = append(e.sc.decls, fmt.Sprintf("(declare-const %s Str)", name), "(assert "+sAnd(facts...)+")")
	return name
}

// havocVal: fresh value of type t with typing facts assumed.
func (e *Engine) havocVal(t types.Type, prefix string, st *State) Val {
	if tup, ok := t.(*types.Tuple); ok {
		var vs []Val
		for i := 0; i < tup.Len(); i++ {
			vs = append(vs, e.havocVal(tup.At(i).Type(), prefix, st))
		}
		return Val{T: t, Tuple: vs}
	}
	n := e.freshConst(prefix, e.sortOf(t))
	wm := ""
	if st != nil {
		wm = st.wm
	}
	e.assume("true", e.typingFact(t, n, wm))
	return Val{T: t, S: n}
}

func (e *Engine) assumeTyping(st *State, v Val) {
	if v.T == nil || v.S == "" {
		return
	}
	switch v.T.Underlying().(type) {
	case *types.Basic, *types.Slice, *types.Pointer, *types.Map, *types.Chan:
		// guarded by the path condition: the term may denote an ill-formed value on paths that never compute it
		// (e.g. a re-slice whose bounds only make sense inside its branch); an unguarded fact would make those
		// other paths infeasible and their proofs vacuous
		e.assume(st.cond, e.typingFact(v.T, v.S, st.wm))
	}
}

// ---- locations

func (e *Engine) locOf(f *Frame, v Val) *Loc {
	if v.Loc != nil {
		return v.Loc
	}
	if p, ok := v.T.Underlying().(*types.Pointer); ok {
		return &Loc{Kind: LHeap, Base: v.S, RootT: p.Elem()}
	}
	return nil
}

func (e *Engine) loadRoot(st *State, l *Loc) string {
	switch l.Kind {
	case LCell:
		if v, ok := st.cells[l.Cell]; ok {
			return v
		}
		return e.zero(l.RootT)
	case LHeap:
		return fmt.Sprintf("(select %s %s)", e.getHeapP(st, e.sortOf(l.RootT)), l.Base)
	case LElem:
		return fmt.Sprintf("(select (select %s %s) %s)", e.getHeapA(st, e.sortOf(l.RootT)), l.Base, l.Idx)
	case LGlobal:
		return e.getGlobal(st, l.Global)
	}
	return "0"
}

func (e *Engine) storeRoot(st *State, l *Loc, v string) {
	switch l.Kind {
	case LCell:
		st.cells[l.Cell] = e.define("cell", e.sortOf(l.RootT), v)
	case LHeap:
		srt := e.sortOf(l.RootT)
		st.heapP[srt] = e.define("hp", e.heapPSort(srt), fmt.Sprintf("(store %s %s %s)", e.getHeapP(st, srt), l.Base, v))
	case LElem:
		srt := e.sortOf(l.RootT)
		h := e.getHeapA(st, srt)
		st.heapA[srt] = e.define("ha", e.heapASort(srt), fmt.Sprintf("(store %s %s (store (select %s %s) %s %s))", h, l.Base, h, l.Base, l.Idx, v))
	case LGlobal:
		st.globals[l.Global] = e.define("g", e.sortOf(l.RootT), v)
	}
}

func (e *Engine) pathGet(root string, path []PathElem) string {
	v := root
	for _, p := range path {
		if p.Field >= 0 {
			v = e.fieldSel(p.STyp, p.ST, p.Field, v)
		} else {
			v = fmt.Sprintf("(select %s %s)", v, p.Idx)
		}
	}
	return v
}

func (e *Engine) pathSet(root string, path []PathElem, nv string) string {
	if len(path) == 0 {
		return nv
	}
	p := path[0]
	if p.Field >= 0 {
		inner := e.pathSet(e.fieldSel(p.STyp, p.ST, p.Field, root), path[1:], nv)
		return e.structUpdate(p.STyp, p.ST, root, p.Field, inner)
	}
	inner := e.pathSet(fmt.Sprintf("(select %s %s)", root, p.Idx), path[1:], nv)
	return fmt.Sprintf("(store %s %s %s)", root, p.Idx, inner)
}

func (e *Engine) load(st *State, l *Loc) string {
	if l.Kind == LChoice {
		r := e.load(st, l.Alts[len(l.Alts)-1].L)
		for i := len(l.Alts) - 2; i >= 0; i-- {
			r = sIte(l.Alts[i].Cond, e.load(st, l.Alts[i].L), r)
		}
		return r
	}
	return e.pathGet(e.loadRoot(st, l), l.Path)
}

func (e *Engine) store(st *State, l *Loc, v string) {
	if l.Kind == LChoice {
		// conditional store to each alternative; the alternative chosen is the first whose condition holds
		taken := "false"
		for i, a := range l.Alts {
			c := sAnd(a.Cond, sNot(taken))
			if i == len(l.Alts)-1 {
				c = sNot(taken)
			}
			e.store(st, a.L, sIte(c, v, e.load(st, a.L)))
			taken = sOr(taken, a.Cond)
		}
		return
	}
	if len(l.Path) == 0 {
		e.storeRoot(st, l, v)
		return
	}
	root := e.loadRoot(st, l)
	e.storeRoot(st, l, e.pathSet(root, l.Path, v))
}

func locType(l *Loc) types.Type {
	if l.Kind == LChoice && len(l.Alts) > 0 {
		return locType(l.Alts[0].L)
	}
	t := l.RootT
	for _, p := range l.Path {
		if p.Field >= 0 {
			t = p.ST.Field(p.Field).Type()
		} else {
			t = p.AT.Underlying().(*types.Array).Elem()
		}
	}
	return t
}

// ptrTerm gives the Int term of a pointer value (only whole heap objects have one).
func (e *Engine) ptrTerm(v Val) (string, bool) {
	if v.S != "" {
		return v.S, true
	}
	if v.Loc != nil && v.Loc.Kind == LHeap && len(v.Loc.Path) == 0 {
		return v.Loc.Base, true
	}
	return "", false
}

// ---- running a function body

// run executes the body of f.fn from state st with params bound; returns merged return state and values.
func (f *Frame) run(st *State, args []Val) (*State, []Val) {
	e := f.e
	fn := f.fn
	for i, p := range fn.Params {
		if i < len(args) {
			f.vals[p] = args[i]
		}
	}
	f.entry = st
	prevFrame := e.curFrame
	e.curFrame = f
	defer func() { e.curFrame = prevFrame }()
	order := f.rpo()
	for _, b := range order {
		var in []*State
		var inPreds []*ssa.BasicBlock
		if b == fn.Blocks[0] {
			s := st.clone()
			in = append(in, s)
			inPreds = append(inPreds, nil)
		}
		for _, p := range b.Preds {
			if b.Dominates(p) && f.loops[b] != nil {
				continue // back edge
			}
			ps := f.out[p]
			if ps == nil || ps.dead {
				continue
			}
			s := ps.clone()
			s.cond = f.edgeCond(p, b, ps)
			if s.cond == "false" {
				continue
			}
			in = append(in, s)
			inPreds = append(inPreds, p)
		}
		if len(in) == 0 {
			continue
		}
		cur := e.mergeStates(in)
		// phis
		phiVals := map[*ssa.Phi]Val{}
		for _, instr := range b.Instrs {
			phi, ok := instr.(*ssa.Phi)
			if !ok {
				break
			}
			phiVals[phi] = f.mergePhi(phi, b, in, inPreds)
		}
		if l := f.loops[b]; l != nil {
			cur = f.enterLoop(l, cur, phiVals)
		} else {
			for phi, v := range phiVals {
				f.vals[phi] = v
			}
		}
		f.execBlock(b, cur)
	}
	// merge returns
	if len(f.returns) == 0 {
		dead := st.clone()
		dead.cond = "false"
		dead.dead = true
		var vals []Val
		res := fn.Signature.Results()
		for i := 0; i < res.Len(); i++ {
			vals = append(vals, Val{T: res.At(i).Type(), S: e.zero(res.At(i).Type())})
		}
		return dead, vals
	}
	var sts []*State
	for _, r := range f.returns {
		sts = append(sts, r.st)
	}
	rst := e.mergeStates(sts)
	var vals []Val
	res := fn.Signature.Results()
	for i := 0; i < res.Len(); i++ {
		t := res.At(i).Type()
		term := f.returns[len(f.returns)-1].vals[i].S
		for k := len(f.returns) - 2; k >= 0; k-- {
			term = sIte(f.returns[k].st.cond, f.returns[k].vals[i].S, term)
		}
		v := Val{T: t, S: e.define(f.prefix+".ret", e.sortOf(t), term)}
		if len(f.returns) == 1 {
			v = f.returns[0].vals[i]
			v.T = t
		}
		vals = append(vals, v)
	}
	return rst, vals
}

func (f *Frame) edgeCond(p, b *ssa.BasicBlock, ps *State) string {
	ec, ok := f.edgeC[p]
	if !ok {
		return ps.cond
	}
	if len(p.Succs) == 2 {
		if p.Succs[0] == b && p.Succs[1] == b {
			return ps.cond
		}
		if p.Succs[0] == b {
			return sAnd(ps.cond, ec[0])
		}
		return sAnd(ps.cond, ec[1])
	}
	return ps.cond
}

func (f *Frame) mergePhi(phi *ssa.Phi, b *ssa.BasicBlock, in []*State, inPreds []*ssa.BasicBlock) Val {
	e := f.e
	var terms []Val
	for k, p := range inPreds {
		_ = k
		found := false
		for i, bp := range b.Preds {
			if bp == p {
				terms = append(terms, f.val(phi.Edges[i]))
				found = true
				break
			}
		}
		if !found {
			terms = append(terms, Val{T: phi.Type(), S: e.zero(phi.Type())})
		}
	}
	if len(terms) == 0 {
		return e.havocVal(phi.Type(), "phi", nil)
	}
	if len(terms) == 1 {
		v := terms[0]
		v.T = phi.Type()
		return v
	}
	// tuple / loc / fn values: only mergeable when identical
	allSame := true
	for _, t := range terms[1:] {
		if t.S != terms[0].S || t.Loc != terms[0].Loc || t.Fn != terms[0].Fn {
			allSame = false
		}
	}
	if allSame {
		v := terms[0]
		v.T = phi.Type()
		return v
	}
	allLoc := true
	for _, t := range terms {
		if t.Loc == nil || t.S != "" || t.Loc.Kind == LCell {
			allLoc = false
		}
	}
	if allLoc {
		// a pointer into one of several objects/fields, selected by the edge taken
		nl := &Loc{Kind: LChoice, RootT: terms[0].Loc.RootT}
		for i, t := range terms {
			if t.Loc.Kind == LChoice {
				for _, a := range t.Loc.Alts {
					nl.Alts = append(nl.Alts, LocAlt{Cond: sAnd(in[i].cond, a.Cond), L: a.L})
				}
				continue
			}
			nl.Alts = append(nl.Alts, LocAlt{Cond: in[i].cond, L: t.Loc})
		}
		return Val{T: phi.Type(), Loc: nl}
	}
	for _, t := range terms {
		if t.S == "" {
			e.note("phi %s in %s merges non-term values: havocked", phi.Name(), f.fn.Name())
			return e.havocVal(phi.Type(), "phi", in[0])
		}
	}
	r := terms[len(terms)-1].S
	for i := len(terms) - 2; i >= 0; i-- {
		r = sIte(in[i].cond, terms[i].S, r)
	}
	return Val{T: phi.Type(), S: e.define(f.prefix+"."+phi.Name(), e.sortOf(phi.Type()), r)}
}

func (f *Frame) execBlock(b *ssa.BasicBlock, st *State) {
	e := f.e
	if f.parent == nil {
		e.curBlock = b
	}
	for _, instr := range b.Instrs {
		if st.dead {
			break
		}
		switch in := instr.(type) {
		case *ssa.Phi, *ssa.DebugRef:
			continue
		case *ssa.If:
			c := f.val(in.Cond).S
			f.edgeC[b] = [2]string{c, sNot(c)}
		case *ssa.Jump:
		case *ssa.Return:
			var vals []Val
			for _, r := range in.Results {
				vals = append(vals, f.val(r))
			}
			rs := st.clone()
			f.returns = append(f.returns, retInfo{st: rs, vals: vals})
			if f.parent == nil {
				e.siteReturn(f, rs, in, vals)
			}
		case *ssa.Panic:
			f.execPanic(in, st)
			st.dead = true
		default:
			f.exec(instr, st)
		}
	}
	f.out[b] = st
	if st.dead {
		return
	}
	// back edges leaving this block
	for _, s := range b.Succs {
		if l := f.loops[s]; l != nil && l.Blocks[b] && s.Dominates(b) {
			bs := st.clone()
			bs.cond = f.edgeCond(b, s, st)
			f.backEdge(l, b, bs)
		}
	}
}

func (f *Frame) execPanic(in *ssa.Panic, st *State) {
	e := f.e
	// explicit panic: must be unreachable unless the contract says otherwise
	if e.C != nil && e.C.SkipPanics != "" {
		e.skippedPanics++
	} else {
		e.ob(f, "no-panic.explicit", "explicit panic is unreachable", st.cond, "false", in.Pos())
	}
}

func (f *Frame) set(v ssa.Value, x Val) {
	if x.T == nil {
		x.T = v.Type()
	}
	f.vals[v] = x
}

func (f *Frame) defval(v ssa.Value, term string) Val {
	e := f.e
	x := Val{T: v.Type(), S: e.define(f.prefix+"."+v.Name(), e.sortOf(v.Type()), term)}
	f.vals[v] = x
	return x
}

func isInt(t types.Type) (*types.Basic, bool) {
	b, ok := t.Underlying().(*types.Basic)
	if ok && b.Info()&types.IsInteger != 0 {
		return b, true
	}
	return nil, false
}
func isFloat(t types.Type) (*types.Basic, bool) {
	b, ok := t.Underlying().(*types.Basic)
	if ok && b.Info()&types.IsFloat != 0 {
		return b, true
	}
	return nil, false
}
func isString(t types.Type) bool {
	b, ok := t.Underlying().(*types.Basic)
	return ok && b.Info()&types.IsString != 0
}
func isBool(t types.Type) bool {
	b, ok := t.Underlying().(*types.Basic)
	return ok && b.Info()&types.IsBoolean != 0
}

func (f *Frame) exec(instr ssa.Instruction, st *State) {
	e := f.e
	switch in := instr.(type) {
	case *ssa.Alloc:
		f.execAlloc(in, st)
	case *ssa.BinOp:
		x, y := f.val(in.X), f.val(in.Y)
		f.set(in, e.binop(f, st, in.Op, x, y, in.Type(), in.Pos()))
	case *ssa.UnOp:
		f.execUnOp(in, st)
	case *ssa.Call:
		r := f.execCall(in, st)
		f.set(in, r)
	case *ssa.ChangeType:
		v := f.val(in.X)
		v.T = in.Type()
		f.set(in, v)
	case *ssa.ChangeInterface:
		v := f.val(in.X)
		v.T = in.Type()
		f.set(in, v)
	case *ssa.Convert:
		f.set(in, e.convert(f, st, f.val(in.X), in.Type(), in.Pos()))
	case *ssa.MultiConvert:
		f.set(in, e.convert(f, st, f.val(in.X), in.Type(), in.Pos()))
	case *ssa.MakeInterface:
		f.set(in, e.makeIface(f.val(in.X), in.Type()))
	case *ssa.TypeAssert:
		f.execTypeAssert(in, st)
	case *ssa.Extract:
		t := f.val(in.Tuple)
		if in.Index < len(t.Tuple) {
			v := t.Tuple[in.Index]
			if v.T == nil {
				v.T = in.Type()
			}
			f.set(in, v)
		} else {
			f.set(in, e.havocVal(in.Type(), "extract", st))
		}
	case *ssa.Field:
		x := f.val(in.X)
		stt := x.T.Underlying().(*types.Struct)
		v := f.defval(in, e.fieldSel(x.T, stt, in.Field, x.S))
		e.assumeTyping(st, v)
	case *ssa.FieldAddr:
		x := f.val(in.X)
		l := e.locOf(f, x)
		if l == nil {
			e.note("FieldAddr on unknown location in %s", f.fn.Name())
			f.set(in, e.havocVal(in.Type(), "faddr", st))
			return
		}
		if l.Kind == LHeap && len(l.Path) == 0 {
			e.check(f, st, "no-panic.nil", "nil pointer dereference", sNot(sEq(l.Base, "0")), in.Pos())
		}
		pt := in.X.Type().Underlying().(*types.Pointer).Elem()
		if l.Kind == LChoice {
			nl := &Loc{Kind: LChoice, RootT: l.RootT}
			for _, a := range l.Alts {
				al := *a.L
				al.Path = append(append([]PathElem{}, a.L.Path...), PathElem{Field: in.Field, ST: pt.Underlying().(*types.Struct), STyp: pt})
				nl.Alts = append(nl.Alts, LocAlt{Cond: a.Cond, L: &al})
			}
			f.set(in, Val{T: in.Type(), Loc: nl})
			return
		}
		nl := *l
		nl.Path = append(append([]PathElem{}, l.Path...), PathElem{Field: in.Field, ST: pt.Underlying().(*types.Struct), STyp: pt})
		f.set(in, Val{T: in.Type(), Loc: &nl})
	case *ssa.Index:
		x, i := f.val(in.X), f.val(in.Index)
		switch u := x.T.Underlying().(type) {
		case *types.Array:
			e.check(f, st, "no-panic.index", "array index in range", e.inRange(i, sInt(u.Len())), in.Pos())
			f.defval(in, fmt.Sprintf("(select %s %s)", x.S, e.idxTerm(i)))
		case *types.Basic: // string
			e.check(f, st, "no-panic.index", "string index in range", e.inRange(i, "(slen "+x.S+")"), in.Pos())
			f.defval(in, e.byteOfStr(x.S, e.idxTerm(i), in.Type()))
		default:
			f.set(in, e.havocVal(in.Type(), "index", st))
		}
	case *ssa.IndexAddr:
		f.execIndexAddr(in, st)
	case *ssa.Lookup:
		f.execLookup(in, st)
	case *ssa.Slice:
		f.execSlice(in, st)
	case *ssa.MakeSlice:
		ln, cp := f.val(in.Len), f.val(in.Cap)
		e.check(f, st, "no-panic.makeslice", "make: len and cap non-negative and len <= cap",
			sAnd("(<= 0 "+e.idxTerm(ln)+")", "(<= "+e.idxTerm(ln)+" "+e.idxTerm(cp)+")"), in.Pos())
		// a successful allocation fits the address space (out-of-memory is outside every property)
		e.assume(st.cond, "(<= "+e.idxTerm(cp)+" 4611686018427387904)")
		e.assumed["allocations succeed: sizes beyond the address space / out-of-memory are not checked"] = true
		et := in.Type().Underlying().(*types.Slice).Elem()
		arr := e.alloc(st)
		srt := e.sortOf(et)
		h := e.getHeapA(st, srt)
		st.heapA[srt] = e.define("ha", e.heapASort(srt), fmt.Sprintf("(store %s %s %s)", h, arr, e.constArray(srt, e.zero(et))))
		f.defval(in, fmt.Sprintf("(mk-slice %s 0 %s %s)", arr, e.idxTerm(ln), e.idxTerm(cp)))
	case *ssa.MakeMap:
		mt := in.Type().Underlying().(*types.Map)
		id := e.alloc(st)
		k := e.mapKey(mt)
		st.mapD[k] = e.define("md", e.mapSorts[k][0], fmt.Sprintf("(store %s %s ((as const (Array %s Bool)) false))", e.getMapD(st, mt), id, e.sortOf(mt.Key())))
		st.mapN[k] = e.define("mn", "(Array Int Int)", fmt.Sprintf("(store %s %s 0)", e.getMapN(st, mt), id))
		f.set(in, Val{T: in.Type(), S: id})
	case *ssa.MakeChan:
		e.check(f, st, "no-panic.makechan", "make(chan): size non-negative", "(<= 0 "+e.idxTerm(f.val(in.Size))+")", in.Pos())
		id := e.alloc(st)
		f.set(in, Val{T: in.Type(), S: id})
	case *ssa.MakeClosure:
		fn := in.Fn.(*ssa.Function)
		var b []Val
		for _, x := range in.Bindings {
			b = append(b, f.val(x))
		}
		f.set(in, Val{T: in.Type(), Fn: &FuncVal{Fn: fn, Bindings: b}, S: e.funcTerm(fn)})
	case *ssa.MapUpdate:
		f.execMapUpdate(in, st)
	case *ssa.Store:
		f.execStore(in, st)
	case *ssa.Range:
		x := f.val(in.X)
		if isString(x.T) {
			st.iters[in] = "0"
			f.set(in, Val{T: in.Type(), S: x.S})
		} else {
			// map iteration: ghost iteration index and ghost set of visited keys
			st.iters[in] = "0"
			if mt, ok := in.X.Type().Underlying().(*types.Map); ok {
				st.visited[in] = "((as const (Array " + e.sortOf(mt.Key()) + " Bool)) false)"
			}
			f.set(in, Val{T: in.Type(), S: x.S})
		}
	case *ssa.Next:
		f.execNext(in, st)
	case *ssa.Defer:
		var args []Val
		for _, a := range in.Call.Args {
			args = append(args, f.val(a))
		}
		var fv Val
		if !in.Call.IsInvoke() {
			fv = f.val(in.Call.Value)
		} else {
			fv = f.val(in.Call.Value)
		}
		f.defers = append(f.defers, deferEntry{instr: in, cond: st.cond, args: args, fnval: fv})
	case *ssa.RunDefers:
		f.runDefers(st)
	case *ssa.Go:
		e.note("go statement in %s: spawned function not followed", f.fn.Name())
		f.execGo(in, st)
	case *ssa.Send:
		f.execSend(in, st)
	case *ssa.Select:
		f.execSelect(in, st)
	case *ssa.SliceToArrayPointer:
		x := f.val(in.X)
		at := in.Type().Underlying().(*types.Pointer).Elem().Underlying().(*types.Array)
		e.check(f, st, "no-panic.slice2array", "slice long enough for array conversion", fmt.Sprintf("(>= (s.len %s) %d)", x.S, at.Len()), in.Pos())
		f.set(in, Val{T: in.Type(), Loc: &Loc{Kind: LElem, Base: "(s.arr " + x.S + ")", Idx: "(s.off " + x.S + ")", RootT: at.Elem(), Note: "arrayptr"}})
	default:
		e.note("unsupported instruction %T in %s: result havocked", instr, f.fn.Name())
		if v, ok := instr.(ssa.Value); ok {
			f.set(v, e.havocVal(v.Type(), "unsup", st))
		}
	}
}

func (e *Engine) alloc(st *State) string {
	n := e.define("wm", "Int", "(+ "+st.wm+" 1)")
	st.wm = n
	return n
}

// idxTerm: index values as Int terms (mode bv: bit-vector -> integer; literals directly).
func (e *Engine) idxTerm(v Val) string {
	if e.mode != "bv" {
		return v.S
	}
	if strings.HasPrefix(v.S, "(_ bv") {
		var n string
		var w int
		if _, err := fmt.Sscanf(v.S, "(_ bv%s %d)", &n, &w); err == nil {
			return n
		}
		f := strings.Fields(strings.TrimSuffix(strings.TrimPrefix(v.S, "(_ bv"), ")"))
		if len(f) == 2 {
			return f[0]
		}
	}
	if b, ok := isInt(v.T); ok && !isUnsigned(b) {
		return fmt.Sprintf("(ite (bvslt %s %s) (- (bv2nat (bvneg %s))) (bv2nat %s))", v.S, bvLit("0", intBits(b)), v.S, v.S)
	}
	return "(bv2nat " + v.S + ")"
}

func (e *Engine) inRange(i Val, n string) string {
	it := e.idxTerm(i)
	return fmt.Sprintf("(and (<= 0 %s) (< %s %s))", it, it, n)
}

func (e *Engine) byteOfStr(s, i string, t types.Type) string {
	if e.mode == "bv" {
		return fmt.Sprintf("((_ int2bv 8) (sbyte %s %s))", s, i)
	}
	return fmt.Sprintf("(sbyte %s %s)", s, i)
}

// escapes reports whether the address of an Alloc is used other than by direct loads/stores/field/index chains.
func allocEscapes(a *ssa.Alloc) bool {
	var visit func(v ssa.Value, depth int) bool
	visit = func(v ssa.Value, depth int) bool {
		refs := v.Referrers()
		if refs == nil {
			return true
		}
		for _, r := range *refs {
			switch x := r.(type) {
			case *ssa.DebugRef:
			case *ssa.UnOp:
				if x.Op != token.MUL {
					return true
				}
			case *ssa.Store:
				if x.Val == v {
					return true
				}
			case *ssa.FieldAddr:
				if isLockType(x.Type().(*types.Pointer).Elem()) {
					continue // lock operations are modelled by path, not by address
				}
				if visit(x, depth+1) {
					return true
				}
			case *ssa.IndexAddr:
				if visit(x, depth+1) {
					return true
				}
			default:
				return true
			}
		}
		return false
	}
	return visit(a, 0)
}

func isLockType(t types.Type) bool {
	n, ok := t.(*types.Named)
	if !ok {
		return false
	}
	if n.Obj().Pkg() == nil || n.Obj().Pkg().Path() != "sync" {
		return false
	}
	switch n.Obj().Name() {
	case "Mutex", "RWMutex", "Once", "WaitGroup":
		return true
	}
	return false
}

func (f *Frame) execAlloc(in *ssa.Alloc, st *State) {
	e := f.e
	et := in.Type().(*types.Pointer).Elem()
	if at, ok := et.Underlying().(*types.Array); ok {
		// arrays live in the array heap so that they can be sliced
		arr := e.alloc(st)
		srt := e.sortOf(at.Elem())
		h := e.getHeapA(st, srt)
		st.heapA[srt] = e.define("ha", e.heapASort(srt), fmt.Sprintf("(store %s %s %s)", h, arr, e.zero(et)))
		f.set(in, Val{T: in.Type(), Loc: &Loc{Kind: LElem, Base: arr, Idx: "", RootT: at.Elem(), Note: "array", Path: nil}, S: ""})
		f.arrayAlloc(in, arr, at)
		return
	}
	if !allocEscapes(in) {
		st.cells[in] = e.zero(et)
		f.set(in, Val{T: in.Type(), Loc: &Loc{Kind: LCell, Cell: in, RootT: et}})
		return
	}
	p := e.alloc(st)
	// guarded_by: an object allocated by the function under verification is initialised before it is shared
	e.freshObjs[p] = true
	srt := e.sortOf(et)
	st.heapP[srt] = e.define("hp", e.heapPSort(srt), fmt.Sprintf("(store %s %s %s)", e.getHeapP(st, srt), p, e.zero(et)))
	f.set(in, Val{T: in.Type(), S: p, Loc: &Loc{Kind: LHeap, Base: p, RootT: et}})
}

// array allocations: Loc{Kind: LElem, Base: arr, Idx: ""} denotes the whole array object arr.
func (f *Frame) arrayAlloc(in *ssa.Alloc, arr string, at *types.Array) {}

func (f *Frame) execUnOp(in *ssa.UnOp, st *State) {
	e := f.e
	x := f.val(in.X)
	switch in.Op {
	case token.NOT:
		f.defval(in, sNot(x.S))
	case token.SUB:
		if _, ok := isFloat(in.Type()); ok {
			f.defval(in, "(fp.neg "+x.S+")")
			return
		}
		b, _ := isInt(in.Type())
		if e.mode == "bv" {
			f.defval(in, "(bvneg "+x.S+")")
			return
		}
		r := "(- " + x.S + ")"
		v := f.defval(in, r)
		e.rangeCheck(f, st, b, v.S, in.Pos())
	case token.XOR:
		b, _ := isInt(in.Type())
		if e.mode == "bv" {
			f.defval(in, "(bvnot "+x.S+")")
			return
		}
		if isUnsigned(b) {
			_, hi := intRange(b)
			f.defval(in, "(- "+hi+" "+x.S+")")
		} else {
			f.defval(in, "(- (- "+x.S+") 1)")
		}
	case token.MUL: // load
		l := e.locOf(f, x)
		if l == nil {
			e.note("load through unknown pointer in %s", f.fn.Name())
			f.set(in, e.havocVal(in.Type(), "load", st))
			return
		}
		if l.Kind == LHeap && len(l.Path) == 0 {
			e.check(f, st, "no-panic.nil", "nil pointer dereference", sNot(sEq(l.Base, "0")), in.Pos())
		}
		if l.Kind == LElem && l.Idx == "" && l.Note == "array" {
			// whole array object
			term := fmt.Sprintf("(select %s %s)", e.getHeapA(st, e.sortOf(l.RootT)), l.Base)
			f.defval(in, e.pathGet(term, l.Path))
			return
		}
		if l.Kind == LElem && l.Note == "arrayptr" && len(l.Path) == 0 {
			// *(*[N]T)(slice): the array value made of the N elements starting at the slice's offset
			if at, ok := in.Type().Underlying().(*types.Array); ok && at.Len() <= 16 {
				srt := e.sortOf(at.Elem())
				h := e.getHeapA(st, srt)
				term := e.constArray(srt, e.zero(at.Elem()))
				for i := int64(0); i < at.Len(); i++ {
					term = fmt.Sprintf("(store %s %d (select (select %s %s) (+ %s %d)))", term, i, h, l.Base, l.Idx, i)
				}
				f.defval(in, term)
				return
			}
		}
		e.guardCheck(f, st, l, false, in.Pos())
		// repeated loads of a pointer-like field that this function never assigns yield the same term (stable identity
		// for lock keys and guarded-by bases even though the heap version changed in between)
		if key, ok := f.stableFieldKey(in, l); ok {
			if t, seen := e.stableLoads[key]; seen {
				v := Val{T: in.Type(), S: t}
				f.vals[in] = v
				e.assumeTyping(st, v)
				return
			}
			// a once-assigned captured variable: the value stored is the value loaded
			if a, ok := in.X.(*ssa.Alloc); ok {
				if refs := a.Referrers(); refs != nil {
					for _, r := range *refs {
						if sto, ok := r.(*ssa.Store); ok && sto.Addr == ssa.Value(a) {
							if sv, ok := f.vals[sto.Val]; ok && sv.S != "" {
								f.vals[in] = Val{T: in.Type(), S: sv.S}
								e.stableLoads[key] = sv.S
								return
							}
						}
					}
				}
			}
			v := f.defval(in, e.load(st, l))
			e.stableLoads[key] = v.S
			e.assumeTyping(st, v)
			return
		}
		v := f.defval(in, e.load(st, l))
		e.assumeTyping(st, v)
		if l.Kind == LGlobal {
			e.globalFacts(st, l.Global, v)
		}
	case token.ARROW:
		f.execRecv(in, st)
	default:
		e.note("unsupported unary op %s", in.Op)
		f.set(in, e.havocVal(in.Type(), "unop", st))
	}
}

func (f *Frame) execStore(in *ssa.Store, st *State) {
	e := f.e
	addr := f.val(in.Addr)
	v := f.val(in.Val)
	l := e.locOf(f, addr)
	if l == nil {
		e.note("store through unknown pointer in %s", f.fn.Name())
		return
	}
	if l.Kind == LHeap && len(l.Path) == 0 {
		e.check(f, st, "no-panic.nil", "nil pointer dereference", sNot(sEq(l.Base, "0")), in.Pos())
	}
	term := v.S
	if term == "" {
		if p, ok := e.ptrTerm(v); ok {
			term = p
		} else if v.Fn != nil {
			term = e.funcTerm(v.Fn.Fn)
		} else {
			e.note("store of a value without a term in %s (%s): havocked", f.fn.Name(), in.Val.Name())
			term = e.havocVal(in.Val.Type(), "stv", st).S
		}
	}
	if l.Kind == LElem && l.Idx == "" && l.Note == "array" {
		srt := e.sortOf(l.RootT)
		h := e.getHeapA(st, srt)
		if len(l.Path) == 0 {
			st.heapA[srt] = e.define("ha", e.heapASort(srt), fmt.Sprintf("(store %s %s %s)", h, l.Base, term))
		}
		return
	}
	e.guardCheck(f, st, l, true, in.Pos())
	e.funcFieldStore(f, st, in, v)
	e.storeAllocName = ""
	if a, ok := in.Addr.(*ssa.Alloc); ok && a.Heap {
		e.storeAllocName = a.Comment
	}
	e.siteAsserts(f, st, "store", l, v, in.Pos())
	e.storeAllocName = ""
	e.store(st, l, term)
	if v.Fn != nil && l.Kind == LCell {
		// remember closures stored in local cells
		if f.cellFns == nil {
			f.cellFns = map[*ssa.Alloc]*FuncVal{}
		}
		f.cellFns[l.Cell] = v.Fn
	}
}

func (f *Frame) execIndexAddr(in *ssa.IndexAddr, st *State) {
	e := f.e
	x, i := f.val(in.X), f.val(in.Index)
	switch u := in.X.Type().Underlying().(type) {
	case *types.Slice:
		e.check(f, st, "no-panic.index", "slice index in range", e.inRange(i, "(s.len "+x.S+")"), in.Pos())
		idx := e.define("idx", "Int", "(+ (s.off "+x.S+") "+e.idxTerm(i)+")")
		f.set(in, Val{T: in.Type(), Loc: &Loc{Kind: LElem, Base: "(s.arr " + x.S + ")", Idx: idx, RootT: u.Elem()}})
	case *types.Pointer:
		at := u.Elem().Underlying().(*types.Array)
		e.check(f, st, "no-panic.index", "array index in range", e.inRange(i, sInt(at.Len())), in.Pos())
		l := e.locOf(f, x)
		if l == nil {
			f.set(in, e.havocVal(in.Type(), "iaddr", st))
			return
		}
		if l.Kind == LElem && l.Idx == "" && l.Note == "array" {
			f.set(in, Val{T: in.Type(), Loc: &Loc{Kind: LElem, Base: l.Base, Idx: e.idxTerm(i), RootT: at.Elem()}})
			return
		}
		if l.Kind == LElem && l.Note == "arrayptr" {
			f.set(in, Val{T: in.Type(), Loc: &Loc{Kind: LElem, Base: l.Base, Idx: "(+ " + l.Idx + " " + e.idxTerm(i) + ")", RootT: at.Elem()}})
			return
		}
		nl := *l
		nl.Path = append(append([]PathElem{}, l.Path...), PathElem{Field: -1, Idx: e.idxTerm(i), AT: u.Elem()})
		f.set(in, Val{T: in.Type(), Loc: &nl})
	default:
		f.set(in, e.havocVal(in.Type(), "iaddr", st))
	}
}

func (f *Frame) execSlice(in *ssa.Slice, st *State) {
	e := f.e
	x := f.val(in.X)
	var lo, hi, mx string
	if in.Low != nil {
		lo = e.idxTerm(f.val(in.Low))
	}
	if in.High != nil {
		hi = e.idxTerm(f.val(in.High))
	}
	if in.Max != nil {
		mx = e.idxTerm(f.val(in.Max))
	}
	switch u := in.X.Type().Underlying().(type) {
	case *types.Basic: // string
		if lo == "" {
			lo = "0"
		}
		if hi == "" {
			hi = "(slen " + x.S + ")"
		}
		e.check(f, st, "no-panic.slice", "string slice bounds", fmt.Sprintf("(and (<= 0 %s) (<= %s %s) (<= %s (slen %s)))", lo, lo, hi, hi, x.S), in.Pos())
		f.defval(in, fmt.Sprintf("(ssub %s %s %s)", x.S, lo, hi))
	case *types.Slice:
		if lo == "" {
			lo = "0"
		}
		if hi == "" {
			hi = "(s.len " + x.S + ")"
		}
		capT := "(s.cap " + x.S + ")"
		if mx == "" {
			e.check(f, st, "no-panic.slice", "slice bounds", fmt.Sprintf("(and (<= 0 %s) (<= %s %s) (<= %s %s))", lo, lo, hi, hi, capT), in.Pos())
			f.defval(in, fmt.Sprintf("(mk-slice (s.arr %s) (+ (s.off %s) %s) (- %s %s) (- %s %s))", x.S, x.S, lo, hi, lo, capT, lo))
		} else {
			e.check(f, st, "no-panic.slice", "slice bounds", fmt.Sprintf("(and (<= 0 %s) (<= %s %s) (<= %s %s) (<= %s %s))", lo, lo, hi, hi, mx, mx, capT), in.Pos())
			f.defval(in, fmt.Sprintf("(mk-slice (s.arr %s) (+ (s.off %s) %s) (- %s %s) (- %s %s))", x.S, x.S, lo, hi, lo, mx, lo))
		}
	case *types.Pointer:
		at := u.Elem().Underlying().(*types.Array)
		l := e.locOf(f, x)
		n := sInt(at.Len())
		if lo == "" {
			lo = "0"
		}
		if hi == "" {
			hi = n
		}
		if l != nil && l.Kind == LElem && (l.Note == "array" || l.Note == "arrayptr") {
			e.check(f, st, "no-panic.slice", "array slice bounds", fmt.Sprintf("(and (<= 0 %s) (<= %s %s) (<= %s %s))", lo, lo, hi, hi, n), in.Pos())
			off := "0"
			if l.Idx != "" {
				off = l.Idx
			}
			f.defval(in, fmt.Sprintf("(mk-slice %s (+ %s %s) (- %s %s) (- %s %s))", l.Base, off, lo, hi, lo, n, lo))
			return
		}
		if l != nil {
			// array stored inside a struct or cell: the slice is taken over a snapshot copy of the array
			e.check(f, st, "no-panic.slice", "array slice bounds", fmt.Sprintf("(and (<= 0 %s) (<= %s %s) (<= %s %s))", lo, lo, hi, hi, n), in.Pos())
			arr := e.alloc(st)
			srt := e.sortOf(at.Elem())
			h := e.getHeapA(st, srt)
			st.heapA[srt] = e.define("ha", e.heapASort(srt), fmt.Sprintf("(store %s %s %s)", h, arr, e.load(st, l)))
			e.note("array field sliced in %s: the slice views a snapshot copy; what a callee that receives the slice leaves in it is copied back into the field (direct stores through the slice in this function are not)", funcKey(f.fn))
			f.defval(in, fmt.Sprintf("(mk-slice %s %s (- %s %s) (- %s %s))", arr, lo, hi, lo, n, lo))
			if f.sliceSnap == nil {
				f.sliceSnap = map[ssa.Value]sliceSnapshot{}
			}
			lc := *l
			f.sliceSnap[in] = sliceSnapshot{arr: arr, sort: srt, loc: &lc}
			return
		}
		e.note("slice of array behind a pointer in %s: havocked", f.fn.Name())
		f.set(in, e.havocVal(in.Type(), "slice", st))
	default:
		f.set(in, e.havocVal(in.Type(), "slice", st))
	}
}

func (f *Frame) execLookup(in *ssa.Lookup, st *State) {
	e := f.e
	x, k := f.val(in.X), f.val(in.Index)
	if isString(in.X.Type()) {
		e.check(f, st, "no-panic.index", "string index in range", e.inRange(k, "(slen "+x.S+")"), in.Pos())
		f.defval(in, e.byteOfStr(x.S, e.idxTerm(k), in.Type()))
		return
	}
	mt := in.X.Type().Underlying().(*types.Map)
	e.guardCheckMap(f, st, in.X, false, in.Pos())
	kt := e.keyTerm(k, mt.Key())
	dom := fmt.Sprintf("(select (select %s %s) %s)", e.getMapD(st, mt), x.S, kt)
	val := fmt.Sprintf("(select (select %s %s) %s)", e.getMapV(st, mt), x.S, kt)
	present := e.define("mapok", "Bool", sAnd(sNot(sEq(x.S, "0")), dom))
	v := e.define("mapv", e.sortOf(mt.Elem()), sIte(present, val, e.zero(mt.Elem())))
	vv := Val{T: mt.Elem(), S: v}
	e.assumeTyping(st, vv)
	if in.CommaOk {
		f.set(in, Val{T: in.Type(), Tuple: []Val{vv, {T: types.Typ[types.Bool], S: present}}})
	} else {
		f.set(in, vv)
	}
}

func (e *Engine) keyTerm(k Val, kt types.Type) string {
	if k.S != "" {
		return k.S
	}
	if p, ok := e.ptrTerm(k); ok {
		return p
	}
	return e.havocVal(kt, "key", nil).S
}

func (f *Frame) execMapUpdate(in *ssa.MapUpdate, st *State) {
	e := f.e
	m, k, v := f.val(in.Map), f.val(in.Key), f.val(in.Value)
	mt := in.Map.Type().Underlying().(*types.Map)
	e.check(f, st, "no-panic.nilmap", "assignment to entry in nil map", sNot(sEq(m.S, "0")), in.Pos())
	e.guardCheckMap(f, st, in.Map, true, in.Pos())
	e.rangeNoMutate(f, st, in.Block(), mt, m.S, in.Pos())
	// site "call mapupdate#k": $arg0 map, $arg1 key, $arg2 value
	e.siteCall(f, st, "mapupdate", []Val{m, k, v}, in.Pos())
	kt := e.keyTerm(k, mt.Key())
	vt := v.S
	if vt == "" {
		if p, ok := e.ptrTerm(v); ok {
			vt = p
		} else {
			vt = e.havocVal(mt.Elem(), "mv", st).S
		}
	}
	key := e.mapKey(mt)
	d, vv, n := e.getMapD(st, mt), e.getMapV(st, mt), e.getMapN(st, mt)
	was := fmt.Sprintf("(select (select %s %s) %s)", d, m.S, kt)
	st.mapN[key] = e.define("mn", "(Array Int Int)", fmt.Sprintf("(store %s %s (ite %s (select %s %s) (+ (select %s %s) 1)))", n, m.S, was, n, m.S, n, m.S))
	st.mapD[key] = e.define("md", e.mapSorts[key][0], fmt.Sprintf("(store %s %s (store (select %s %s) %s true))", d, m.S, d, m.S, kt))
	st.mapV[key] = e.define("mv", e.mapSorts[key][1], fmt.Sprintf("(store %s %s (store (select %s %s) %s %s))", vv, m.S, vv, m.S, kt, vt))
}

func (f *Frame) execNext(in *ssa.Next, st *State) {
	e := f.e
	rng, ok := in.Iter.(*ssa.Range)
	if !ok {
		f.set(in, e.havocVal(in.Type(), "next", st))
		return
	}
	it := f.val(in.Iter)
	if in.IsString {
		off := st.iters[rng]
		if off == "" {
			off = "0"
		}
		s := it.S
		okT := e.define("rok", "Bool", fmt.Sprintf("(< %s (slen %s))", off, s))
		r, w := e.utf8dec(s, off)
		rv := e.define("rune", "Int", r)
		wv := e.define("rw", "Int", w)
		st.iters[rng] = e.define("it", "Int", sIte(okT, "(+ "+off+" "+wv+")", off))
		if e.usesRunes() {
			// step lemma of runes_upto at the position this iteration visits
			e.assume(okT, fmt.Sprintf("(= %s (+ %s 1))", e.runesUpto(s, "(+ "+off+" "+wv+")"), e.runesUpto(s, off)))
		}
		tup := in.Type().(*types.Tuple)
		f.set(in, Val{T: in.Type(), Tuple: []Val{{T: tup.At(0).Type(), S: okT}, {T: tup.At(1).Type(), S: off}, {T: tup.At(2).Type(), S: rv}}})
		return
	}
	// map iteration: arbitrary present element; ghost index counts iterations
	mt := rng.X.Type().Underlying().(*types.Map)
	idx := st.iters[rng]
	if idx == "" {
		idx = "0"
	}
	m := it.S
	size := fmt.Sprintf("(select %s %s)", e.getMapN(st, mt), m)
	okT := e.define("mok", "Bool", sAnd(sNot(sEq(m, "0")), fmt.Sprintf("(< %s %s)", idx, size)))
	k := e.havocVal(mt.Key(), "mk", st)
	e.assume(okT, fmt.Sprintf("(select (select %s %s) %s)", e.getMapD(st, mt), m, k.S))
	if vis, ok := st.visited[rng]; ok {
		// every iteration yields a present key not yielded before; when the iteration ends the keys yielded are exactly the present keys
		// (Go guarantees this for a map that is not inserted into while being ranged over - checked syntactically)
		e.assume(okT, fmt.Sprintf("(not (select %s %s))", vis, k.S))
		{
			ks := e.sortOf(mt.Key())
			e.assume(sNot(okT), fmt.Sprintf("(forall ((k!v %s)) (! (= (and (not (= %s 0)) (select (select %s %s) k!v)) (select %s k!v)) :pattern ((select %s k!v)) :pattern ((select (select %s %s) k!v))))", ks, m, e.getMapD(st, mt), m, vis, vis, e.getMapD(st, mt), m))
			e.assumed["range over a map yields every key exactly once (that the ranged map is not updated inside the loop is an obligation at every map update of the same type in the loop: range.nomutate)"] = true
		}
		st.visited[rng] = e.define("vis", "(Array "+e.sortOf(mt.Key())+" Bool)", sIte(okT, fmt.Sprintf("(store %s %s true)", vis, k.S), vis))
	}
	v := e.define("mval", e.sortOf(mt.Elem()), fmt.Sprintf("(select (select %s %s) %s)", e.getMapV(st, mt), m, k.S))
	vv := Val{T: mt.Elem(), S: v}
	e.assumeTyping(st, vv)
	st.iters[rng] = e.define("it", "Int", "(+ "+idx+" 1)")
	tup := in.Type().(*types.Tuple)
	f.set(in, Val{T: in.Type(), Tuple: []Val{{T: tup.At(0).Type(), S: okT}, k, vv}})
	e.mapIterKey(f, rng, k.S, idx, okT)
}

// rangeNoMutate: a map update (insert/delete/clear) inside a range-over-map loop must not hit the ranged map itself,
// otherwise the "every key exactly once" model of the iteration would not be justified.
func (e *Engine) rangeNoMutate(f *Frame, st *State, blk *ssa.BasicBlock, mt *types.Map, m string, pos token.Pos) {
	if f.parent != nil {
		return
	}
	for rng := range st.visited {
		rmt, ok := rng.X.Type().Underlying().(*types.Map)
		if !ok || !types.Identical(rmt, mt) || rng.Parent() != f.fn {
			continue
		}
		// the innermost loop that contains the Next of this range
		var body map[*ssa.BasicBlock]bool
		for _, b := range f.fn.Blocks {
			for _, in := range b.Instrs {
				if n, ok := in.(*ssa.Next); ok && n.Iter == ssa.Value(rng) {
					for _, l := range f.loopOf[b] {
						if body == nil || len(l.Blocks) < len(body) {
							body = l.Blocks
						}
					}
				}
			}
		}
		if body == nil || blk == nil || !body[blk] {
			continue
		}
		rv, ok := f.vals[rng.X]
		if !ok || rv.S == "" {
			continue
		}
		e.check(f, st, "range.nomutate", "a map updated inside a range-over-map loop is not the map being ranged over", sNot(sEq(m, rv.S)), pos)
	}
}

// mapInsertedInLoop: some instruction of the function inserts into (or deletes from) a map of the ranged map's type.
func mapInsertedInLoop(rng *ssa.Range, mt *types.Map) bool {
	fn := rng.Parent()
	for _, b := range fn.Blocks {
		for _, in := range b.Instrs {
			switch in := in.(type) {
			case *ssa.MapUpdate:
				if types.Identical(in.Map.Type().Underlying(), mt) {
					return true
				}
			case *ssa.Call:
				if bi, ok := in.Call.Value.(*ssa.Builtin); ok && bi.Name() == "delete" && len(in.Call.Args) > 0 && types.Identical(in.Call.Args[0].Type().Underlying(), mt) {
					return true
				}
			}
		}
	}
	return false
}

// utf8dec: precise UTF-8 decoder on (s, off): returns (rune, width) terms.
func (e *Engine) utf8dec(s, off string) (string, string) {
	e.sc.Decl("fun:utf8", utf8Defs)
	return fmt.Sprintf("(utf8.rune %s %s)", s, off), fmt.Sprintf("(utf8.width %s %s)", s, off)
}

const utf8Defs = `(define-fun utf8.cont ((b Int)) Bool (and (<= 128 b) (<= b 191)))
(define-fun utf8.b ((s Str) (i Int) (k Int)) Int (ite (< (+ i k) (slen s)) (sbyte s (+ i k)) (- 1)))
(define-fun utf8.w2 ((s Str) (i Int)) Bool (let ((b0 (sbyte s i))) (and (<= 194 b0) (<= b0 223) (utf8.cont (utf8.b s i 1)))))
(define-fun utf8.w3 ((s Str) (i Int)) Bool (let ((b0 (sbyte s i)) (b1 (utf8.b s i 1)) (b2 (utf8.b s i 2))) (and (<= 224 b0) (<= b0 239) (utf8.cont b2) (ite (= b0 224) (and (<= 160 b1) (<= b1 191)) (ite (= b0 237) (and (<= 128 b1) (<= b1 159)) (utf8.cont b1))))))
(define-fun utf8.w4 ((s Str) (i Int)) Bool (let ((b0 (sbyte s i)) (b1 (utf8.b s i 1)) (b2 (utf8.b s i 2)) (b3 (utf8.b s i 3))) (and (<= 240 b0) (<= b0 244) (utf8.cont b2) (utf8.cont b3) (ite (= b0 240) (and (<= 144 b1) (<= b1 191)) (ite (= b0 244) (and (<= 128 b1) (<= b1 143)) (utf8.cont b1))))))
(define-fun utf8.width ((s Str) (i Int)) Int (ite (< (sbyte s i) 128) 1 (ite (utf8.w2 s i) 2 (ite (utf8.w3 s i) 3 (ite (utf8.w4 s i) 4 1)))))
(define-fun utf8.rune ((s Str) (i Int)) Int (let ((b0 (sbyte s i))) (ite (< b0 128) b0 (ite (utf8.w2 s i) (+ (* (- b0 192) 64) (- (utf8.b s i 1) 128)) (ite (utf8.w3 s i) (+ (* (- b0 224) 4096) (* (- (utf8.b s i 1) 128) 64) (- (utf8.b s i 2) 128)) (ite (utf8.w4 s i) (+ (* (- b0 240) 262144) (* (- (utf8.b s i 1) 128) 4096) (* (- (utf8.b s i 2) 128) 64) (- (utf8.b s i 3) 128)) 65533))))))`

// ---- conversions, interfaces

func (e *Engine) convert(f *Frame, st *State, x Val, to types.Type, pos token.Pos) Val {
	from := x.T
	if fb, ok := isInt(from); ok {
		if tb, ok := isInt(to); ok {
			return Val{T: to, S: e.intConv(x.S, fb, tb)}
		}
		if tb, ok := isFloat(to); ok {
			return Val{T: to, S: e.intToFloat(x.S, fb, tb)}
		}
		if isString(to) {
			// string(rune)
			e.note("string(rune) conversion: abstract")
			return e.havocVal(to, "runestr", st)
		}
	}
	if fb, ok := isFloat(from); ok {
		if tb, ok := isInt(to); ok {
			return Val{T: to, S: e.floatToInt(x.S, fb, tb)}
		}
		if tb, ok := isFloat(to); ok {
			if fb.Kind() == tb.Kind() || (fb.Kind() == types.UntypedFloat && tb.Kind() == types.Float64) {
				return Val{T: to, S: x.S}
			}
			if tb.Kind() == types.Float32 {
				return Val{T: to, S: "((_ to_fp 8 24) RNE " + x.S + ")"}
			}
			return Val{T: to, S: "((_ to_fp 11 53) RNE " + x.S + ")"}
		}
	}
	if isString(from) {
		if sl, ok := to.Underlying().(*types.Slice); ok {
			if b, ok := isInt(sl.Elem()); ok && intBits(b) == 8 {
				// []byte(s): fresh array with the bytes of s
				arr := e.alloc(st)
				srt := e.sortOf(sl.Elem())
				a := e.freshConst("bytes", "(Array Int "+srt+")")
				// two alternative triggers: facts about the string's bytes must reach the array and the other way round
				// (with the array-side trigger only, a property of s[i] was never carried over to []byte(s)[i]: proofs depended on the solver seed)
				xs := e.nameConst("strsrc", "Str", x.S)
				e.assume("true", fmt.Sprintf("(forall ((i Int)) (! (=> (and (<= 0 i) (< i (slen %s))) (= (select %s i) %s)) :pattern ((select %s i)) :pattern ((sbyte %s i))))", xs, a, e.byteOfStr(xs, "i", sl.Elem()), a, xs))
				h := e.getHeapA(st, srt)
				st.heapA[srt] = e.define("ha", e.heapASort(srt), fmt.Sprintf("(store %s %s %s)", h, arr, a))
				return Val{T: to, S: e.define("sl", "Slice", fmt.Sprintf("(mk-slice %s 0 (slen %s) (slen %s))", arr, x.S, x.S))}
			}
		}
		if isString(to) {
			return Val{T: to, S: x.S}
		}
	}
	if sl, ok := from.Underlying().(*types.Slice); ok && isString(to) {
		if b, ok := isInt(sl.Elem()); ok && intBits(b) == 8 {
			s := e.freshConst("str", "Str")
			h := e.getHeapA(st, e.sortOf(sl.Elem()))
			bt := fmt.Sprintf("(select (select %s (s.arr %s)) (+ (s.off %s) i))", h, x.S, x.S)
			if e.mode == "bv" {
				bt = "(bv2nat " + bt + ")"
			}
			e.assume(st.cond, fmt.Sprintf("(and (= (slen %s) (s.len %s)) (forall ((i Int)) (! (=> (and (<= 0 i) (< i (s.len %s))) (= (sbyte %s i) %s)) :pattern ((sbyte %s i)))))", s, x.S, x.S, s, bt, s))
			return Val{T: to, S: s}
		}
	}
	if e.sortOf(from) == e.sortOf(to) {
		v := x
		v.T = to
		return v
	}
	e.note("unsupported conversion %s -> %s: havocked", from, to)
	return e.havocVal(to, "conv", st)
}

func (e *Engine) intConv(x string, from, to *types.Basic) string {
	if e.mode == "bv" {
		fb, tb := intBits(from), intBits(to)
		switch {
		case fb == tb:
			return x
		case fb > tb:
			return fmt.Sprintf("((_ extract %d 0) %s)", tb-1, x)
		case isUnsigned(from):
			return fmt.Sprintf("((_ zero_extend %d) %s)", tb-fb, x)
		default:
			return fmt.Sprintf("((_ sign_extend %d) %s)", tb-fb, x)
		}
	}
	// mode int: identity when the target range contains the source range, else wrap
	fb, tb := intBits(from), intBits(to)
	fu, tu := isUnsigned(from), isUnsigned(to)
	if from.Kind() == types.UntypedInt || from.Kind() == types.UntypedRune {
		return x
	}
	if fu == tu && tb >= fb {
		return x
	}
	if fu && !tu && tb > fb {
		return x
	}
	// a literal operand: fold the conversion (keeps shift counts and divisors syntactically constant)
	if n, ok := constIntString(x); ok && tb <= 64 {
		if tu {
			if tb < 64 {
				m := int64(1) << uint(tb)
				r := n % m
				if r < 0 {
					r += m
				}
				return sInt(r)
			} else if n >= 0 {
				return sInt(n)
			}
		} else if tb < 64 {
			m := int64(1) << uint(tb)
			r := n % m
			if r < 0 {
				r += m
			}
			if r >= m/2 {
				r -= m
			}
			return sInt(r)
		} else if !fu {
			return sInt(n)
		}
	}
	if tu {
		return fmt.Sprintf("(go.wrapu %s %s)", x, pow2(tb))
	}
	return fmt.Sprintf("(go.wraps %s %s)", x, pow2(tb))
}

func (e *Engine) intToFloat(x string, from, to *types.Basic) string {
	eb, sb := 11, 53
	if to.Kind() == types.Float32 {
		eb, sb = 8, 24
	}
	if e.mode == "bv" {
		if isUnsigned(from) {
			return fmt.Sprintf("((_ to_fp_unsigned %d %d) RNE %s)", eb, sb, x)
		}
		return fmt.Sprintf("((_ to_fp %d %d) RNE %s)", eb, sb, x)
	}
	// mode int: the conversion is an uninterpreted (deterministic) function of the integer - the solvers do not decide
	// mixed Int -> Real -> FloatingPoint goals; functions whose property needs the rounding itself use mode bv
	if lit, ok := litInt(x); ok {
		if strings.HasPrefix(lit, "-") {
			return fmt.Sprintf("((_ to_fp %d %d) RNE (- %s.0))", eb, sb, lit[1:])
		}
		return fmt.Sprintf("((_ to_fp %d %d) RNE %s.0)", eb, sb, lit)
	}
	name := fmt.Sprintf("go.i2f%d", eb+sb)
	// a converted integer is a finite number (never NaN or infinite)
	e.sc.Decl("fun:"+name, fmt.Sprintf("(declare-fun %s (Int) (_ FloatingPoint %d %d))\n(assert (forall ((x Int)) (! (not (or (fp.isNaN (%s x)) (fp.isInfinite (%s x)))) :pattern ((%s x)))))", name, eb, sb, name, name, name))
	e.assumed["integer-to-float conversions are uninterpreted deterministic functions in mode int (their rounding is only modelled in mode bv)"] = true
	return fmt.Sprintf("(%s %s)", name, x)
}

func (e *Engine) floatToInt(x string, from, to *types.Basic) string {
	if e.mode == "bv" {
		if isUnsigned(to) {
			return fmt.Sprintf("((_ fp.to_ubv %d) RTZ %s)", intBits(to), x)
		}
		return fmt.Sprintf("((_ fp.to_sbv %d) RTZ %s)", intBits(to), x)
	}
	// mode int: truncation toward zero of the real value (out-of-range is implementation-defined in Go)
	e.sc.Decl("fun:f2i", "(define-fun go.f2i ((r Real)) Int (ite (>= r 0.0) (to_int r) (- (to_int (- r)))))")
	return fmt.Sprintf("(go.f2i (fp.to_real %s))", x)
}

func fpLit(f float64, is32 bool) string {
	bits := fmt.Sprintf("%064b", mathFloat64bits(f))
	if is32 {
		b := fmt.Sprintf("%032b", mathFloat32bits(float32(f)))
		return fmt.Sprintf("(fp #b%s #b%s #b%s)", b[0:1], b[1:9], b[9:])
	}
	return fmt.Sprintf("(fp #b%s #b%s #b%s)", bits[0:1], bits[1:12], bits[12:])
}

func (e *Engine) typeTag(t types.Type) int {
	k := types.TypeString(t, nil)
	if n, ok := e.tags[k]; ok {
		return n
	}
	n := len(e.tags) + 1
	e.tags[k] = n
	e.tagTypes = append(e.tagTypes, t)
	return n
}

func (e *Engine) boxFn(t types.Type) (box, unbox string) {
	k := types.TypeString(t, nil)
	tag := e.typeTag(t)
	box = fmt.Sprintf("box.%d", tag)
	unbox = fmt.Sprintf("unbox.%d", tag)
	srt := e.sortOf(t)
	e.sc.Decl("box:"+k, fmt.Sprintf("(declare-fun %s (%s) Iface)\n(declare-fun %s (Iface) %s) ; %s\n(assert (forall ((x %s)) (! (and (= (%s (%s x)) x) (= (iface.tag (%s x)) %d)) :pattern ((%s x)))))",
		box, srt, unbox, srt, k, srt, unbox, box, box, tag, box))
	return
}

func (e *Engine) makeIface(x Val, to types.Type) Val {
	if _, ok := x.T.Underlying().(*types.Interface); ok {
		v := x
		v.T = to
		return v
	}
	box, _ := e.boxFn(x.T)
	term := x.S
	if term == "" {
		if p, ok := e.ptrTerm(x); ok {
			term = p
		} else if x.Fn != nil {
			term = e.funcTerm(x.Fn.Fn)
		} else {
			term = e.havocVal(x.T, "boxed", nil).S
		}
	}
	return Val{T: to, S: fmt.Sprintf("(%s %s)", box, term)}
}

func (f *Frame) execTypeAssert(in *ssa.TypeAssert, st *State) {
	e := f.e
	x := f.val(in.X)
	at := in.AssertedType
	if _, isIface := at.Underlying().(*types.Interface); isIface {
		// interface-to-interface: membership of the dynamic type in the interface's method set
		okT := e.implementsTerm(x.S, at)
		if x.T != nil && types.AssignableTo(x.T, at) {
			// the static type already implements the target: the assertion only fails for a nil interface value
			okT = sNot(sEq(x.S, "iface.nil"))
		}
		if in.CommaOk {
			f.set(in, Val{T: in.Type(), Tuple: []Val{{T: at, S: e.define("ta", "Iface", sIte(okT, x.S, "iface.nil"))}, {T: types.Typ[types.Bool], S: okT}}})
		} else {
			e.check(f, st, "no-panic.typeassert", "type assertion holds", okT, in.Pos())
			f.set(in, Val{T: at, S: x.S})
		}
		return
	}
	box, unbox := e.boxFn(at)
	tag := e.typeTag(at)
	okT := e.define("taok", "Bool", fmt.Sprintf("(= (iface.tag %s) %d)", x.S, tag))
	v := e.define("tav", e.sortOf(at), fmt.Sprintf("(%s %s)", unbox, x.S))
	e.assume(okT, fmt.Sprintf("(= (%s %s) %s)", box, v, x.S))
	vv := Val{T: at, S: v}
	e.assumeTyping(st, vv)
	if in.CommaOk {
		zv := e.define("tavz", e.sortOf(at), sIte(okT, v, e.zero(at)))
		f.set(in, Val{T: in.Type(), Tuple: []Val{{T: at, S: zv}, {T: types.Typ[types.Bool], S: okT}}})
	} else {
		e.check(f, st, "no-panic.typeassert", "type assertion holds", okT, in.Pos())
		f.set(in, vv)
	}
}

func (e *Engine) implementsTerm(x string, it types.Type) string {
	name := "impl." + sanitizeSym(types.TypeString(it, nil))
	e.sc.Decl("fun:"+name, fmt.Sprintf("(declare-fun %s (Int) Bool)\n(assert (not (%s 0)))", name, name))
	return fmt.Sprintf("(%s (iface.tag %s))", name, x)
}

// usesRunes: the contract under verification mentions rune counting.
func (e *Engine) usesRunes() bool {
	if e.C == nil {
		return false
	}
	if e.runesFlag == 0 {
		e.runesFlag = 1
		var texts []string
		for _, c := range e.C.Ensures {
			texts = append(texts, c.Text)
		}
		for _, c := range e.C.Requires {
			texts = append(texts, c.Text)
		}
		for _, l := range e.C.Loops {
			for _, c := range l.Invariants {
				texts = append(texts, c.Text)
			}
		}
		for _, sc := range e.C.Sites {
			texts = append(texts, sc.Clause.Text)
		}
		for _, t := range texts {
			if strings.Contains(t, "runes") {
				e.runesFlag = 2
			}
		}
	}
	return e.runesFlag == 2
}

// stableFieldKey: the load reads a pointer/map/chan field of a heap object, and no instruction of this function stores to
// that field (of any object of the struct type).
func (f *Frame) stableFieldKey(in *ssa.UnOp, l *Loc) (string, bool) {
	// a captured variable that this closure never assigns: every load yields the same pointer
	if fv, ok := in.X.(*ssa.FreeVar); ok {
		switch in.Type().Underlying().(type) {
		case *types.Pointer, *types.Map, *types.Chan:
			stored := false
			for _, b := range f.fn.Blocks {
				for _, instr := range b.Instrs {
					if st, ok := instr.(*ssa.Store); ok && st.Addr == ssa.Value(fv) {
						stored = true
					}
				}
			}
			if !stored {
				return f.prefix + "|fv|" + fv.Name(), true
			}
		}
		return "", false
	}
	// a variable that lives on the heap only because a closure captures it and that is assigned exactly once (the
	// parameter spill): every load yields the same pointer
	if a, ok := in.X.(*ssa.Alloc); ok {
		switch in.Type().Underlying().(type) {
		case *types.Pointer, *types.Map, *types.Chan:
			stores := 0
			if refs := a.Referrers(); refs != nil {
				for _, r := range *refs {
					if st, ok := r.(*ssa.Store); ok && st.Addr == ssa.Value(a) {
						stores++
					}
				}
			}
			// closures that capture the variable could assign it as well
			captured := false
			if refs := a.Referrers(); refs != nil {
				for _, r := range *refs {
					if mc, ok := r.(*ssa.MakeClosure); ok {
						fn := mc.Fn.(*ssa.Function)
						for i, b := range mc.Bindings {
							if b == ssa.Value(a) && i < len(fn.FreeVars) {
								for _, blk := range fn.Blocks {
									for _, instr := range blk.Instrs {
										if st, ok := instr.(*ssa.Store); ok && st.Addr == ssa.Value(fn.FreeVars[i]) {
											captured = true
										}
									}
								}
							}
						}
					}
				}
			}
			if stores == 1 && !captured {
				return f.prefix + "|alloc|" + a.Name(), true
			}
		}
		return "", false
	}
	if l.Kind != LHeap || len(l.Path) != 1 || l.Path[0].Field < 0 {
		return "", false
	}
	switch in.Type().Underlying().(type) {
	case *types.Pointer, *types.Map, *types.Chan:
	default:
		return "", false
	}
	fa, ok := in.X.(*ssa.FieldAddr)
	if !ok {
		return "", false
	}
	stt := fa.X.Type().Underlying().(*types.Pointer).Elem()
	key := types.TypeString(stt, nil) + "#" + fmt.Sprint(fa.Field)
	if f.fieldStored == nil {
		f.fieldStored = map[string]bool{}
		for _, b := range f.fn.Blocks {
			for _, instr := range b.Instrs {
				if st, ok := instr.(*ssa.Store); ok {
					if a, ok := st.Addr.(*ssa.FieldAddr); ok {
						t := a.X.Type().Underlying().(*types.Pointer).Elem()
						f.fieldStored[types.TypeString(t, nil)+"#"+fmt.Sprint(a.Field)] = true
					}
				}
			}
		}
	}
	if f.fieldStored[key] {
		return "", false
	}
	return f.prefix + "|" + l.Base + "|" + key, true
}
