package main

// Per-function verification: entry assumptions, body execution, postconditions, frame, vacuity covers.

import (
	"fmt"
	"go/constant"
	"go/token"
	"go/types"
	"sort"
	"strings"

	"golang.org/x/tools/go/ssa"
)

func constantString(c *ssa.Const) string { return constant.StringVal(c.Value) }

type FuncResult struct {
	Pkg       string
	Key       string
	Inst      string
	Name      string // display name
	File      string
	Mode      string
	Obls      []*Obligation
	Notes     []string
	Assumed   []string
	BindErrs  []string
	UsedPure  []string
	UsedModels []string
	UsedContracts []string
	Unmodelled []string
	Trusted   bool
	TrustedWhy string
	RangeObls int
	OverflowAssumed int
	Covers    []*Obligation
	Decreases int
	Loops     int
	KnownIDs  []string
	Bounded   bool
	C         *Contract     `json:"-"`
	Fn        *ssa.Function `json:"-"`
	SplitVal  *int          `json:"-"`
}

func newEngine(P *Program, fn *ssa.Function, c *Contract, cf *ContractFile) *Engine {
	e := &Engine{P: P, top: fn, C: c, CF: cf, sc: NewScript(), mode: "int", notes: map[string]bool{}, assumed: map[string]bool{},
		tags: map[string]int{}, strlits: map[string]string{}, structs: map[string]*types.Struct{}, ordinals: map[string]int{},
		maxInline: 5, ghostDecl: map[string]string{}}
	e.mapSorts = map[string][2]string{}
	e.usedPure = map[string]bool{}
	e.usedModels = map[string]bool{}
	e.usedContracts = map[string]bool{}
	e.unmodelled = map[string]bool{}
	e.ginfo = map[*ssa.Global]*gInfo{}
	e.lockedOnce = map[string]bool{}
	e.lockSnap = nil
	e.freshObjs = map[string]bool{}
	e.stableLoads = map[string]string{}
	e.siteOrd = map[string]int{}
	e.siteHit = map[string]int{}
	if c != nil && c.Mode != "" {
		e.mode = strings.Fields(c.Mode)[0]
	}
	e.sc.Line("(declare-const wm0 Int)")
	e.sc.Line("(assert (>= wm0 0))")
	return e
}

func (e *Engine) declareGhosts() {
	for _, cf := range e.P.Contracts {
		for name, tt := range cf.GhostVars {
			e.ghostDecl[name] = e.ghostSort(cf, tt)
		}
	}
}

func (e *Engine) ghostSort(cf *ContractFile, tt string) string {
	tt = strings.TrimSpace(tt)
	switch tt {
	case "int":
		return "Int"
	case "bool":
		return "Bool"
	case "string":
		return "Str"
	}
	if strings.HasPrefix(tt, "map[") {
		end := matchBracket(tt, 3)
		if end > 0 {
			k := e.ghostSort(cf, tt[4:end])
			v := e.ghostSort(cf, tt[end+1:])
			return "(Array " + k + " " + v + ")"
		}
	}
	if strings.HasPrefix(tt, "*") {
		return "Int"
	}
	ctx := &EvalCtx{}
	if p := e.P.Pkgs[cf.Pkg]; p != nil {
		ctx.pkg = p.Types
	}
	if t, err := e.resolveType(ctx, tt); err == nil {
		return e.sortOf(t)
	}
	return "Int"
}

func matchBracket(s string, i int) int {
	d := 0
	for j := i; j < len(s); j++ {
		switch s[j] {
		case '[':
			d++
		case ']':
			d--
			if d == 0 {
				return j
			}
		}
	}
	return -1
}

type verifyOpts struct {
	knownActive map[string]bool // known-finding ids listed in KNOWN_FINDINGS
	canaryFor   string          // run as the canary for this known id (assume its class)
	split       *int            // value of the contract's split variable in this run
	splitCheck  bool            // the run that proves the split exhaustive
}

// VerifyFunc generates all obligations of one function under contract.
func VerifyFunc(P *Program, fn *ssa.Function, c *Contract, cf *ContractFile, inst string, vo verifyOpts) *FuncResult {
	c = filterContractForInstance(c, inst)
	e := newEngine(P, fn, c, cf)
	e.declareGhosts()
	e.knownActive = vo.knownActive
	e.instTag = inst
	name := pkgShort(c.Pkg) + "." + c.Key
	if inst != "" {
		name += "[" + inst + "]"
	}
	if vo.split != nil {
		name += fmt.Sprintf("[%s=%d]", c.SplitVar, *vo.split)
	}
	e.fname = name
	fr := &FuncResult{C: c, Fn: fn, SplitVal: vo.split, Pkg: c.Pkg, Key: c.Key, Inst: inst, Name: name, Mode: e.mode, File: P.pos(fn.Pos()), Trusted: c.Trusted, TrustedWhy: c.TrustedWhy}
	if c.Trusted {
		fr.Assumed = append(fr.Assumed, "trusted contract (body not verified): "+name+" - "+c.TrustedWhy)
		return fr
	}
	if len(fn.Blocks) == 0 {
		fr.BindErrs = append(fr.BindErrs, name+": function has no body")
		return fr
	}
	f := e.newFrame(fn, nil)
	f.isTop = true
	f.contract = c
	st := newState()
	// parameters
	var args []Val
	for _, p := range fn.Params {
		v := e.havocVal(p.Type(), "p."+p.Name(), st)
		if vo.split != nil && p.Name() == c.SplitVar {
			// this run covers one value of the split parameter: use the literal (shifts, divisions by it become linear)
			if b, ok := isInt(p.Type()); ok {
				v = Val{T: p.Type(), S: e.intLit(b, fmt.Sprint(*vo.split))}
			}
		}
		args = append(args, v)
		e.inputs = append(e.inputs, e.inputSyms(p.Name(), p.Type(), v.S)...)
		f.vals[p] = v
	}
	for _, fv := range fn.FreeVars {
		v := e.havocVal(fv.Type(), "fv."+fv.Name(), st)
		if _, isPtr := fv.Type().Underlying().(*types.Pointer); isPtr {
			// captured variables are captured by reference: the cell always exists
			e.assume("true", sNot(sEq(v.S, "0")))
		}
		f.freeVars = append(f.freeVars, v)
	}
	f.entry = st
	entryCtx := f.evalCtx(st, nil)
	entryCtx.at = fn.Blocks[0]
	for _, a := range args {
		e.assumeTypeInv(st, a)
	}
	// receiver-held locks
	for _, h := range c.Holds {
		if key, ok := e.lockKeyFromText(entryCtx, h); ok {
			st.locks[key] = true
			e.lockedOnce[key] = true
			// the lock invariant holds while the lock is held on entry
			class := key[strings.Index(key, "|")+1:]
			tn, lock := splitClass(class)
			base := key[:strings.Index(key, "|")]
			for _, li := range e.findLockInvs(tn, lock) {
				ctx := f.evalCtx(st, nil)
				ctx.noLocals = true
				x, _ := parseExpr(strings.Split(h, ".")[0])
				if rv, err := e.eval(entryCtx, x); err == nil {
					ctx.binds["self"] = Val{T: rv.T, S: base}
					if g, err := e.evalBool(ctx, li.E); err == nil {
						e.assume("true", g)
					}
				}
			}
		} else {
			e.bindError(name+".holds", fmt.Errorf("cannot resolve lock %s", h))
		}
	}
	// axioms of the package's contract file (assumed, listed) and lemmas named by `use lemma` (proved separately)
	var allCF []*ContractFile
	if cf != nil {
		allCF = append(allCF, cf)
	}
	for _, pk := range keysOf(P.Contracts) {
		if P.Contracts[pk] != cf {
			allCF = append(allCF, P.Contracts[pk])
		}
	}
	for _, lcf := range allCF {
		for _, lm := range lcf.Lemmas {
			if lm.KnownID != "" {
				continue
			}
			if lcf != cf && !lm.Assumed {
				continue
			}
			cf := lcf
			used := lm.Assumed
			for _, u := range c.Lemmas {
				if u == lm.Name {
					used = true
				}
			}
			if !used {
				continue
			}
			// an axiom stated over mathematical integers is not carried into a function verified over bit-vectors (and vice versa)
			isBVLemma := false
			for _, h := range lm.Hints {
				if h == "bv" {
					isBVLemma = true
				}
			}
			if (e.mode == "bv") != isBVLemma {
				continue
			}
			lctx := &EvalCtx{st: st, old: st, binds: map[string]Val{}, cf: cf, pkg: entryCtx.pkg, noLocals: true}
			if pp := P.Pkgs[cf.Pkg]; pp != nil && pp.Types != nil {
				lctx.pkg = pp.Types
			}
			if g, err := e.evalBool(lctx, lm.E); err == nil {
				e.assume("true", g)
				if lm.Assumed {
					e.assumed["axiom (assumed, not proved): "+pkgShort(cf.Pkg)+"."+lm.Name+": "+lm.Text] = true
				}
			} else {
				e.bindError(name+".lemma "+lm.Name, err)
			}
		}
	}
	entryLocks := cloneMap(st.locks)
	for _, r := range c.Requires {
		g, err := e.evalBool(entryCtx, r.E)
		if err != nil {
			e.bindError(fmt.Sprintf("%s.requires#%d", name, r.Ord), err)
			continue
		}
		e.assume("true", g)
	}
	if vo.splitCheck {
		// the one run with a symbolic split parameter: the precondition confines it to the split range, so the runs
		// with one literal value each cover every admissible call
		if x, err := parseExpr(fmt.Sprintf("%d <= %s && %s <= %d", c.SplitLo, c.SplitVar, c.SplitVar, c.SplitHi)); err == nil {
			if g, err := e.evalBool(entryCtx, x); err == nil {
				e.obNamed(name+".split.exhaustive", "split", fmt.Sprintf("the precondition confines %s to %d..%d (the case split is complete)", c.SplitVar, c.SplitLo, c.SplitHi), "true", g, fn.Pos())
			} else {
				e.bindError(name+".split", err)
			}
		}
		fr.Obls = e.obls
		return fr
	}
	// ghost@entry : var = expr  (ghost variables local to this verification: initialised at entry)
	for i := range c.Sites {
		sc := &c.Sites[i]
		if sc.Kind == "ghost" && sc.Site == "entry" {
			v, err := e.eval(entryCtx, sc.Clause.E)
			if err != nil {
				e.bindError(name+".ghost@entry", err)
				continue
			}
			if srt, ok := e.ghostDecl[sc.Var]; ok {
				st.ghost[sc.Var] = e.define("gh."+sc.Var, srt, v.S)
				e.siteHit[sc.Site]++
			} else {
				e.bindError(name+".ghost@entry", fmt.Errorf("ghost variable %s is not declared", sc.Var))
			}
		}
	}
	// known-finding classes
	for _, k := range c.Known {
		if !vo.knownActive[k.ID] {
			continue
		}
		g, err := e.evalBool(entryCtx, k.Class.E)
		if err != nil {
			e.bindError(fmt.Sprintf("%s.known %s", name, k.ID), err)
			continue
		}
		fr.KnownIDs = append(fr.KnownIDs, k.ID)
		if vo.canaryFor == k.ID {
			e.assume("true", g)
		} else {
			e.assume("true", sNot(g))
		}
	}
	// vacuity: the entry assumptions are satisfiable
	cover := &Obligation{Name: name + ".cover.entry", Func: name, Kind: "cover", Desc: "precondition, type invariants and typing facts are satisfiable", sc: e.sc, snap: e.sc.Snap(), goal: "", Pos: P.pos(fn.Pos())}
	fr.Covers = append(fr.Covers, cover)

	rst, vals := f.run(st, args)

	if !rst.dead && rst.cond != "false" {
		cover2 := &Obligation{Name: name + ".cover.return", Func: name, Kind: "cover", Desc: "some return is reachable", sc: e.sc, snap: e.sc.Snap(), goal: "(assert " + rst.cond + ")", Pos: P.pos(fn.Pos())}
		fr.Covers = append(fr.Covers, cover2)
		post := f.evalCtx(rst, nil)
		post.results = vals
		post.resNames = c.ResultNames
		if len(c.ResultNames) == 0 {
			res := fn.Signature.Results()
			for i := 0; i < res.Len(); i++ {
				post.resNames = append(post.resNames, res.At(i).Name())
			}
		}
		post.noLocals = false
		post.at = nil
		post.onlyParams = true
		for _, en := range c.Ensures {
			g, err := e.evalBool(post, en.E)
			if err != nil {
				e.bindError(fmt.Sprintf("%s.ensures#%d", name, en.Ord), err)
				continue
			}
			if en.Assumed {
				e.assumed[fmt.Sprintf("postcondition %d of %s is assumed, not proved (`assumes`): %s", en.Ord, name, en.Text)] = true
				continue
			}
			e.obNamed(fmt.Sprintf("%s.ensures#%d", name, en.Ord), "ensures", "postcondition: "+en.Text, rst.cond, g, fn.Pos())
			// vacuity of a conditional postcondition: its antecedent must be possible at some return (a clause A ==> B whose
			// A can never hold at a return says nothing - e.g. because the model loses the writes that make A true)
			if en.E.Op == "bin" && en.E.Name == "==>" && vo.canaryFor == "" {
				if a, err := e.evalBool(post, en.E.Args[0]); err == nil {
					fr.Covers = append(fr.Covers, &Obligation{Name: fmt.Sprintf("%s.cover.ensures#%d", name, en.Ord), Func: name, Kind: "cover",
						Desc: "the antecedent of postcondition " + fmt.Sprint(en.Ord) + " can hold at a return: " + en.E.Args[0].String(), sc: e.sc, snap: e.sc.Snap(),
						goal: "(assert " + sAnd(rst.cond, a) + ")", Pos: P.pos(fn.Pos())})
				}
			}
		}
		// type invariants of results
		for i, v := range vals {
			if g, ok := e.typeInvTerm(rst, v); ok {
				e.obNamed(fmt.Sprintf("%s.typeinv.result#%d", name, i+1), "typeinv", "type invariant of the result holds", rst.cond, g, fn.Pos())
			}
		}
		// pointer receivers / parameters with a type invariant keep it
		for i, p := range fn.Params {
			if _, isPtr := p.Type().(*types.Pointer); isPtr {
				if g, ok := e.typeInvTerm(rst, args[i]); ok {
					e.obNamed(fmt.Sprintf("%s.typeinv.param#%d", name, i+1), "typeinv", "type invariant of *"+p.Name()+" is preserved", rst.cond, g, fn.Pos())
				}
			}
		}
		if c.SkipFrame == "" {
			e.frameObligations(f, c, st, rst, args, fn)
		} else {
			e.assumed[fmt.Sprintf("frame condition of %s is assumed, not proved (%s)", name, c.SkipFrame)] = true
		}
		// lock set
		exp := cloneMap(entryLocks)
		ctx := f.evalCtx(rst, nil)
		for _, a := range c.Releases {
			if key, ok := e.lockKeyFromText(ctx, a); ok {
				delete(exp, key)
			}
		}
		same := len(exp) == len(rst.locks)
		for k := range exp {
			if !rst.locks[k] {
				same = false
			}
		}
		if len(exp) > 0 || len(rst.locks) > 0 || e.lockOps {
			goal := "true"
			if !same {
				goal = "false"
			}
			e.obNamed(name+".locks.balanced", "locks", fmt.Sprintf("locks held at return equal those at entry (entry %v, return %v)", keysOf(exp), keysOf(rst.locks)), rst.cond, goal, fn.Pos())
		}
	}
	// every lock this function takes itself must be declared with `acquires`, so that callers know it runs a critical section
	{
		declared := map[string]bool{}
		dctx := f.evalCtx(st, nil)
		dctx.at = fn.Blocks[0]
		dctx.onlyParams = true
		for _, a := range c.Acquires {
			if key, ok := e.lockKeyFromText(dctx, a); ok {
				declared[key] = true
			} else {
				declared["class:"+a] = true
			}
		}
		for _, key := range keysOf(e.acquired) {
			class := key[strings.Index(key, "|")+1:]
			if !declared[key] && !declared["class:"+class] {
				e.bindError(name+".acquires", fmt.Errorf("the function locks %s but its contract has no `acquires` clause for it", class))
			}
		}
	}
	// stale site clauses
	for _, sc := range c.Sites {
		if (sc.Kind == "assert" || sc.Kind == "ghost" || sc.Kind == "canary") && e.siteHit[sc.Site] == 0 {
			e.bindError(name+"."+sc.Kind+"@"+sc.Site, fmt.Errorf("site not found in the function body"))
		}
	}
	for k, ls := range c.Loops {
		if k > len(f.loops) {
			e.bindError(fmt.Sprintf("%s.loop#%d", name, k), fmt.Errorf("function has only %d loops", len(f.loops)))
		}
		if ls.Decreases != nil {
			fr.Decreases++
		}
	}
	fr.Loops = len(f.loops)
	fr.Obls = e.obls
	fr.BindErrs = e.errs
	fr.RangeObls = e.rangeObls
	fr.OverflowAssumed = e.overflowAssumed
	if e.skippedPanics > 0 {
		e.assumed[fmt.Sprintf("%d run-time panic / overflow obligations of %s are assumed, not proved (%s)", e.skippedPanics, name, c.SkipPanics)] = true
	}
	if e.overflowAssumed > 0 {
		e.assumed[fmt.Sprintf("machine arithmetic treated as mathematical in %d operations of %s (overflow assumed absent)", e.overflowAssumed, name)] = true
	}
	for n := range e.notes {
		fr.Notes = append(fr.Notes, n)
	}
	for n := range e.assumed {
		fr.Assumed = append(fr.Assumed, n)
	}
	fr.UsedPure = keysOf(e.usedPure)
	fr.UsedModels = keysOf(e.usedModels)
	fr.UsedContracts = keysOf(e.usedContracts)
	fr.Unmodelled = keysOf(e.unmodelled)
	sort.Strings(fr.Notes)
	sort.Strings(fr.Assumed)
	return fr
}

func keysOf[V any](m map[string]V) []string {
	var ks []string
	for k := range m {
		ks = append(ks, k)
	}
	sort.Strings(ks)
	return ks
}

func (e *Engine) inputSyms(name string, t types.Type, term string) []InputSym {
	kind := "other"
	switch u := t.Underlying().(type) {
	case *types.Basic:
		switch {
		case u.Info()&types.IsBoolean != 0:
			kind = "bool"
		case u.Info()&types.IsInteger != 0:
			kind = "int"
		case u.Info()&types.IsFloat != 0:
			kind = "float"
		case u.Info()&types.IsString != 0:
			kind = "string"
		}
	case *types.Slice:
		kind = "slice"
	case *types.Struct:
		kind = "struct"
	case *types.Pointer:
		kind = "pointer"
	}
	return []InputSym{{Name: name, Type: types.TypeString(t, nil), Term: term, Kind: kind}}
}

// frameObligations: everything not named in `modifies` is unchanged for the caller.
func (e *Engine) frameObligations(f *Frame, c *Contract, entry, rst *State, args []Val, fn *ssa.Function) {
	for _, g := range e.frameGoals(f, c, entry, rst, fn) {
		e.obNamed(g[0], "frame", g[1], rst.cond, g[2], fn.Pos())
	}
}

// frameGoals: (name, description, goal) triples stating that everything outside `modifies` is unchanged since entry.
func (e *Engine) frameGoals(f *Frame, c *Contract, entry, rst *State, fn *ssa.Function) [][3]string {
	var out [][3]string
	name := e.fname
	// collect the declared frame
	var objs, fields, elems, maps []modLoc
	ghostMod := map[string]bool{}
	for _, m := range c.Modifies {
		if strings.HasPrefix(m, "ghost ") {
			ghostMod[strings.TrimSpace(strings.TrimPrefix(m, "ghost "))] = true
			continue
		}
		if strings.HasPrefix(m, "global ") {
			continue
		}
		ctx := f.evalCtx(entry, nil)
		ctx.at = fn.Blocks[0]
		ctx.onlyParams = true // modifies entries are about the values at entry
		x, err := parseExpr(m)
		if err != nil {
			e.bindError(name+".modifies", err)
			continue
		}
		locs, ok := e.modLocOf(ctx, x, c)
		if !ok {
			continue
		}
		for _, l := range locs {
			switch l.kind {
			case "obj":
				objs = append(objs, l)
			case "field":
				fields = append(fields, l)
			case "elems":
				elems = append(elems, l)
			case "map":
				maps = append(maps, l)
			}
		}
	}
	for _, srt := range sortedKeys(rst.heapP) {
		h1 := rst.heapP[srt]
		h0 := e.getHeapP(entry, srt)
		if h1 == h0 {
			continue
		}
		q := "fr.a"
		var excl []string
		excl = append(excl, "(< 0 "+q+")", "(<= "+q+" wm0)")
		var fieldTargets []modLoc
		for _, o := range objs {
			if e.sortOf(o.rootT) == srt {
				excl = append(excl, sNot(sEq(q, o.base)))
			}
		}
		for _, fl := range fields {
			if e.sortOf(fl.rootT) == srt {
				fieldTargets = append(fieldTargets, fl)
			}
		}
		body := fmt.Sprintf("(= (select %s %s) (select %s %s))", h1, q, h0, q)
		if len(fieldTargets) > 0 {
			// objects with field-level frames: all other fields equal
			rootT := fieldTargets[0].rootT
			stt := rootT.Underlying().(*types.Struct)
			var alts []string
			alts = append(alts, body)
			byBase := map[string]map[int]bool{}
			for _, ft := range fieldTargets {
				if byBase[ft.base] == nil {
					byBase[ft.base] = map[int]bool{}
				}
				byBase[ft.base][ft.field] = true
			}
			for _, b := range sortedKeys(byBase) {
				var eqs []string
				for i := 0; i < stt.NumFields(); i++ {
					if !byBase[b][i] {
						eqs = append(eqs, sEq(e.fieldSel(rootT, stt, i, fmt.Sprintf("(select %s %s)", h1, q)), e.fieldSel(rootT, stt, i, fmt.Sprintf("(select %s %s)", h0, q))))
					}
				}
				alts = append(alts, sAnd(sEq(q, b), sAnd(eqs...)))
			}
			body = sOr(alts...)
		}
		goal := fmt.Sprintf("(forall ((%s Int)) (=> %s %s))", q, sAnd(excl...), body)
		out = append(out, [3]string{fmt.Sprintf("%s.frame.%s", name, mangle(srt)), "only objects named in modifies are written (heap of " + srt + ")", goal})
	}
	for _, srt := range sortedKeys(rst.heapA) {
		h1 := rst.heapA[srt]
		h0 := e.getHeapA(entry, srt)
		if h1 == h0 {
			continue
		}
		// every cell (array a, index i) of a pre-existing array that lies in no declared window is unchanged
		qa, qi := "fr.a", "fr.i"
		var wins []string
		for _, el := range elems {
			if e.sortOf(el.rootT) == srt {
				wins = append(wins, fmt.Sprintf("(and (= %s %s) (<= (s.off %s) %s) (< %s (+ (s.off %s) (s.len %s))))", qa, el.base, el.slice, qi, qi, el.slice, el.slice))
			}
		}
		goal := fmt.Sprintf("(forall ((%s Int) (%s Int)) (! (=> (and (< 0 %s) (<= %s wm0) (not %s)) (= (select (select %s %s) %s) (select (select %s %s) %s))) :pattern ((select (select %s %s) %s))))",
			qa, qi, qa, qa, sOr(wins...), h1, qa, qi, h0, qa, qi, h1, qa, qi)
		out = append(out, [3]string{fmt.Sprintf("%s.frame.elems.%s", name, mangle(srt)), "only slice elements named in modifies are written (arrays of " + srt + ")", goal})
	}
	for _, k := range sortedKeys(rst.mapD) {
		d1, v1 := rst.mapD[k], rst.mapV[k]
		d0, v0 := "MD0."+k, "MV0."+k
		if d1 == d0 && (v1 == v0 || v1 == "") {
			continue
		}
		if v1 == "" {
			v1 = v0
		}
		q := "fr.m"
		var excl []string
		excl = append(excl, "(< 0 "+q+")", "(<= "+q+" wm0)")
		for _, m := range maps {
			if e.mapKey(m.mapT) == k {
				excl = append(excl, sNot(sEq(q, m.base)))
			}
		}
		e.sc.Decl("const:"+v0, fmt.Sprintf("(declare-const %s %s)", v0, e.mapSorts[k][1]))
		goal := fmt.Sprintf("(forall ((%s Int)) (=> %s (and (= (select %s %s) (select %s %s)) (= (select %s %s) (select %s %s)))))", q, sAnd(excl...), d1, q, d0, q, v1, q, v0, q)
		out = append(out, [3]string{fmt.Sprintf("%s.frame.map.%s", name, k), "only maps named in modifies are written", goal})
	}
	var gl []string
	for g, v := range rst.globals {
		if v != e.getGlobal(entry, g) {
			declared := false
			for _, m := range c.Modifies {
				if m == "global "+g.Name() {
					declared = true
				}
			}
			if !declared {
				gl = append(gl, g.Name())
			}
		}
	}
	sort.Strings(gl)
	for _, g := range gl {
		out = append(out, [3]string{fmt.Sprintf("%s.frame.global.%s", name, g), "package variable " + g + " is written but not named in modifies", "false"})
	}
	for _, g := range sortedKeys(rst.ghost) {
		if strings.HasPrefix(g, "sb.") || strings.HasPrefix(g, "once.") || strings.HasPrefix(g, "lib.") {
			continue
		}
		g0, _ := e.getGhost(entry, g)
		if rst.ghost[g] != g0 && !ghostMod[g] {
			out = append(out, [3]string{fmt.Sprintf("%s.frame.ghost.%s", name, g), "ghost variable " + g + " is updated but not named in modifies", sEq(rst.ghost[g], g0)})
		}
	}
	return out
}

// ---- lemmas

func LemmaObligation(P *Program, cf *ContractFile, lm *Lemma) (*Obligation, []string) {
	e := newEngine(P, nil, nil, cf)
	e.declareGhosts()
	e.fname = pkgShort(cf.Pkg) + ".lemma." + lm.Name
	st := newState()
	ctx := &EvalCtx{st: st, old: st, binds: map[string]Val{}, cf: cf}
	if p := P.Pkgs[cf.Pkg]; p != nil {
		ctx.pkg = p.Types
	}
	for _, h := range lm.Hints {
		if h == "bv" {
			e.mode = "bv"
		}
	}
	g, err := e.evalBool(ctx, lm.E)
	if err != nil {
		return nil, []string{e.fname + ": " + err.Error()}
	}
	o := e.obNamed(e.fname, "lemma", "lemma: "+lm.Text, "true", g, token.NoPos)
	for _, h := range lm.Hints {
		if h == "induction" {
			o.Induct = true
		}
	}
	return o, e.errs
}

// filterContractForInstance drops clauses tagged for another generic instance ("@int64 ensures ...").
func filterContractForInstance(c *Contract, inst string) *Contract {
	keep := func(cl *Clause) bool { return cl == nil || cl.Tag == "" || cl.Tag == inst }
	n := *c
	n.Requires, n.Ensures, n.Sites, n.Known = nil, nil, nil, nil
	for _, x := range c.Requires {
		if keep(x) {
			n.Requires = append(n.Requires, x)
		}
	}
	for _, x := range c.Ensures {
		if keep(x) {
			n.Ensures = append(n.Ensures, x)
		}
	}
	for _, x := range c.Sites {
		if keep(x.Clause) {
			n.Sites = append(n.Sites, x)
		}
	}
	for _, x := range c.Known {
		if keep(x.Class) {
			n.Known = append(n.Known, x)
		}
	}
	if c.Loops != nil {
		n.Loops = map[int]*LoopSpec{}
		for k, ls := range c.Loops {
			nl := *ls
			nl.Invariants = nil
			for _, x := range ls.Invariants {
				if keep(x) {
					nl.Invariants = append(nl.Invariants, x)
				}
			}
			n.Loops[k] = &nl
		}
	}
	return &n
}
