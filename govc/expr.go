package main

// Specification expression language (DESIGN.md Appendix C): Go expression syntax plus
// ==>, <==>, forall/exists, old(), ite(), ===, ++, $k/$off.
// A small Pratt parser of its own; leaves are resolved against go/types by eval.go.

import (
	"fmt"
	"strconv"
	"strings"
	"unicode"
)

type Expr struct {
	Op   string  // "lit","ident","un","bin","call","sel","index","slice","forall","exists","old","ite","complit","typed"
	Name string  // identifier / operator / field / callee
	Args []*Expr // operands
	Lit  string  // literal text
	Kind string  // for lit: "int","char","string","bool","nil","float"
	Var  string  // bound variable
	VarT string  // bound variable type text ("" = int range form)
	Src  string
}

func (e *Expr) String() string {
	if e == nil {
		return "<nil>"
	}
	switch e.Op {
	case "lit":
		return e.Lit
	case "ident":
		return e.Name
	case "un":
		return e.Name + e.Args[0].String()
	case "bin":
		return "(" + e.Args[0].String() + " " + e.Name + " " + e.Args[1].String() + ")"
	case "call":
		var a []string
		for _, x := range e.Args {
			a = append(a, x.String())
		}
		return e.Name + "(" + strings.Join(a, ", ") + ")"
	case "sel":
		return e.Args[0].String() + "." + e.Name
	case "index":
		return e.Args[0].String() + "[" + e.Args[1].String() + "]"
	case "slice":
		lo, hi := "", ""
		if e.Args[1] != nil {
			lo = e.Args[1].String()
		}
		if e.Args[2] != nil {
			hi = e.Args[2].String()
		}
		return e.Args[0].String() + "[" + lo + ":" + hi + "]"
	case "forall", "exists":
		if e.VarT != "" {
			return e.Op + " " + e.Var + " " + e.VarT + " : " + e.Args[0].String()
		}
		return e.Op + " " + e.Var + " in " + e.Args[0].String() + " .. " + e.Args[1].String() + " : " + e.Args[2].String()
	case "old":
		return "old(" + e.Args[0].String() + ")"
	case "ite":
		return "ite(" + e.Args[0].String() + ", " + e.Args[1].String() + ", " + e.Args[2].String() + ")"
	case "complit":
		var a []string
		for _, x := range e.Args {
			a = append(a, x.String())
		}
		return e.Name + "{" + strings.Join(a, ", ") + "}"
	}
	return "?" + e.Op
}

type tok struct {
	kind string // "id","int","float","char","str","op","eof"
	text string
}

type lexer struct {
	src  string
	toks []tok
	pos  int
}

var ops3 = []string{"==>", "===", "<==", "&^="}
var ops2 = []string{"==", "!=", "<=", ">=", "&&", "||", "<<", ">>", "..", "++", "&^"}

func lex(src string) ([]tok, error) {
	var toks []tok
	i := 0
	for i < len(src) {
		c := src[i]
		switch {
		case c == ' ' || c == '\t' || c == '\n' || c == '\r':
			i++
		case c == '/' && i+1 < len(src) && src[i+1] == '/':
			// trailing comment
			for i < len(src) && src[i] != '\n' {
				i++
			}
		case unicode.IsLetter(rune(c)) || c == '_' || c == '$':
			j := i + 1
			for j < len(src) && (unicode.IsLetter(rune(src[j])) || unicode.IsDigit(rune(src[j])) || src[j] == '_' || src[j] == '$' || src[j] == '#') {
				j++
			}
			toks = append(toks, tok{"id", src[i:j]})
			i = j
		case c >= '0' && c <= '9':
			j := i + 1
			isFloat := false
			if c == '0' && j < len(src) && (src[j] == 'x' || src[j] == 'X') {
				j++
				for j < len(src) && (isHex(src[j]) || src[j] == '_') {
					j++
				}
			} else {
				for j < len(src) && (src[j] >= '0' && src[j] <= '9' || src[j] == '_') {
					j++
				}
				if j+1 < len(src) && src[j] == '.' && src[j+1] >= '0' && src[j+1] <= '9' {
					isFloat = true
					j++
					for j < len(src) && (src[j] >= '0' && src[j] <= '9') {
						j++
					}
				}
				if j < len(src) && (src[j] == 'e' || src[j] == 'E') {
					k := j + 1
					if k < len(src) && (src[k] == '+' || src[k] == '-') {
						k++
					}
					if k < len(src) && src[k] >= '0' && src[k] <= '9' {
						isFloat = true
						for k < len(src) && src[k] >= '0' && src[k] <= '9' {
							k++
						}
						j = k
					}
				}
			}
			if isFloat {
				toks = append(toks, tok{"float", src[i:j]})
			} else {
				toks = append(toks, tok{"int", strings.ReplaceAll(src[i:j], "_", "")})
			}
			i = j
		case c == '\'':
			j := i + 1
			for j < len(src) && src[j] != '\'' {
				if src[j] == '\\' {
					j++
				}
				j++
			}
			if j >= len(src) {
				return nil, fmt.Errorf("unterminated char literal")
			}
			toks = append(toks, tok{"char", src[i : j+1]})
			i = j + 1
		case c == '"':
			j := i + 1
			for j < len(src) && src[j] != '"' {
				if src[j] == '\\' {
					j++
				}
				j++
			}
			if j >= len(src) {
				return nil, fmt.Errorf("unterminated string literal")
			}
			toks = append(toks, tok{"str", src[i : j+1]})
			i = j + 1
		default:
			matched := false
			if i+4 <= len(src) && src[i:i+4] == "<==>" {
				toks = append(toks, tok{"op", "<==>"})
				i += 4
				matched = true
			}
			if !matched {
				for _, o := range ops3 {
					if strings.HasPrefix(src[i:], o) {
						toks = append(toks, tok{"op", o})
						i += len(o)
						matched = true
						break
					}
				}
			}
			if !matched {
				for _, o := range ops2 {
					if strings.HasPrefix(src[i:], o) {
						toks = append(toks, tok{"op", o})
						i += len(o)
						matched = true
						break
					}
				}
			}
			if !matched {
				toks = append(toks, tok{"op", string(c)})
				i++
			}
		}
	}
	toks = append(toks, tok{"eof", ""})
	return toks, nil
}

func isHex(c byte) bool {
	return c >= '0' && c <= '9' || c >= 'a' && c <= 'f' || c >= 'A' && c <= 'F'
}

type parser struct {
	toks []tok
	pos  int
	src  string
}

func parseExpr(src string) (e *Expr, err error) {
	toks, err := lex(src)
	if err != nil {
		return nil, err
	}
	p := &parser{toks: toks, src: src}
	defer func() {
		if r := recover(); r != nil {
			if pe, ok := r.(parseErr); ok {
				err = fmt.Errorf("%s in %q", string(pe), src)
				e = nil
				return
			}
			panic(r)
		}
	}()
	e = p.parse(0)
	if p.peek().kind != "eof" {
		p.fail("unexpected token %q", p.peek().text)
	}
	e.Src = src
	return e, nil
}

type parseErr string

func (p *parser) fail(f string, a ...any) {
	panic(parseErr(fmt.Sprintf(f, a...)))
}
func (p *parser) peek() tok { return p.toks[p.pos] }
func (p *parser) next() tok {
	t := p.toks[p.pos]
	if p.pos < len(p.toks)-1 {
		p.pos++
	}
	return t
}
func (p *parser) accept(text string) bool {
	if t := p.peek(); (t.kind == "op" || t.kind == "id") && t.text == text {
		p.next()
		return true
	}
	return false
}
func (p *parser) expect(text string) {
	if !p.accept(text) {
		p.fail("expected %q, found %q", text, p.peek().text)
	}
}

// binding powers
var binPrec = map[string]int{
	"<==>": 1, "==>": 2, "||": 3, "&&": 4,
	"==": 5, "!=": 5, "<": 5, "<=": 5, ">": 5, ">=": 5, "===": 5,
	"+": 6, "-": 6, "|": 6, "^": 6, "++": 6,
	"*": 7, "/": 7, "%": 7, "<<": 7, ">>": 7, "&": 7, "&^": 7,
}

func (p *parser) parse(minPrec int) *Expr {
	lhs := p.parseUnary()
	for {
		t := p.peek()
		if t.kind != "op" {
			break
		}
		prec, ok := binPrec[t.text]
		if !ok || prec < minPrec {
			break
		}
		p.next()
		var rhs *Expr
		if t.text == "==>" || t.text == "<==>" {
			rhs = p.parse(prec) // right assoc
		} else {
			rhs = p.parse(prec + 1)
		}
		lhs = &Expr{Op: "bin", Name: t.text, Args: []*Expr{lhs, rhs}}
	}
	return lhs
}

func (p *parser) parseUnary() *Expr {
	t := p.peek()
	if t.kind == "op" && (t.text == "!" || t.text == "-" || t.text == "^" || t.text == "*") {
		p.next()
		x := p.parseUnary()
		return &Expr{Op: "un", Name: t.text, Args: []*Expr{x}}
	}
	if t.kind == "id" && (t.text == "forall" || t.text == "exists") && p.toks[p.pos+1].kind == "id" {
		p.next()
		v := p.next()
		if v.kind != "id" {
			p.fail("expected bound variable")
		}
		if p.accept("in") {
			lo := p.parse(6)
			p.expect("..")
			hi := p.parse(6)
			p.expect(":")
			body := p.parse(0)
			return &Expr{Op: t.text, Var: v.text, Args: []*Expr{lo, hi, body}}
		}
		// typed form: forall x T : body ; T is the token text up to ':'
		var ty []string
		for p.peek().text != ":" {
			if p.peek().kind == "eof" {
				p.fail("expected ':' in quantifier")
			}
			ty = append(ty, p.next().text)
		}
		p.expect(":")
		body := p.parse(0)
		return &Expr{Op: t.text, Var: v.text, VarT: strings.Join(ty, ""), Args: []*Expr{body}}
	}
	return p.parsePostfix(p.parsePrimary())
}

func (p *parser) parsePrimary() *Expr {
	t := p.next()
	switch t.kind {
	case "int":
		return &Expr{Op: "lit", Kind: "int", Lit: t.text}
	case "float":
		return &Expr{Op: "lit", Kind: "float", Lit: t.text}
	case "char":
		r, _, _, err := strconv.UnquoteChar(t.text[1:len(t.text)-1], '\'')
		if err != nil {
			p.fail("bad char literal %s", t.text)
		}
		return &Expr{Op: "lit", Kind: "int", Lit: strconv.Itoa(int(r))}
	case "str":
		s, err := strconv.Unquote(t.text)
		if err != nil {
			p.fail("bad string literal %s", t.text)
		}
		return &Expr{Op: "lit", Kind: "string", Lit: s}
	case "id":
		switch t.text {
		case "true", "false":
			return &Expr{Op: "lit", Kind: "bool", Lit: t.text}
		case "nil":
			return &Expr{Op: "lit", Kind: "nil", Lit: "nil"}
		case "old":
			p.expect("(")
			x := p.parse(0)
			p.expect(")")
			return &Expr{Op: "old", Args: []*Expr{x}}
		case "ite":
			p.expect("(")
			c := p.parse(0)
			p.expect(",")
			a := p.parse(0)
			p.expect(",")
			b := p.parse(0)
			p.expect(")")
			return &Expr{Op: "ite", Args: []*Expr{c, a, b}}
		}
		return &Expr{Op: "ident", Name: t.text}
	case "op":
		if t.text == "(" {
			x := p.parse(0)
			p.expect(")")
			return x
		}
		if t.text == "[" { // type prefix like []member{...} not supported; treat as error
			p.fail("unexpected '['")
		}
	}
	p.fail("unexpected token %q", t.text)
	return nil
}

func (p *parser) parsePostfix(x *Expr) *Expr {
	for {
		t := p.peek()
		if t.kind != "op" {
			return x
		}
		switch t.text {
		case ".":
			p.next()
			n := p.next()
			if n.kind != "id" {
				p.fail("expected field name after '.'")
			}
			x = &Expr{Op: "sel", Name: n.text, Args: []*Expr{x}}
		case "(":
			p.next()
			var args []*Expr
			for !p.accept(")") {
				args = append(args, p.parse(0))
				if !p.accept(",") {
					p.expect(")")
					break
				}
			}
			name := ""
			switch x.Op {
			case "ident":
				name = x.Name
				x = &Expr{Op: "call", Name: name, Args: args}
			case "sel":
				// method-style or package-qualified call: pkg.F(args) / recv.M(args)
				x = &Expr{Op: "call", Name: "." + x.Name, Args: append([]*Expr{x.Args[0]}, args...)}
			default:
				p.fail("cannot call %s", x.String())
			}
		case "[":
			p.next()
			var lo, hi *Expr
			if p.peek().text != ":" {
				lo = p.parse(0)
			}
			if p.accept(":") {
				if p.peek().text != "]" {
					hi = p.parse(0)
				}
				p.expect("]")
				x = &Expr{Op: "slice", Args: []*Expr{x, lo, hi}}
			} else {
				p.expect("]")
				x = &Expr{Op: "index", Args: []*Expr{x, lo}}
			}
		case "{":
			if x.Op != "ident" && x.Op != "sel" {
				return x
			}
			p.next()
			var args []*Expr
			for !p.accept("}") {
				args = append(args, p.parse(0))
				if !p.accept(",") {
					p.expect("}")
					break
				}
			}
			x = &Expr{Op: "complit", Name: x.String(), Args: args}
		default:
			return x
		}
	}
}
