package main

import (
	"fmt"
	"go/token"
	"go/types"
	"math"
)

func mathFloat64bits(f float64) uint64 { return math.Float64bits(f) }
func mathFloat32bits(f float32) uint32 { return math.Float32bits(f) }

// rangeCheck: the mathematical result of an integer operation lies in the range of its Go type
// (so machine arithmetic coincides with mathematical arithmetic on this path).
func (e *Engine) rangeCheck(f *Frame, st *State, b *types.Basic, v string, pos token.Pos) {
	if e.mode == "bv" || b == nil {
		return
	}
	lo, hi := intRange(b)
	fact := fmt.Sprintf("(and (<= %s %s) (<= %s %s))", lo, v, v, hi)
	if e.C != nil && e.C.OverflowOK {
		e.overflowAssumed++
		e.assume(st.cond, fact)
		return
	}
	e.rangeObls++
	e.check(f, st, "range", "integer result within the range of its type (no overflow)", fact, pos)
}

func (e *Engine) binop(f *Frame, st *State, op token.Token, x, y Val, rt types.Type, pos token.Pos) Val {
	// strings
	if isString(x.T) && x.T != nil {
		switch op {
		case token.ADD:
			return Val{T: rt, S: e.define("cat", "Str", fmt.Sprintf("(scat %s %s)", x.S, y.S))}
		case token.EQL:
			return Val{T: rt, S: e.strEq(x.S, y.S)}
		case token.NEQ:
			return Val{T: rt, S: sNot(e.strEq(x.S, y.S))}
		case token.LSS, token.LEQ, token.GTR, token.GEQ:
			e.sc.Decl("fun:slt", "(declare-fun str.lt_ (Str Str) Bool)\n(assert (forall ((a Str)) (not (str.lt_ a a))))\n(assert (forall ((a Str) (b Str)) (! (or (str.lt_ a b) (str.lt_ b a) (= a b)) :pattern ((str.lt_ a b)))))\n(assert (forall ((a Str) (b Str)) (! (not (and (str.lt_ a b) (str.lt_ b a))) :pattern ((str.lt_ a b)))))\n(assert (forall ((a Str) (b Str) (c Str)) (! (=> (and (str.lt_ a b) (str.lt_ b c)) (str.lt_ a c)) :pattern ((str.lt_ a b) (str.lt_ b c)))))")
			switch op {
			case token.LSS:
				return Val{T: rt, S: fmt.Sprintf("(str.lt_ %s %s)", x.S, y.S)}
			case token.GTR:
				return Val{T: rt, S: fmt.Sprintf("(str.lt_ %s %s)", y.S, x.S)}
			case token.LEQ:
				return Val{T: rt, S: fmt.Sprintf("(not (str.lt_ %s %s))", y.S, x.S)}
			default:
				return Val{T: rt, S: fmt.Sprintf("(not (str.lt_ %s %s))", x.S, y.S)}
			}
		}
	}
	if isBool(x.T) {
		switch op {
		case token.EQL:
			return Val{T: rt, S: sEq(x.S, y.S)}
		case token.NEQ:
			return Val{T: rt, S: sNot(sEq(x.S, y.S))}
		case token.LAND, token.AND:
			return Val{T: rt, S: sAnd(x.S, y.S)}
		case token.LOR, token.OR:
			return Val{T: rt, S: sOr(x.S, y.S)}
		}
	}
	if fb, ok := isFloat(x.T); ok {
		_ = fb
		switch op {
		case token.ADD:
			return Val{T: rt, S: fmt.Sprintf("(fp.add RNE %s %s)", x.S, y.S)}
		case token.SUB:
			return Val{T: rt, S: fmt.Sprintf("(fp.sub RNE %s %s)", x.S, y.S)}
		case token.MUL:
			return Val{T: rt, S: fmt.Sprintf("(fp.mul RNE %s %s)", x.S, y.S)}
		case token.QUO:
			return Val{T: rt, S: fmt.Sprintf("(fp.div RNE %s %s)", x.S, y.S)}
		case token.EQL:
			return Val{T: rt, S: fmt.Sprintf("(fp.eq %s %s)", x.S, y.S)}
		case token.NEQ:
			return Val{T: rt, S: fmt.Sprintf("(not (fp.eq %s %s))", x.S, y.S)}
		case token.LSS:
			return Val{T: rt, S: fmt.Sprintf("(fp.lt %s %s)", x.S, y.S)}
		case token.LEQ:
			return Val{T: rt, S: fmt.Sprintf("(fp.leq %s %s)", x.S, y.S)}
		case token.GTR:
			return Val{T: rt, S: fmt.Sprintf("(fp.gt %s %s)", x.S, y.S)}
		case token.GEQ:
			return Val{T: rt, S: fmt.Sprintf("(fp.geq %s %s)", x.S, y.S)}
		}
	}
	if b, ok := isInt(x.T); ok {
		if e.mode == "bv" {
			return e.binopBV(f, st, op, x, y, rt, b, pos)
		}
		var r string
		checkRange := false
		// constant folding of bit operations
		if xn, ok1 := litInt(x.S); ok1 {
			if yn, ok2 := litInt(y.S); ok2 {
				a, okA := constIntString(xn)
				c, okC := constIntString(yn)
				if okA && okC {
					folded := true
					var v int64
					switch op {
					case token.AND:
						v = a & c
					case token.OR:
						v = a | c
					case token.XOR:
						v = a ^ c
					case token.AND_NOT:
						v = a &^ c
					default:
						folded = false
					}
					if folded {
						return Val{T: rt, S: sInt(v)}
					}
				}
			}
		}
		switch op {
		case token.ADD:
			r = fmt.Sprintf("(+ %s %s)", x.S, y.S)
			checkRange = true
		case token.SUB:
			r = fmt.Sprintf("(- %s %s)", x.S, y.S)
			checkRange = true
		case token.MUL:
			r = fmt.Sprintf("(* %s %s)", x.S, y.S)
			checkRange = true
		case token.QUO:
			e.check(f, st, "no-panic.divzero", "integer division by zero", sNot(sEq(y.S, "0")), pos)
			r = fmt.Sprintf("(go.div %s %s)", x.S, y.S)
		case token.REM:
			e.check(f, st, "no-panic.divzero", "integer division by zero", sNot(sEq(y.S, "0")), pos)
			r = fmt.Sprintf("(go.rem %s %s)", x.S, y.S)
		case token.EQL:
			return Val{T: rt, S: sEq(x.S, y.S)}
		case token.NEQ:
			return Val{T: rt, S: sNot(sEq(x.S, y.S))}
		case token.LSS:
			return Val{T: rt, S: fmt.Sprintf("(< %s %s)", x.S, y.S)}
		case token.LEQ:
			return Val{T: rt, S: fmt.Sprintf("(<= %s %s)", x.S, y.S)}
		case token.GTR:
			return Val{T: rt, S: fmt.Sprintf("(> %s %s)", x.S, y.S)}
		case token.GEQ:
			return Val{T: rt, S: fmt.Sprintf("(>= %s %s)", x.S, y.S)}
		case token.SHL:
			if n, ok := constIntString(y.S); ok && n >= 0 && n < 63 {
				r = fmt.Sprintf("(* %s %d)", x.S, int64(1)<<uint(n))
				checkRange = true
			}
		case token.SHR:
			if n, ok := constIntString(y.S); ok && n >= 0 && n < 63 {
				r = fmt.Sprintf("(div %s %d)", x.S, int64(1)<<uint(n))
			}
		case token.AND:
			if n, ok := constIntString(y.S); ok && n >= 0 && (n+1)&n == 0 {
				r = fmt.Sprintf("(mod %s %d)", x.S, n+1)
			} else if n, ok := constIntString(x.S); ok && n >= 0 && (n+1)&n == 0 {
				r = fmt.Sprintf("(mod %s %d)", y.S, n+1)
			} else if n, ok := constIntString(y.S); ok && n > 0 && n&(n-1) == 0 && isUnsigned(b) {
				r = fmt.Sprintf("(* %d (mod (div %s %d) 2))", n, x.S, n)
			}
		case token.OR:
			// single-bit masks on unsigned values
			if n, ok := constIntString(y.S); ok && n > 0 && n&(n-1) == 0 && isUnsigned(b) {
				r = fmt.Sprintf("(+ %s (* %d (- 1 (mod (div %s %d) 2))))", x.S, n, x.S, n)
			} else if n, ok := constIntString(x.S); ok && n > 0 && n&(n-1) == 0 && isUnsigned(b) {
				r = fmt.Sprintf("(+ %s (* %d (- 1 (mod (div %s %d) 2))))", y.S, n, y.S, n)
			}
		case token.AND_NOT:
			if n, ok := constIntString(y.S); ok && n > 0 && n&(n-1) == 0 && isUnsigned(b) {
				r = fmt.Sprintf("(- %s (* %d (mod (div %s %d) 2)))", x.S, n, x.S, n)
			}
		}
		if r == "" {
			e.note("integer operator %s in mode int is not modelled (use mode bv): result havocked in %s", op, e.fname)
			return e.havocVal(rt, "bitop", st)
		}
		v := Val{T: rt, S: e.define("t", "Int", r)}
		if checkRange {
			rb, _ := isInt(rt)
			e.rangeCheck(f, st, rb, v.S, pos)
		}
		return v
	}
	// pointers, interfaces, slices-to-nil, maps, chans, funcs, structs, arrays
	xs, ys := x.S, y.S
	if xs == "" {
		if p, ok := e.ptrTerm(x); ok {
			xs = p
		}
	}
	if ys == "" {
		if p, ok := e.ptrTerm(y); ok {
			ys = p
		}
	}
	if _, ok := x.T.Underlying().(*types.Slice); ok {
		// comparison with nil only
		switch op {
		case token.EQL:
			return Val{T: rt, S: fmt.Sprintf("(= (s.arr %s) 0)", nonNilSide(xs, ys))}
		case token.NEQ:
			return Val{T: rt, S: fmt.Sprintf("(not (= (s.arr %s) 0))", nonNilSide(xs, ys))}
		}
	}
	if xs != "" && ys != "" {
		switch op {
		case token.EQL:
			return Val{T: rt, S: e.valueEq(x.T, xs, ys)}
		case token.NEQ:
			return Val{T: rt, S: sNot(e.valueEq(x.T, xs, ys))}
		}
	}
	e.note("unsupported binary operation %s on %s in %s: havocked", op, x.T, e.fname)
	return e.havocVal(rt, "binop", st)
}

func nonNilSide(a, b string) string {
	if a == "(mk-slice 0 0 0 0)" {
		return b
	}
	return a
}

// valueEq: Go == on comparable values of type t.
func (e *Engine) valueEq(t types.Type, a, b string) string {
	switch u := t.Underlying().(type) {
	case *types.Basic:
		if u.Info()&types.IsFloat != 0 {
			return fmt.Sprintf("(fp.eq %s %s)", a, b)
		}
		if u.Info()&types.IsString != 0 {
			return e.strEq(a, b)
		}
	case *types.Struct:
		var fs []string
		for i := 0; i < u.NumFields(); i++ {
			fs = append(fs, e.valueEq(u.Field(i).Type(), e.fieldSel(t, u, i, a), e.fieldSel(t, u, i, b)))
		}
		return sAnd(fs...)
	case *types.Array:
		if _, isF := isFloat(u.Elem()); !isF && !isString(u.Elem()) {
			if u.Len() <= 16 {
				var fs []string
				for i := int64(0); i < u.Len(); i++ {
					fs = append(fs, e.valueEq(u.Elem(), fmt.Sprintf("(select %s %d)", a, i), fmt.Sprintf("(select %s %d)", b, i)))
				}
				return sAnd(fs...)
			}
		}
		return fmt.Sprintf("(forall ((i Int)) (=> (and (<= 0 i) (< i %d)) %s))", u.Len(), e.valueEq(u.Elem(), "(select "+a+" i)", "(select "+b+" i)"))
	}
	return sEq(a, b)
}

// strEq: Go string equality; emits the extensionality instance for this pair.
func (e *Engine) strEq(a, b string) string {
	if a == b {
		return "true"
	}
	key := "ext:" + a + "|" + b
	if hasBound(a) || hasBound(b) {
		return sEq(a, b)
	}
	if !e.sc.declared[key] {
		e.sc.declared[key] = true
		d := fmt.Sprintf("(sdiff %s %s)", a, b)
		e.sc.Line(fmt.Sprintf("(assert (=> (and (= (slen %s) (slen %s)) (or (< %s 0) (>= %s (slen %s)) (= (sbyte %s %s) (sbyte %s %s)))) (= %s %s)))", a, b, d, d, a, a, d, b, d, a, b))
	}
	return sEq(a, b)
}

func (e *Engine) binopBV(f *Frame, st *State, op token.Token, x, y Val, rt types.Type, b *types.Basic, pos token.Pos) Val {
	u := isUnsigned(b)
	bits := intBits(b)
	ys := y.S
	// shift counts may have a different width
	if op == token.SHL || op == token.SHR {
		if yb, ok := isInt(y.T); ok {
			yw := intBits(yb)
			if yw < bits {
				ys = fmt.Sprintf("((_ zero_extend %d) %s)", bits-yw, ys)
			} else if yw > bits {
				// saturate large counts
				ys = fmt.Sprintf("(ite (bvuge %s (_ bv%d %d)) (_ bv%d %d) ((_ extract %d 0) %s))", y.S, bits, yw, bits, bits, bits-1, y.S)
			}
		}
	}
	bin := func(o string) Val { return Val{T: rt, S: e.define("t", e.sortOf(rt), fmt.Sprintf("(%s %s %s)", o, x.S, ys))} }
	cmp := func(o string) Val { return Val{T: rt, S: fmt.Sprintf("(%s %s %s)", o, x.S, ys)} }
	switch op {
	case token.ADD:
		return bin("bvadd")
	case token.SUB:
		return bin("bvsub")
	case token.MUL:
		return bin("bvmul")
	case token.QUO:
		e.check(f, st, "no-panic.divzero", "integer division by zero", sNot(sEq(y.S, bvLit("0", bits))), pos)
		if u {
			return bin("bvudiv")
		}
		return bin("bvsdiv")
	case token.REM:
		e.check(f, st, "no-panic.divzero", "integer division by zero", sNot(sEq(y.S, bvLit("0", bits))), pos)
		if u {
			return bin("bvurem")
		}
		return bin("bvsrem")
	case token.AND:
		return bin("bvand")
	case token.OR:
		return bin("bvor")
	case token.XOR:
		return bin("bvxor")
	case token.AND_NOT:
		return Val{T: rt, S: e.define("t", e.sortOf(rt), fmt.Sprintf("(bvand %s (bvnot %s))", x.S, ys))}
	case token.SHL:
		return bin("bvshl")
	case token.SHR:
		if u {
			return bin("bvlshr")
		}
		return bin("bvashr")
	case token.EQL:
		return Val{T: rt, S: sEq(x.S, y.S)}
	case token.NEQ:
		return Val{T: rt, S: sNot(sEq(x.S, y.S))}
	case token.LSS:
		if u {
			return cmp("bvult")
		}
		return cmp("bvslt")
	case token.LEQ:
		if u {
			return cmp("bvule")
		}
		return cmp("bvsle")
	case token.GTR:
		if u {
			return cmp("bvugt")
		}
		return cmp("bvsgt")
	case token.GEQ:
		if u {
			return cmp("bvuge")
		}
		return cmp("bvsge")
	}
	return e.havocVal(rt, "bvop", st)
}
