package main

// Loading /repo's current working tree: module discovery, go/packages with -tags=verif,
// SSA construction, contract-file discovery (repo file, else the /verif mirror via overlay).

import (
	"fmt"
	"go/token"
	"go/types"
	"os"
	"path/filepath"
	"sort"
	"strings"

	"golang.org/x/tools/go/packages"
	"golang.org/x/tools/go/ssa"
	"golang.org/x/tools/go/ssa/ssautil"
)

type Module struct {
	Path string // module path
	Dir  string
}

func findModules(root string) ([]Module, error) {
	var mods []Module
	err := filepath.Walk(root, func(p string, info os.FileInfo, err error) error {
		if err != nil {
			return nil
		}
		if info.IsDir() {
			b := filepath.Base(p)
			if b == ".git" || b == "node_modules" || b == "testdata" {
				return filepath.SkipDir
			}
			return nil
		}
		if filepath.Base(p) == "go.mod" {
			data, err := os.ReadFile(p)
			if err != nil {
				return nil
			}
			for _, ln := range strings.Split(string(data), "\n") {
				ln = strings.TrimSpace(ln)
				if strings.HasPrefix(ln, "module ") {
					mods = append(mods, Module{Path: strings.TrimSpace(strings.TrimPrefix(ln, "module ")), Dir: filepath.Dir(p)})
					break
				}
			}
		}
		return nil
	})
	sort.Slice(mods, func(i, j int) bool { return len(mods[i].Path) > len(mods[j].Path) })
	return mods, err
}

func moduleOf(mods []Module, pkgPath string) *Module {
	for i := range mods {
		if pkgPath == mods[i].Path || strings.HasPrefix(pkgPath, mods[i].Path+"/") {
			return &mods[i]
		}
	}
	return nil
}

type Program struct {
	Mod       Module
	Fset      *token.FileSet
	Pkgs      map[string]*packages.Package
	SSA       *ssa.Program
	SPkgs     map[string]*ssa.Package
	Contracts map[string]*ContractFile // by package path
	Funcs     map[string]*ssa.Function // pkgpath + "::" + key
	AllFuncs  map[*ssa.Function]bool
	RepoRoot  string
	CSource   map[string]string // pkg path -> "repo" | "mirror"
	stores    map[*ssa.Global][]*ssa.Store
}

const contractFileName = "verif_contracts.go"

// contractPathFor returns where the contract file for pkg would be in the repo and in the mirror.
func contractPaths(repoRoot, verifRoot string, mods []Module, pkgPath string) (repoFile, mirror string) {
	m := moduleOf(mods, pkgPath)
	if m == nil {
		return "", ""
	}
	rel := strings.TrimPrefix(strings.TrimPrefix(pkgPath, m.Path), "/")
	repoFile = filepath.Join(m.Dir, rel, contractFileName)
	mirror = filepath.Join(verifRoot, "contracts", pkgPath, contractFileName)
	return
}

func goEnv() []string {
	env := os.Environ()
	env = append(env, "GOFLAGS=-mod=mod", "GOPROXY=off", "GOSUMDB=off", "GOTOOLCHAIN=local", "GOWORK=off")
	return env
}

// LoadProgram loads the named packages (all in module m) with their dependencies and builds SSA.
// instStubs: per package path, Go source of an in-memory file that forces generic instances.
func LoadProgram(repoRoot, verifRoot string, mods []Module, m Module, pkgPaths []string, instStubs map[string]string) (*Program, error) {
	overlay := map[string][]byte{}
	csource := map[string]string{}
	// contract files: if absent in the repo tree, supply the mirror through the overlay.
	for _, mm := range mods {
		_ = mm
	}
	mirrorRoot := filepath.Join(verifRoot, "contracts")
	_ = filepath.Walk(mirrorRoot, func(p string, info os.FileInfo, err error) error {
		if err != nil || info.IsDir() || filepath.Base(p) != contractFileName {
			return nil
		}
		pkgPath := filepath.ToSlash(strings.TrimPrefix(filepath.Dir(p), mirrorRoot+string(filepath.Separator)))
		rf, _ := contractPaths(repoRoot, verifRoot, mods, pkgPath)
		if rf == "" {
			return nil
		}
		if _, err := os.Stat(rf); err != nil {
			if data, err := os.ReadFile(p); err == nil {
				if _, err := os.Stat(filepath.Dir(rf)); err == nil {
					overlay[rf] = data
					csource[pkgPath] = "mirror"
				}
			}
		} else {
			csource[pkgPath] = "repo"
		}
		return nil
	})
	for pkgPath, src := range instStubs {
		mm := moduleOf(mods, pkgPath)
		if mm == nil {
			continue
		}
		rel := strings.TrimPrefix(strings.TrimPrefix(pkgPath, mm.Path), "/")
		overlay[filepath.Join(mm.Dir, rel, "zz_verif_instances.go")] = []byte(src)
	}
	cfg := &packages.Config{
		Mode:       packages.LoadAllSyntax,
		Dir:        m.Dir,
		BuildFlags: []string{"-tags=verif"},
		Env:        goEnv(),
		Overlay:    overlay,
	}
	pkgs, err := packages.Load(cfg, pkgPaths...)
	if err != nil {
		return nil, err
	}
	var errs []string
	packages.Visit(pkgs, nil, func(p *packages.Package) {
		if strings.HasPrefix(p.PkgPath, "go.opentelemetry.io/otel") {
			for _, e := range p.Errors {
				errs = append(errs, e.Error())
			}
		}
	})
	if len(errs) > 0 {
		return nil, fmt.Errorf("load errors: %s", strings.Join(errs, "; "))
	}
	prog, _ := ssautil.AllPackages(pkgs, ssa.InstantiateGenerics|ssa.GlobalDebug)
	prog.Build()
	P := &Program{Mod: m, Fset: prog.Fset, Pkgs: map[string]*packages.Package{}, SSA: prog, SPkgs: map[string]*ssa.Package{},
		Contracts: map[string]*ContractFile{}, Funcs: map[string]*ssa.Function{}, RepoRoot: repoRoot, CSource: csource}
	packages.Visit(pkgs, nil, func(p *packages.Package) {
		P.Pkgs[p.PkgPath] = p
	})
	for _, sp := range prog.AllPackages() {
		P.SPkgs[sp.Pkg.Path()] = sp
	}
	P.AllFuncs = ssautil.AllFunctions(prog)
	for fn := range P.AllFuncs {
		if fn.Pkg == nil && fn.Origin() == nil {
			continue
		}
		pk := funcPkgPath(fn)
		if pk == "" {
			continue
		}
		P.Funcs[pk+"::"+funcKey(fn)] = fn
	}
	// contract files
	for path, p := range P.Pkgs {
		for _, f := range p.GoFiles {
			if filepath.Base(f) == contractFileName {
				var cf *ContractFile
				var err error
				if data, ok := overlay[f]; ok {
					cf, err = ParseContractText(string(data), f, path)
				} else {
					cf, err = ParseContractFile(f, path)
				}
				if err != nil {
					return nil, err
				}
				P.Contracts[path] = cf
			}
		}
	}
	return P, nil
}

func funcPkgPath(fn *ssa.Function) string {
	if fn.Pkg != nil {
		return fn.Pkg.Pkg.Path()
	}
	if o := fn.Origin(); o != nil && o.Pkg != nil {
		return o.Pkg.Pkg.Path()
	}
	if fn.Parent() != nil {
		return funcPkgPath(fn.Parent())
	}
	if fn.Object() != nil && fn.Object().Pkg() != nil {
		return fn.Object().Pkg().Path()
	}
	return ""
}

// funcKey: "Recv.Name", "Name", "Outer$1", generic instances "Name[int64]" / "Recv[Event].add".
func funcKey(fn *ssa.Function) string {
	if fn.Parent() != nil {
		// closure: Parent key + $k
		name := fn.Name() // e.g. Outer$1
		idx := strings.LastIndex(name, "$")
		suffix := ""
		if idx >= 0 {
			suffix = name[idx:]
		}
		return funcKey(fn.Parent()) + suffix
	}
	name := fn.Name()
	targs := ""
	if ta := fn.TypeArgs(); len(ta) > 0 {
		var s []string
		for _, t := range ta {
			s = append(s, shortType(t))
		}
		targs = "[" + strings.Join(s, ",") + "]"
		if i := strings.Index(name, "["); i >= 0 {
			name = name[:i]
		}
	}
	if fn.Signature.Recv() != nil {
		rt := fn.Signature.Recv().Type()
		if p, ok := rt.(*types.Pointer); ok {
			rt = p.Elem()
		}
		rn := ""
		if n, ok := rt.(*types.Named); ok {
			rn = n.Obj().Name()
			if n.TypeArgs() != nil && n.TypeArgs().Len() > 0 {
				var s []string
				for i := 0; i < n.TypeArgs().Len(); i++ {
					s = append(s, shortType(n.TypeArgs().At(i)))
				}
				rn += "[" + strings.Join(s, ",") + "]"
				return rn + "." + name
			}
		} else {
			rn = shortType(rt)
		}
		return rn + "." + name + targs
	}
	return name + targs
}

func shortType(t types.Type) string {
	return types.TypeString(t, func(p *types.Package) string { return "" })
}

// FindFunc resolves a contract key in a package, for a given instance (type-argument text) if generic.
func (P *Program) FindFunc(pkgPath, key, inst string) *ssa.Function {
	if inst == "" {
		if f := P.Funcs[pkgPath+"::"+key]; f != nil {
			return f
		}
		return nil
	}
	// generic: key "evictedQueue.add" + inst "Event" -> "evictedQueue[Event].add"; "newSum" + "int64" -> "newSum[int64]"
	// (function keys carry unqualified type arguments: "time.Duration" is looked up as "Duration")
	if f := P.findFuncInst(pkgPath, key, inst); f != nil {
		return f
	}
	if i := strings.LastIndex(inst, "."); i >= 0 {
		return P.findFuncInst(pkgPath, key, inst[i+1:])
	}
	return nil
}

func (P *Program) findFuncInst(pkgPath, key, inst string) *ssa.Function {
	cands := []string{}
	if i := strings.Index(key, "."); i >= 0 {
		rest := key[i:]
		cands = append(cands, key[:i]+"["+inst+"]"+rest)
		if j := strings.Index(rest, "$"); j >= 0 {
			cands = append(cands, key[:i]+"["+inst+"]"+rest[:j]+rest[j:])
		}
	}
	if j := strings.Index(key, "$"); j >= 0 {
		cands = append(cands, key[:j]+"["+inst+"]"+key[j:])
	}
	cands = append(cands, key+"["+inst+"]")
	for _, c := range cands {
		if f := P.Funcs[pkgPath+"::"+c]; f != nil {
			return f
		}
	}
	return nil
}

// ContractFor finds the contract for an ssa function (generic instances map to their origin's contract).
func (P *Program) ContractFor(fn *ssa.Function) *Contract {
	pk := funcPkgPath(fn)
	cf := P.Contracts[pk]
	k := funcKey(fn)
	if cf == nil {
		// functions outside the repository: extern contracts stated by any contract file
		for _, f := range P.Contracts {
			if c := f.Externs[pk+"::"+k]; c != nil {
				return c
			}
		}
		return nil
	}
	if c := cf.Funcs[k]; c != nil {
		return c
	}
	if c := cf.Externs[pk+"::"+k]; c != nil {
		return c
	}
	// strip type arguments
	k2 := stripTypeArgs(k)
	if k2 != k {
		if c := cf.Funcs[k2]; c != nil {
			return c
		}
	}
	// extern contracts stated by the contract file of another package (a caller's view of this function)
	for _, f := range P.Contracts {
		if c := f.Externs[pk+"::"+k]; c != nil {
			return c
		}
	}
	return nil
}

func stripTypeArgs(k string) string {
	var b strings.Builder
	d := 0
	for _, c := range k {
		if c == '[' {
			d++
			continue
		}
		if c == ']' {
			d--
			continue
		}
		if d == 0 {
			b.WriteRune(c)
		}
	}
	return b.String()
}

func (P *Program) pos(p token.Pos) string {
	if !p.IsValid() {
		return "?"
	}
	pp := P.Fset.Position(p)
	rel, err := filepath.Rel(P.RepoRoot, pp.Filename)
	if err != nil {
		rel = pp.Filename
	}
	return fmt.Sprintf("%s:%d", rel, pp.Line)
}
