package main

// Calls: builtins, library models, modular use of callee contracts, inlining of contract-less callees.

import (
	"fmt"
	"go/token"
	"go/types"
	"strings"

	"golang.org/x/tools/go/ssa"
)

func (f *Frame) isSilent() bool {
	for x := f; x != nil; x = x.parent {
		if x.silent {
			return true
		}
	}
	return false
}

func (f *Frame) onStack(fn *ssa.Function) bool {
	for x := f; x != nil; x = x.parent {
		if x.fn == fn {
			return true
		}
	}
	return false
}

func (e *Engine) inlinable(fn *ssa.Function) bool {
	if len(fn.Blocks) == 0 {
		return false
	}
	pk := funcPkgPath(fn)
	if !strings.HasPrefix(pk, "go.opentelemetry.io/otel") {
		return false
	}
	return true
}

func (f *Frame) execCall(in *ssa.Call, st *State) Val {
	return f.doCall(in, in.Common(), st, in.Type(), in.Pos())
}

// doCall: the call itself, then copy-out for slices that view a snapshot of an array stored inside a struct or local
// (`scc.TraceID[:]`): what the callee left in the snapshot is stored back into the field, so writes through the slice are seen.
func (f *Frame) doCall(instr ssa.Instruction, cc *ssa.CallCommon, st *State, rt types.Type, pos token.Pos) Val {
	mark := len(f.e.matNew)
	r := f.doCallInner(instr, cc, st, rt, pos)
	// copy-out for interior pointers materialised for this call, whatever kind of callee it was (contract, inlined body,
	// library model, unknown function): what the callee left in the copy is the new content of the real location
	locModel := false
	if callee := cc.StaticCallee(); callee != nil {
		// sync and sync/atomic models work on the real location directly: the copy is stale and must not be copied back
		cs := callee.String()
		locModel = strings.HasPrefix(cs, "(*sync.") || strings.HasPrefix(cs, "(*sync/atomic.") || strings.HasPrefix(cs, "sync/atomic.")
	}
	if !st.dead && !locModel {
		for _, m := range f.e.matNew[mark:] {
			f.e.store(st, m.loc, fmt.Sprintf("(select %s %s)", f.e.getHeapP(st, m.sort), m.id))
		}
	}
	f.e.matNew = f.e.matNew[:mark]
	if st.dead || len(f.sliceSnap) == 0 {
		return r
	}
	// callees known not to write their slice arguments need no copy-out (it would count as a write of the viewed variable)
	if callee := cc.StaticCallee(); callee != nil {
		full := callee.String()
		if o := callee.Origin(); o != nil {
			full = o.String()
		}
		if _, isModel := libModels[full]; isModel && full != "encoding/hex.Decode" {
			return r
		}
		if c := f.e.P.ContractFor(callee); c != nil && c.Pure {
			return r
		}
	}
	if _, isBuiltin := cc.Value.(*ssa.Builtin); isBuiltin && cc.Value.Name() != "copy" {
		return r
	}
	for _, a := range cc.Args {
		sb, ok := f.sliceSnap[a]
		if !ok {
			continue
		}
		f.e.store(st, sb.loc, fmt.Sprintf("(select %s %s)", f.e.getHeapA(st, sb.sort), sb.arr))
	}
	return r
}

type sliceSnapshot struct {
	arr  string
	sort string
	loc  *Loc
}

func (f *Frame) doCallInner(instr ssa.Instruction, cc *ssa.CallCommon, st *State, rt types.Type, pos token.Pos) Val {
	e := f.e
	var args []Val
	for _, a := range cc.Args {
		args = append(args, f.val(a))
	}
	if bi, ok := cc.Value.(*ssa.Builtin); ok {
		return f.builtin(bi.Name(), cc, args, st, rt, pos)
	}
	for i := range args {
		args[i] = e.materializePtr(f, st, args[i])
	}
	if cc.IsInvoke() {
		recv := f.val(cc.Value)
		e.check(f, st, "no-panic.nilcall", "method call on nil interface", sNot(sEq(recv.S, "iface.nil")), pos)
		if c := e.ifaceContract(cc); c != nil {
			return f.applyContract(c, nil, cc, append([]Val{recv}, args...), st, rt, pos, cc.Method.Name())
		}
		e.tick(st)
		e.note("call through interface method %s without an interface contract: result havocked, no side effects assumed", cc.Method.FullName())
		e.siteCall(f, st, cc.Method.Name(), append([]Val{recv}, args...), pos)
		return e.havocVal(rt, "icall", st)
	}
	callee := cc.StaticCallee()
	var fv *FuncVal
	if callee == nil {
		v := f.val(cc.Value)
		if v.Fn != nil {
			fv = v.Fn
			callee = fv.Fn
		} else if l := v.Loc; l != nil && l.Kind == LCell && f.cellFns[l.Cell] != nil {
			fv = f.cellFns[l.Cell]
			callee = fv.Fn
		}
	} else if mc, ok := cc.Value.(*ssa.MakeClosure); ok {
		v := f.val(mc)
		fv = v.Fn
	}
	if callee == nil {
		// unknown function value
		v := f.val(cc.Value)
		if v.S != "" {
			e.check(f, st, "no-panic.nilfunc", "call of nil function value", sNot(sEq(v.S, "func.nil")), pos)
		}
		name := funcValueName(cc.Value)
		// a function loaded from a struct field with a declared lock footprint: lock-order obligations at the call
		if tn, fld, ok := funcFieldOf(cc.Value); ok {
			for _, cf := range e.P.Contracts {
				for _, class := range cf.FuncFields[tn+"."+fld] {
					for k := range st.locks {
						if k[strings.Index(k, "|")+1:] == class {
							e.ob(f, "lock.reentrant", "a function stored in "+tn+"."+fld+" acquires "+class+" which may already be held here (self-deadlock)", st.cond, "false", pos)
						}
					}
					e.lockLevelCheck(f, st, class, pos)
				}
			}
		}
		if r, ok := e.funcValueCall(f, st, cc, v, args, rt, pos); ok {
			return r
		}
		e.note("call of unknown function value %s in %s: result havocked, no side effects assumed", name, funcKey(f.fn))
		return e.havocVal(rt, "fcall", st)
	}
	full := callee.String()
	if o := callee.Origin(); o != nil {
		full = o.String()
	}
	if r, ok := e.lockModel(f, st, callee, cc, args, pos); ok {
		return r
	}
	if m, ok := libModels[full]; ok {
		e.usedModels[full] = true
		name := callee.Name()
		if o := callee.Origin(); o != nil {
			name = o.Name()
		}
		e.siteCall(f, st, name, args, pos)
		return m(f, st, cc, args, rt, pos)
	}
	c := e.P.ContractFor(callee)
	if c != nil && !c.Inline && !(callee == e.top && f.parent == nil && false) {
		if fv != nil {
			e.curBindings, e.curBindFrame = fv.Bindings, f
			defer func() { e.curBindings, e.curBindFrame = nil, nil }()
		}
		return f.applyContract(c, callee, cc, args, st, rt, pos, funcKey(callee))
	}
	if e.inlinable(callee) && !f.onStack(callee) && f.depth < e.maxInline {
		sub := e.newFrame(callee, f)
		sub.contract = c
		if fv != nil {
			sub.freeVars = fv.Bindings
		}
		hasLoopSpec := c != nil && len(c.Loops) > 0
		if len(sub.loops) == 0 || hasLoopSpec {
			e.siteCall(f, st, funcKey(callee), args, pos)
			rst, vals := sub.run(st, args)
			*st = *rst
			if len(vals) == 1 {
				return vals[0]
			}
			return Val{T: rt, Tuple: vals}
		}
		e.note("callee %s has loops and no contract: result arbitrary; the objects its pointer arguments point to and the elements of its slice arguments become arbitrary, nothing else is assumed to be written", full)
	} else {
		e.note("call to %s (no contract, no model): result arbitrary; the objects its pointer arguments point to and the elements of its slice arguments become arbitrary, nothing else is assumed to be written", full)
	}
	e.siteCall(f, st, funcKey(callee), args, pos)
	e.tick(st)
	e.unmodelled[full] = true
	// a callee whose body is not looked at may write through what it is handed
	if !knownReadOnly(full) {
		for _, a := range args {
			if a.T == nil {
				continue
			}
			switch u := a.T.Underlying().(type) {
			case *types.Pointer:
				if pt, ok := e.ptrTerm(a); ok {
					if _, isStruct := u.Elem().Underlying().(*types.Struct); isStruct && !isLockType(u.Elem()) {
						e.havocLoc(st, modLoc{kind: "obj", base: pt, rootT: u.Elem()})
					}
				}
			case *types.Slice:
				if a.S != "" {
					e.havocLoc(st, modLoc{kind: "elems", slice: a.S, base: "(s.arr " + a.S + ")", rootT: u.Elem()})
				}
			}
		}
	}
	return e.havocVal(rt, "call."+callee.Name(), st)
}

func (e *Engine) ifaceContract(cc *ssa.CallCommon) *Contract {
	return e.ifaceContractByType(cc.Value.Type(), cc.Method.Name())
}

func (e *Engine) ifaceContractByType(recvT types.Type, mname string) *Contract {
	tn := ""
	pk := ""
	if n, ok := recvT.(*types.Named); ok {
		tn = n.Obj().Name()
		if n.Obj().Pkg() != nil {
			pk = n.Obj().Pkg().Path()
		}
	} else if a, ok := recvT.(*types.Alias); ok {
		tn = a.Obj().Name()
		if a.Obj().Pkg() != nil {
			pk = a.Obj().Pkg().Path()
		}
	}
	key := tn + "." + mname
	if cf := e.P.Contracts[pk]; cf != nil {
		if ic := cf.Ifaces[key]; ic != nil {
			return ic.C
		}
	}
	// the verified function's own package may state contracts for foreign interfaces: pkgname.I.M
	if e.CF != nil {
		if ic := e.CF.Ifaces[key]; ic != nil {
			return ic.C
		}
	}
	return nil
}

// funcValueCall handles calls through function-typed parameters declared in the contract (pure / called-once ghosts).
// funcValueName: a stable name for a call through a function value (parameter, captured variable, package variable).
func funcValueName(v ssa.Value) string {
	switch x := v.(type) {
	case *ssa.Parameter:
		return x.Name()
	case *ssa.FreeVar:
		return x.Name()
	case *ssa.UnOp:
		if g, ok := x.X.(*ssa.Global); ok {
			return g.Name()
		}
		if fv, ok := x.X.(*ssa.FreeVar); ok {
			return fv.Name()
		}
		if fa, ok := x.X.(*ssa.FieldAddr); ok {
			st := fa.X.Type().Underlying().(*types.Pointer).Elem().Underlying().(*types.Struct)
			return st.Field(fa.Field).Name()
		}
		if a, ok := x.X.(*ssa.Alloc); ok && a.Comment != "" {
			return a.Comment
		}
	case *ssa.Field:
		if st, ok := x.X.Type().Underlying().(*types.Struct); ok {
			return st.Field(x.Field).Name()
		}
	case *ssa.Phi:
		if x.Comment != "" {
			return x.Comment
		}
	}
	return "funcvalue"
}

func (e *Engine) funcValueCall(f *Frame, st *State, cc *ssa.CallCommon, fv Val, args []Val, rt types.Type, pos token.Pos) (Val, bool) {
	e.siteCall(f, st, funcValueName(cc.Value), args, pos)
	e.tick(st)
	// an unknown function may write through its pointer arguments: those objects become arbitrary
	for _, a := range args {
		if a.T == nil {
			continue
		}
		if p, ok := a.T.Underlying().(*types.Pointer); ok {
			if pt, ok := e.ptrTerm(a); ok {
				e.havocLoc(st, modLoc{kind: "obj", base: pt, rootT: p.Elem()})
				e.assumed["functions called through function values write only the objects their pointer arguments point to"] = true
			}
		}
	}
	if fv.S == "" {
		return Val{}, false
	}
	v, err := e.applyFuncValue(fv, args, rt, st)
	if err != nil {
		return Val{}, false
	}
	e.note("calls through function values are treated as deterministic and side-effect free (%s in %s)", funcValueName(cc.Value), funcKey(f.fn))
	return v, true
}

// applyFuncValue: deterministic application - the result is an uninterpreted function of (func value, argument terms).
func (e *Engine) applyFuncValue(fv Val, args []Val, rt types.Type, st *State) (Val, error) {
	var sorts, terms []string
	sorts = append(sorts, "Func")
	terms = append(terms, fv.S)
	for _, a := range args {
		if a.S == "" {
			return Val{}, fmt.Errorf("argument without a term")
		}
		sorts = append(sorts, e.valSort(a))
		terms = append(terms, a.S)
	}
	if tup, ok := rt.(*types.Tuple); ok {
		if tup.Len() == 0 {
			return Val{T: rt}, nil
		}
		var vs []Val
		for i := 0; i < tup.Len(); i++ {
			name := fmt.Sprintf("apply.%s.%d", mangle(strings.Join(sorts, "_")+"_"+e.sortOf(tup.At(i).Type())), i)
			e.sc.Decl("fun:"+name, fmt.Sprintf("(declare-fun %s (%s) %s)", name, strings.Join(sorts, " "), e.sortOf(tup.At(i).Type())))
			v := Val{T: tup.At(i).Type(), S: e.define("ap", e.sortOf(tup.At(i).Type()), "("+name+" "+strings.Join(terms, " ")+")")}
			e.assumeTyping(st, v)
			vs = append(vs, v)
		}
		return Val{T: rt, Tuple: vs}, nil
	}
	name := "apply." + mangle(strings.Join(sorts, "_")+"_"+e.sortOf(rt))
	e.sc.Decl("fun:"+name, fmt.Sprintf("(declare-fun %s (%s) %s)", name, strings.Join(sorts, " "), e.sortOf(rt)))
	v := Val{T: rt, S: e.define("ap", e.sortOf(rt), "("+name+" "+strings.Join(terms, " ")+")")}
	e.assumeTyping(st, v)
	return v, nil
}

type modLoc struct {
	kind  string // "obj","field","elems","map"
	base  string
	rootT types.Type
	field int
	mapT  *types.Map
	slice string
}

// modifiesLocs evaluates one modifies entry of contract c at a call (args==nil: with dummy arguments).
func (e *Engine) modifiesLocs(f *Frame, c *Contract, callee *ssa.Function, cc *ssa.CallCommon, m string, args []Val, st *State) ([]modLoc, bool) {
	if st == nil {
		st = newState()
	}
	ctx := &EvalCtx{f: nil, st: st, old: st, binds: map[string]Val{}}
	e.bindParams(ctx, c, callee, cc, args, st)
	x, err := parseExpr(m)
	if err != nil {
		e.bindError(c.Key+".modifies", err)
		return nil, false
	}
	return e.modLocOf(ctx, x, c)
}

func (e *Engine) modLocOf(ctx *EvalCtx, x *Expr, c *Contract) ([]modLoc, bool) {
	switch {
	case x.Op == "call" && x.Name == "elemscap" && len(x.Args) == 1:
		// all elements of the backing array window [off, off+cap) (in-place append may write beyond len)
		v, err := e.eval(ctx, x.Args[0])
		if err != nil {
			e.bindError(c.Key+".modifies", err)
			return nil, false
		}
		if sl, ok := v.T.Underlying().(*types.Slice); ok {
			w := fmt.Sprintf("(mk-slice (s.arr %s) (s.off %s) (s.cap %s) (s.cap %s))", v.S, v.S, v.S, v.S)
			return []modLoc{{kind: "elems", base: "(s.arr " + v.S + ")", rootT: sl.Elem(), slice: w}}, true
		}
	case x.Op == "call" && x.Name == "elems" && len(x.Args) == 1:
		v, err := e.eval(ctx, x.Args[0])
		if err != nil {
			e.bindError(c.Key+".modifies", err)
			return nil, false
		}
		if sl, ok := v.T.Underlying().(*types.Slice); ok {
			return []modLoc{{kind: "elems", base: "(s.arr " + v.S + ")", rootT: sl.Elem(), slice: v.S}}, true
		}
	case x.Op == "call" && x.Name == "obj" && len(x.Args) == 1:
		v, err := e.eval(ctx, x.Args[0])
		if err != nil {
			e.bindError(c.Key+".modifies", err)
			return nil, false
		}
		if p, ok := v.T.Underlying().(*types.Pointer); ok {
			pt, _ := e.ptrTerm(v)
			return []modLoc{{kind: "obj", base: pt, rootT: p.Elem()}}, true
		}
	case x.Op == "sel":
		v, err := e.eval(ctx, x.Args[0])
		if err != nil {
			e.bindError(c.Key+".modifies", err)
			return nil, false
		}
		if p, ok := v.T.Underlying().(*types.Pointer); ok {
			if stt, ok := p.Elem().Underlying().(*types.Struct); ok {
				for i := 0; i < stt.NumFields(); i++ {
					if stt.Field(i).Name() == x.Name {
						pt, _ := e.ptrTerm(v)
						if mt, isMap := stt.Field(i).Type().Underlying().(*types.Map); isMap {
							// a map-typed field names the map's contents (the field itself keeps pointing to the same map)
							fv, err := e.evalSelect(ctx, v, x.Name)
							if err == nil {
								return []modLoc{{kind: "map", base: fv.S, mapT: mt}}, true
							}
						}
						return []modLoc{{kind: "field", base: pt, rootT: p.Elem(), field: i}}, true
					}
				}
			}
		}
	default:
		v, err := e.eval(ctx, x)
		if err != nil {
			e.bindError(c.Key+".modifies", err)
			return nil, false
		}
		if v.T != nil {
			switch u := v.T.Underlying().(type) {
			case *types.Pointer:
				pt, _ := e.ptrTerm(v)
				return []modLoc{{kind: "obj", base: pt, rootT: u.Elem()}}, true
			case *types.Map:
				return []modLoc{{kind: "map", base: v.S, mapT: u}}, true
			case *types.Slice:
				return []modLoc{{kind: "elems", base: "(s.arr " + v.S + ")", rootT: u.Elem(), slice: v.S}}, true
			}
		}
	}
	e.bindError(c.Key+".modifies", fmt.Errorf("cannot interpret modifies entry %s", x.String()))
	return nil, false
}

// bindParams binds contract parameter names to argument values (dummy symbols when args == nil).
func (e *Engine) bindParams(ctx *EvalCtx, c *Contract, callee *ssa.Function, cc *ssa.CallCommon, args []Val, st *State) {
	ctx.paramVals = map[string]Val{}
	if callee != nil {
		ctx.pkg = funcTypesPkg(callee)
		ctx.cf = e.P.Contracts[funcPkgPath(callee)]
		ctx.fnForTypes = callee
		for i, p := range callee.Params {
			var v Val
			if args != nil && i < len(args) {
				v = args[i]
				if v.T == nil {
					v.T = p.Type()
				}
			} else {
				v = e.havocVal(p.Type(), "dummy."+p.Name(), st)
			}
			ctx.paramVals[p.Name()] = v
			if i < len(c.ParamNamesWithRecv(callee)) {
				if n := c.ParamNamesWithRecv(callee)[i]; n != "" && n != "_" {
					ctx.paramVals[n] = v
				}
			}
		}
		// captured variables of a closure called with known bindings: their names denote the captured variables' current content
		if e.curBindings != nil {
			for i, fv := range callee.FreeVars {
				if i >= len(e.curBindings) {
					break
				}
				if _, bound := ctx.paramVals[fv.Name()]; bound {
					continue
				}
				v := e.curBindings[i]
				if pt, isPtr := fv.Type().(*types.Pointer); isPtr {
					if l := e.locOf(e.curBindFrame, v); l != nil {
						ctx.paramVals[fv.Name()] = Val{T: pt.Elem(), S: e.load(ctx.st, l)}
					}
					continue
				}
				ctx.paramVals[fv.Name()] = v
			}
		}
		return
	}
	// interface method: receiver is "self", parameters by the names in the contract header
	if cc != nil {
		sig := cc.Signature()
		if n, ok := cc.Value.Type().(*types.Named); ok && n.Obj().Pkg() != nil {
			if p := e.P.Pkgs[n.Obj().Pkg().Path()]; p != nil {
				ctx.pkg = p.Types
				ctx.cf = e.P.Contracts[n.Obj().Pkg().Path()]
			}
		}
		if ctx.pkg == nil && e.top != nil {
			ctx.pkg = funcTypesPkg(e.top)
			ctx.cf = e.CF
		}
		var recv Val
		if args != nil {
			recv = args[0]
		} else {
			recv = e.havocVal(cc.Value.Type(), "dummy.self", st)
		}
		ctx.paramVals["self"] = recv
		for i := 0; i < sig.Params().Len(); i++ {
			var v Val
			if args != nil && i+1 < len(args) {
				v = args[i+1]
			} else {
				v = e.havocVal(sig.Params().At(i).Type(), "dummy", st)
			}
			if i < len(c.ParamNames) {
				ctx.paramVals[c.ParamNames[i]] = v
			}
			if n := sig.Params().At(i).Name(); n != "" {
				ctx.paramVals[n] = v
			}
		}
	}
}

// ParamNamesWithRecv: contract header names aligned with ssa params (receiver first for methods).
func (c *Contract) ParamNamesWithRecv(callee *ssa.Function) []string {
	if callee.Signature.Recv() != nil {
		return append([]string{""}, c.ParamNames...)
	}
	return c.ParamNames
}

func (f *Frame) applyContract(c *Contract, callee *ssa.Function, cc *ssa.CallCommon, args []Val, st *State, rt types.Type, pos token.Pos, cname string) Val {
	e := f.e
	e.usedContracts[c.Pkg+"."+c.Key] = true
	if c.Trusted {
		e.assumed["trusted contract: "+c.Pkg+"."+c.Key+" ("+c.TrustedWhy+")"] = true
	}
	e.siteCall(f, st, cname, args, pos)
	pre := st.clone()
	ctx := &EvalCtx{f: nil, st: pre, old: pre, binds: map[string]Val{}}
	e.bindParams(ctx, c, callee, cc, args, st)
	// requires
	for _, r := range c.Requires {
		g, err := e.evalBool(ctx, r.E)
		if err != nil {
			e.bindError(c.Key+".requires", err)
			continue
		}
		kind := "call." + cname + ".requires"
		e.check(f, st, kind, fmt.Sprintf("precondition of %s: %s", cname, r.Text), g, pos)
	}
	// locks
	e.contractLocksPre(f, st, c, ctx, pos, cname)
	// frame
	if len(c.Modifies) > 0 {
		st.wm = e.havocWm(st)
	} else if !c.Pure {
		// allocation is always allowed
		st.wm = e.havocWm(st)
	}
	for _, m := range c.Modifies {
		if strings.HasPrefix(m, "ghost ") {
			g := strings.TrimSpace(strings.TrimPrefix(m, "ghost "))
			if srt, ok := e.ghostDecl[g]; ok {
				st.ghost[g] = e.freshConst("gh."+g, srt)
			}
			continue
		}
		locs, ok := e.modifiesLocs(f, c, callee, cc, m, args, pre)
		if !ok {
			continue
		}
		for _, ml := range locs {
			e.havocLoc(st, ml)
		}
	}
	if c.SkipFrame != "" && !c.HasModifies && !c.Pure {
		// a callee whose frame is not verified and that names no modifies set: its callers must not rely on "nothing
		// changed" - the objects its pointer arguments (receiver included) point to become arbitrary, constrained only
		// by the callee's postconditions
		for _, a := range args {
			if a.T == nil {
				continue
			}
			if p, ok := a.T.Underlying().(*types.Pointer); ok {
				if pt, ok := e.ptrTerm(a); ok {
					if _, isStruct := p.Elem().Underlying().(*types.Struct); isStruct {
						e.havocLoc(st, modLoc{kind: "obj", base: pt, rootT: p.Elem()})
					}
				}
			}
		}
		e.assumed["a callee with `unchecked frame` and no modifies clause is assumed to write only the objects its pointer arguments point to (made arbitrary at the call) and fresh objects"] = true
	}
	if !c.Pure {
		e.tick(st)
	}
	// results
	var results []Val
	var res Val
	sig := cc.Signature()
	if callee != nil {
		sig = callee.Signature
	}
	nres := sig.Results().Len()
	pureApp := c.Pure
	for i := 0; i < nres; i++ {
		t := sig.Results().At(i).Type()
		var v Val
		if pureApp {
			if pv, ok := e.pureApply(c, i, t, args); ok {
				v = pv
				e.assumeTyping(st, v)
			}
		}
		if v.S == "" {
			v = e.havocVal(t, "r."+sanitizeSym(cname), st)
		}
		results = append(results, v)
	}
	switch nres {
	case 0:
		res = Val{T: rt}
	case 1:
		res = results[0]
	default:
		res = Val{T: rt, Tuple: results}
	}
	// ensures
	post := &EvalCtx{f: nil, st: st, old: pre, binds: map[string]Val{}, results: results, resNames: c.ResultNames}
	post.paramVals = ctx.paramVals
	post.pkg, post.cf = ctx.pkg, ctx.cf
	// a callee with an active known finding only satisfies its contract outside the finding's input class
	outside := "true"
	for _, k := range c.Known {
		if !e.knownActive[k.ID] {
			continue
		}
		if g, err := e.evalBool(ctx, k.Class.E); err == nil {
			outside = sAnd(outside, sNot(g))
		}
	}
	calleeMode := "int"
	if c.Mode != "" {
		calleeMode = strings.Fields(c.Mode)[0]
	}
	for _, en := range c.Ensures {
		g, err := e.evalBool(post, en.E)
		if err != nil {
			if calleeMode != e.mode {
				// a clause written for the callee's arithmetic mode (bit-vector operators) cannot be stated in this
				// caller's mode: the caller simply does not learn it
				e.note("postcondition %d of %s (mode %s) is not expressible in mode %s of the caller and is not used", en.Ord, c.Key, calleeMode, e.mode)
				continue
			}
			e.bindError(c.Key+".ensures", err)
			continue
		}
		e.assume(st.cond, sImp(outside, g))
	}
	// type invariants of results
	for _, r := range results {
		e.assumeTypeInv(st, r)
	}
	e.contractLocksPost(f, st, c, ctx, pos)
	e.writeBack(st, args)
	return res
}

func (e *Engine) havocWm(st *State) string {
	n := e.freshConst("wm", "Int")
	e.assume("true", fmt.Sprintf("(>= %s %s)", n, st.wm))
	return n
}

func (e *Engine) pureApply(c *Contract, i int, t types.Type, args []Val) (Val, bool) {
	var sorts, terms []string
	for _, a := range args {
		if a.S == "" {
			return Val{}, false
		}
		sorts = append(sorts, e.valSort(a))
		terms = append(terms, a.S)
	}
	name := fmt.Sprintf("pure.%s.%s.%d", sanitizeSym(pkgShort(c.Pkg)), sanitizeSym(c.Key), i)
	if len(terms) == 0 {
		e.sc.Decl("fun:"+name, fmt.Sprintf("(declare-const %s %s)", name, e.sortOf(t)))
		return Val{T: t, S: name}, true
	}
	e.sc.Decl("fun:"+name, fmt.Sprintf("(declare-fun %s (%s) %s)", name, strings.Join(sorts, " "), e.sortOf(t)))
	return Val{T: t, S: e.define("pa", e.sortOf(t), "("+name+" "+strings.Join(terms, " ")+")")}, true
}

// pkgShort: unambiguous display name of a repository package (path relative to the otel root, exporter family prefix dropped).
func pkgShort(p string) string {
	if p == "go.opentelemetry.io/otel" {
		return "otel"
	}
	p = strings.TrimPrefix(p, "go.opentelemetry.io/otel/")
	for _, pre := range []string{"exporters/otlp/otlptrace/", "exporters/otlp/otlpmetric/", "exporters/otlp/otlplog/", "exporters/otlp/", "exporters/"} {
		if strings.HasPrefix(p, pre) {
			return strings.TrimPrefix(p, pre)
		}
	}
	return p
}

func (e *Engine) havocLoc(st *State, ml modLoc) {
	switch ml.kind {
	case "obj":
		srt := e.sortOf(ml.rootT)
		fresh := e.freshConst("obj", srt)
		st.heapP[srt] = e.define("hp", e.heapPSort(srt), fmt.Sprintf("(store %s %s %s)", e.getHeapP(st, srt), ml.base, fresh))
	case "field":
		srt := e.sortOf(ml.rootT)
		stt := ml.rootT.Underlying().(*types.Struct)
		ft := stt.Field(ml.field).Type()
		fresh := e.havocVal(ft, "fld", st).S
		old := fmt.Sprintf("(select %s %s)", e.getHeapP(st, srt), ml.base)
		st.heapP[srt] = e.define("hp", e.heapPSort(srt), fmt.Sprintf("(store %s %s %s)", e.getHeapP(st, srt), ml.base, e.structUpdate(ml.rootT, stt, old, ml.field, fresh)))
	case "elems":
		srt := e.sortOf(ml.rootT)
		fresh := e.freshConst("arr", "(Array Int "+srt+")")
		h := e.getHeapA(st, srt)
		// elements outside [off, off+len) are unchanged
		e.assume("true", fmt.Sprintf("(forall ((i Int)) (! (=> (or (< i (s.off %s)) (>= i (+ (s.off %s) (s.len %s)))) (= (select %s i) (select (select %s %s) i))) :pattern ((select %s i))))",
			ml.slice, ml.slice, ml.slice, fresh, h, ml.base, fresh))
		st.heapA[srt] = e.define("ha", e.heapASort(srt), fmt.Sprintf("(store %s %s %s)", h, ml.base, fresh))
	case "map":
		k := e.mapKey(ml.mapT)
		d, v, n := e.getMapD(st, ml.mapT), e.getMapV(st, ml.mapT), e.getMapN(st, ml.mapT)
		st.mapD[k] = e.define("md", e.mapSorts[k][0], fmt.Sprintf("(store %s %s %s)", d, ml.base, e.freshConst("dom", "(Array "+e.sortOf(ml.mapT.Key())+" Bool)")))
		st.mapV[k] = e.define("mv", e.mapSorts[k][1], fmt.Sprintf("(store %s %s %s)", v, ml.base, e.freshConst("val", "(Array "+e.sortOf(ml.mapT.Key())+" "+e.sortOf(ml.mapT.Elem())+")")))
		sz := e.freshConst("size", "Int")
		e.assume("true", "(>= "+sz+" 0)")
		st.mapN[k] = e.define("mn", "(Array Int Int)", fmt.Sprintf("(store %s %s %s)", n, ml.base, sz))
	}
}

// ---- builtins

func (f *Frame) builtin(name string, cc *ssa.CallCommon, args []Val, st *State, rt types.Type, pos token.Pos) Val {
	e := f.e
	intT := types.Typ[types.Int]
	switch name {
	case "len", "cap":
		a := args[0]
		switch u := a.T.Underlying().(type) {
		case *types.Basic:
			return Val{T: intT, S: e.lenTerm("(slen " + a.S + ")")}
		case *types.Slice:
			if name == "cap" {
				return Val{T: intT, S: e.lenTerm("(s.cap " + a.S + ")")}
			}
			return Val{T: intT, S: e.lenTerm("(s.len " + a.S + ")")}
		case *types.Array:
			return Val{T: intT, S: e.intLit(types.Typ[types.Int], fmt.Sprint(u.Len()))}
		case *types.Pointer:
			if at, ok := u.Elem().Underlying().(*types.Array); ok {
				return Val{T: intT, S: e.intLit(types.Typ[types.Int], fmt.Sprint(at.Len()))}
			}
		case *types.Map:
			v := Val{T: intT, S: e.define("mlen", "Int", fmt.Sprintf("(ite (= %s 0) 0 (select %s %s))", a.S, e.getMapN(st, u), a.S))}
			e.guardCheckMap(f, st, cc.Args[0], false, pos)
			return v
		case *types.Chan:
			v := e.havocVal(intT, "chlen", st)
			e.assume("true", "(>= "+v.S+" 0)")
			return v
		}
	case "append":
		return f.builtinAppend(cc, args, st, rt, pos)
	case "copy":
		return f.builtinCopy(cc, args, st, rt, pos)
	case "min", "max":
		r := args[0]
		for _, b := range args[1:] {
			lt := e.binop(f, st, token.LSS, r, b, types.Typ[types.Bool], pos)
			if name == "min" {
				r = Val{T: rt, S: e.define("min", e.sortOf(rt), sIte(lt.S, r.S, b.S))}
			} else {
				r = Val{T: rt, S: e.define("max", e.sortOf(rt), sIte(lt.S, b.S, r.S))}
			}
		}
		return r
	case "delete":
		m, k := args[0], args[1]
		mt := m.T.Underlying().(*types.Map)
		e.guardCheckMap(f, st, cc.Args[0], true, pos)
		e.rangeNoMutate(f, st, e.curBlock, mt, m.S, pos)
		key := e.mapKey(mt)
		d, n := e.getMapD(st, mt), e.getMapN(st, mt)
		kt := e.keyTerm(k, mt.Key())
		was := fmt.Sprintf("(select (select %s %s) %s)", d, m.S, kt)
		nn := fmt.Sprintf("(store %s %s (ite %s (- (select %s %s) 1) (select %s %s)))", n, m.S, was, n, m.S, n, m.S)
		nd := fmt.Sprintf("(store %s %s (store (select %s %s) %s false))", d, m.S, d, m.S, kt)
		// deleting from a nil map is a no-op
		st.mapN[key] = e.define("mn", "(Array Int Int)", sIte(sEq(m.S, "0"), n, nn))
		st.mapD[key] = e.define("md", e.mapSorts[key][0], sIte(sEq(m.S, "0"), d, nd))
		return Val{T: rt}
	case "clear":
		a := args[0]
		switch u := a.T.Underlying().(type) {
		case *types.Map:
			e.guardCheckMap(f, st, cc.Args[0], true, pos)
			e.rangeNoMutate(f, st, e.curBlock, u, a.S, pos)
			key := e.mapKey(u)
			d, n := e.getMapD(st, u), e.getMapN(st, u)
			st.mapN[key] = e.define("mn", "(Array Int Int)", sIte(sEq(a.S, "0"), n, fmt.Sprintf("(store %s %s 0)", n, a.S)))
			st.mapD[key] = e.define("md", e.mapSorts[key][0], sIte(sEq(a.S, "0"), d, fmt.Sprintf("(store %s %s ((as const (Array %s Bool)) false))", d, a.S, e.sortOf(u.Key()))))
		case *types.Slice:
			srt := e.sortOf(u.Elem())
			h := e.getHeapA(st, srt)
			fresh := e.freshConst("arr", "(Array Int "+srt+")")
			old := fmt.Sprintf("(select %s (s.arr %s))", h, a.S)
			e.assume("true", fmt.Sprintf("(forall ((i Int)) (! (= (select %s i) (ite (and (<= (s.off %s) i) (< i (+ (s.off %s) (s.len %s)))) %s (select %s i))) :pattern ((select %s i))))",
				fresh, a.S, a.S, a.S, e.zero(u.Elem()), old, fresh))
			st.heapA[srt] = e.define("ha", e.heapASort(srt), fmt.Sprintf("(store %s (s.arr %s) %s)", h, a.S, fresh))
		}
		return Val{T: rt}
	case "panic":
		if e.C != nil && e.C.SkipPanics != "" {
			e.skippedPanics++
		} else {
			e.ob(f, "no-panic.explicit", "explicit panic is unreachable", st.cond, "false", pos)
		}
		st.dead = true
		return Val{T: rt}
	case "recover":
		return Val{T: rt, S: "iface.nil"}
	case "close":
		e.chanClose(f, st, cc, args[0], pos)
		return Val{T: rt}
	case "print", "println":
		return Val{T: rt}
	}
	e.note("builtin %s not modelled: havocked", name)
	return e.havocVal(rt, "bi."+name, st)
}

func (f *Frame) builtinAppend(cc *ssa.CallCommon, args []Val, st *State, rt types.Type, pos token.Pos) Val {
	e := f.e
	s, t := args[0], args[1]
	sl := rt.Underlying().(*types.Slice)
	srt := e.sortOf(sl.Elem())
	h := e.getHeapA(st, srt)
	// source elements: slice or string (append([]byte, string...))
	var srcLen string
	var srcAt func(i string) string
	if isString(t.T) {
		srcLen = "(slen " + t.S + ")"
		srcAt = func(i string) string { return e.byteOfStr(t.S, i, sl.Elem()) }
	} else {
		srcLen = "(s.len " + t.S + ")"
		srcAt = func(i string) string {
			return fmt.Sprintf("(select (select %s (s.arr %s)) (+ (s.off %s) %s))", h, t.S, t.S, i)
		}
	}
	n := e.define("apn", "Int", srcLen)
	newLen := e.define("aplen", "Int", fmt.Sprintf("(+ (s.len %s) %s)", s.S, n))
	fits := e.define("apfits", "Bool", fmt.Sprintf("(<= %s (s.cap %s))", newLen, s.S))
	// destination array: in place when it fits, else fresh
	fresh := e.alloc(st)
	dstArr := e.define("aparr", "Int", sIte(fits, "(s.arr "+s.S+")", fresh))
	dstOff := e.define("apoff", "Int", sIte(fits, "(s.off "+s.S+")", "0"))
	newCap := e.freshConst("apcap", "Int")
	e.assume(st.cond, fmt.Sprintf("(and (>= %s %s) (<= %s 4611686018427387904) (=> %s (= %s (s.cap %s))))", newCap, newLen, newCap, fits, newCap, s.S))
	e.assume(st.cond, fmt.Sprintf("(<= %s 4611686018427387904)", newLen))
	na := e.freshConst("arr", "(Array Int "+srt+")")
	oldDst := fmt.Sprintf("(select %s %s)", h, dstArr)
	// contents: [dstOff, dstOff+len(s)) = old s ; [dstOff+len(s), dstOff+newLen) = src ; elsewhere: old dst array (in place)
	e.assume("true", fmt.Sprintf("(forall ((i Int)) (! (= (select %s i) (ite (and (<= %s i) (< i (+ %s (s.len %s)))) (select (select %s (s.arr %s)) (+ (s.off %s) (- i %s))) (ite (and (<= (+ %s (s.len %s)) i) (< i (+ %s %s))) %s (select %s i)))) :pattern ((select %s i))))",
		na, dstOff, dstOff, s.S, h, s.S, s.S, dstOff, dstOff, s.S, dstOff, newLen, srcAt(fmt.Sprintf("(- i (+ %s (s.len %s)))", dstOff, s.S)), oldDst, na))
	// appending nothing to a nil slice yields the slice unchanged
	st.heapA[srt] = e.define("ha", e.heapASort(srt), sIte(sEq(n, "0"), h, fmt.Sprintf("(store %s %s %s)", h, dstArr, na)))
	res := e.define("apres", "Slice", sIte(sEq(n, "0"), s.S, fmt.Sprintf("(mk-slice %s %s %s %s)", dstArr, dstOff, newLen, newCap)))
	return Val{T: rt, S: res}
}

func (f *Frame) builtinCopy(cc *ssa.CallCommon, args []Val, st *State, rt types.Type, pos token.Pos) Val {
	e := f.e
	// site "call copy#k": $arg0 destination, $arg1 source
	e.siteCall(f, st, "copy", args, pos)
	d, s := args[0], args[1]
	sl := d.T.Underlying().(*types.Slice)
	srt := e.sortOf(sl.Elem())
	h := e.getHeapA(st, srt)
	var srcLen string
	var srcAt func(i string) string
	if isString(s.T) {
		srcLen = "(slen " + s.S + ")"
		srcAt = func(i string) string { return e.byteOfStr(s.S, i, sl.Elem()) }
	} else {
		srcLen = "(s.len " + s.S + ")"
		srcAt = func(i string) string {
			return fmt.Sprintf("(select (select %s (s.arr %s)) (+ (s.off %s) %s))", h, s.S, s.S, i)
		}
	}
	n := e.define("cpn", "Int", fmt.Sprintf("(ite (< (s.len %s) %s) (s.len %s) %s)", d.S, srcLen, d.S, srcLen))
	na := e.freshConst("arr", "(Array Int "+srt+")")
	old := fmt.Sprintf("(select %s (s.arr %s))", h, d.S)
	e.assume("true", fmt.Sprintf("(forall ((i Int)) (! (= (select %s i) (ite (and (<= (s.off %s) i) (< i (+ (s.off %s) %s))) %s (select %s i))) :pattern ((select %s i))))",
		na, d.S, d.S, n, srcAt(fmt.Sprintf("(- i (s.off %s))", d.S)), old, na))
	st.heapA[srt] = e.define("ha", e.heapASort(srt), sIte(sEq(n, "0"), h, fmt.Sprintf("(store %s (s.arr %s) %s)", h, d.S, na)))
	return Val{T: types.Typ[types.Int], S: n}
}

// ---- defers

func (f *Frame) runDefers(st *State) {
	e := f.e
	for i := len(f.defers) - 1; i >= 0; i-- {
		d := f.defers[i]
		cc := d.instr.Common()
		// only unconditional defers (registered on every path reaching here) are supported precisely
		if d.cond != "true" && d.cond != f.entryCond() {
			// conditional defer: run under its condition
			sub := st.clone()
			sub.cond = sAnd(st.cond, d.cond)
			f.deferCall(d, cc, sub)
			// merge back
			other := st.clone()
			other.cond = sAnd(st.cond, sNot(d.cond))
			m := e.mergeStates([]*State{sub, other})
			m.cond = st.cond
			*st = *m
			continue
		}
		f.deferCall(d, cc, st)
	}
}

func (f *Frame) entryCond() string {
	if f.entry != nil {
		return f.entry.cond
	}
	return "true"
}

func (f *Frame) deferCall(d deferEntry, cc *ssa.CallCommon, st *State) {
	// re-dispatch through doCall with the argument values captured at defer time
	saved := map[ssa.Value]Val{}
	for i, a := range cc.Args {
		if v, ok := f.vals[a]; ok {
			saved[a] = v
		}
		if i < len(d.args) {
			f.vals[a] = d.args[i]
		}
	}
	var rt types.Type = types.NewTuple()
	if sig := cc.Signature(); sig != nil && sig.Results().Len() > 0 {
		if sig.Results().Len() == 1 {
			rt = sig.Results().At(0).Type()
		} else {
			rt = sig.Results()
		}
	}
	f.doCall(d.instr, cc, st, rt, d.instr.Pos())
	for a, v := range saved {
		f.vals[a] = v
	}
}

// ---- facts about globals

func (e *Engine) globalFacts(st *State, g *ssa.Global, v Val) {
	info := e.globalInfo(g)
	if info == nil {
		return
	}
	if info.nonNil && v.S != "" {
		switch v.T.Underlying().(type) {
		case *types.Interface:
			if !e.sc.declared["gfact:"+v.S] {
				e.sc.declared["gfact:"+v.S] = true
				e.sc.Line(fmt.Sprintf("(assert (not (= %s iface.nil)))", v.S))
			}
		case *types.Signature:
			if !e.sc.declared["gfact:"+v.S] {
				e.sc.declared["gfact:"+v.S] = true
				e.sc.Line(fmt.Sprintf("(assert (not (= %s func.nil)))", v.S))
			}
		case *types.Pointer:
			if !e.sc.declared["gfact:"+v.S] {
				e.sc.declared["gfact:"+v.S] = true
				e.sc.Line(fmt.Sprintf("(assert (not (= %s 0)))", v.S))
			}
		}
	}
}

type gInfo struct {
	writeOnce   bool
	nonNil      bool
	neverStored bool
}

func (e *Engine) globalInfo(g *ssa.Global) *gInfo {
	if gi, ok := e.ginfo[g]; ok {
		return gi
	}
	gi := &gInfo{}
	e.ginfo[g] = gi
	// stores to the global anywhere in its package
	stores := 0
	var initVal ssa.Value
	if g.Pkg != nil {
		for _, m := range g.Pkg.Members {
			fn, ok := m.(*ssa.Function)
			if !ok {
				continue
			}
			countStores(fn, g, &stores, &initVal, fn.Name() == "init")
		}
		// methods and closures
		for fn := range e.P.AllFuncs {
			if fn.Pkg == g.Pkg && (fn.Signature.Recv() != nil || fn.Parent() != nil) {
				countStores(fn, g, &stores, &initVal, false)
			}
		}
	}
	if stores == 0 && g.Pkg != nil {
		// no store anywhere; also require that the address is only used for loads, field/index addressing and slicing
		gi.neverStored = !globalAddrEscapes(e, g)
	}
	if stores == 1 && initVal != nil {
		gi.writeOnce = true
		switch x := initVal.(type) {
		case *ssa.Call:
			if c := x.Common().StaticCallee(); c != nil {
				switch c.String() {
				case "errors.New", "fmt.Errorf", "sync.OnceFunc":
					gi.nonNil = true
				}
			}
		case *ssa.MakeInterface, *ssa.MakeClosure, *ssa.Function, *ssa.Alloc:
			gi.nonNil = true
		}
	}
	return gi
}

func countStores(fn *ssa.Function, g *ssa.Global, n *int, initVal *ssa.Value, isInit bool) {
	for _, b := range fn.Blocks {
		for _, in := range b.Instrs {
			if s, ok := in.(*ssa.Store); ok && s.Addr == ssa.Value(g) {
				*n++
				if isInit {
					*initVal = s.Val
				} else {
					*n += 10
				}
			}
		}
	}
}

func globalAddrEscapes(e *Engine, g *ssa.Global) bool {
	esc := false
	var visit func(v ssa.Value, refs []ssa.Instruction)
	check := func(fn *ssa.Function) {
		for _, b := range fn.Blocks {
			for _, in := range b.Instrs {
				for _, op := range in.Operands(nil) {
					if *op != ssa.Value(g) {
						continue
					}
					switch x := in.(type) {
					case *ssa.UnOp, *ssa.DebugRef:
					case *ssa.Slice:
						// slices of a global array may be written through; only reads by models are expected
						_ = x
					case *ssa.FieldAddr:
						if r := x.Referrers(); r != nil {
							for _, u := range *r {
								if st, ok := u.(*ssa.Store); ok && st.Addr == ssa.Value(x) {
									esc = true
								}
							}
						}
					case *ssa.IndexAddr:
						if r := x.Referrers(); r != nil {
							for _, u := range *r {
								if st, ok := u.(*ssa.Store); ok && st.Addr == ssa.Value(x) {
									esc = true
								}
							}
						}
					default:
						esc = true
					}
				}
			}
		}
	}
	_ = visit
	for fn := range e.P.AllFuncs {
		if fn.Pkg == g.Pkg || (fn.Parent() != nil && funcPkgPath(fn) == g.Pkg.Pkg.Path()) {
			check(fn)
		}
	}
	return esc
}

// materializePtr: a pointer into the interior of an object (field of a struct, local cell) that must be passed as a value
// gets a fresh address whose pointee is a snapshot of the location's current content. Reads through it see the content at
// this point; writes through it are not reflected back (noted as an abstraction).
func (e *Engine) materializePtr(f *Frame, st *State, v Val) Val {
	if v.S != "" || v.Loc == nil || v.T == nil {
		return v
	}
	p, ok := v.T.Underlying().(*types.Pointer)
	if !ok {
		return v
	}
	if isLockType(p.Elem()) {
		return v
	}
	if v.Loc.Kind == LElem && v.Loc.Idx == "" {
		return v
	}
	id := e.alloc(st)
	srt := e.sortOf(p.Elem())
	st.heapP[srt] = e.define("hp", e.heapPSort(srt), fmt.Sprintf("(store %s %s %s)", e.getHeapP(st, srt), id, e.load(st, v.Loc)))
	e.note("interior pointer passed as a value in %s: the callee works on a copy of the pointee which is copied back after the call (sound when the callee reaches the object only through that pointer)", funcKey(f.fn))
	nv := v
	nv.S = id
	if e.matBack == nil {
		e.matBack = map[string]*Loc{}
	}
	e.matBack[id] = v.Loc
	e.matNew = append(e.matNew, matEntry{id: id, sort: srt, loc: v.Loc})
	return nv
}

type matEntry struct {
	id, sort string
	loc      *Loc
}

// writeBack: copy-in/copy-out for interior pointers handed to a callee with a contract: what the callee left in the
// snapshot object is stored back into the real location (sound when the callee reaches the object only through that pointer).
func (e *Engine) writeBack(st *State, args []Val) {
	for _, a := range args {
		if a.S == "" || e.matBack == nil {
			continue
		}
		l, ok := e.matBack[a.S]
		if !ok {
			continue
		}
		p, ok := a.T.Underlying().(*types.Pointer)
		if !ok {
			continue
		}
		srt := e.sortOf(p.Elem())
		e.store(st, l, fmt.Sprintf("(select %s %s)", e.getHeapP(st, srt), a.S))
	}
}

// funcFieldOf: the function value is loaded from field fld of a struct of type tn.
func funcFieldOf(v ssa.Value) (tn, fld string, ok bool) {
	u, isLoad := v.(*ssa.UnOp)
	if !isLoad || u.Op != token.MUL {
		return "", "", false
	}
	fa, isFA := u.X.(*ssa.FieldAddr)
	if !isFA {
		return "", "", false
	}
	pt := fa.X.Type().Underlying().(*types.Pointer).Elem()
	st := pt.Underlying().(*types.Struct)
	return typeName(pt), st.Field(fa.Field).Name(), true
}

// knownReadOnly: external callees that are known not to write through their arguments (accessors, formatting, parsing).
func knownReadOnly(full string) bool {
	for _, p := range []string{"fmt.", "errors.", "strings.", "strconv.", "unicode", "math.", "time.", "(time.", "(*time.", "bytes.", "os.", "context.", "path.", "net/url.", "(*net/url.", "encoding/binary.", "(*google.golang.org/protobuf", "google.golang.org/protobuf", "(*google.golang.org/grpc", "google.golang.org/grpc", "(*github.com/go-logr", "github.com/go-logr", "(github.com/go-logr", "runtime", "(*go.opentelemetry.io/proto", "go.opentelemetry.io/proto", "(*github.com/prometheus", "github.com/prometheus", "(github.com/prometheus"} {
		if strings.HasPrefix(full, p) {
			return true
		}
	}
	return false
}
