package main

// Contract files: comment-only Go files (//go:build verif) whose "//@" lines carry
// contracts (DESIGN.md 3.2, Appendix C). This file scans them into items.

import (
	"fmt"
	"os"
	"regexp"
	"sort"
	"strconv"
	"strings"
)

type Clause struct {
	Text string
	E    *Expr
	Ord  int // 1-based ordinal among clauses of its kind
	Line int
	Tag  string // known-finding id, case name, ...
	// `assumes <expr>`: a postcondition that callers may use but that is NOT proved of the body (an abstract predicate that
	// only this function establishes, by definition); listed as an assumption
	Assumed bool
}

type LoopSpec struct {
	Invariants []*Clause
	Decreases  *Clause
	Unroll     int
	Modifies   []string
}

type SiteClause struct {
	Kind   string // "assert","witness","ghost"
	Site   string // e.g. "call strings.Cut#1", "store front#*"
	Clause *Clause
	Var    string // ghost@: variable
}

type KnownClause struct {
	ID    string
	Class *Clause
}

type Contract struct {
	Pkg         string
	Key         string // Recv.Name / Name / Outer$1
	Header      string
	File        string
	Line        int
	ResultNames []string
	ParamNames  []string
	Requires    []*Clause
	Ensures     []*Clause
	Modifies    []string
	HasModifies bool
	Pure        bool
	Trusted     bool
	TrustedWhy  string
	Mode        string
	Loops       map[int]*LoopSpec
	Sites       []SiteClause
	Holds       []string
	Acquires    []string
	Releases    []string
	Instances   []string
	// split v lo .. hi: the function is verified once per integer value of parameter v (complete: an obligation says that
	// the precondition confines v to lo..hi)
	SplitVar       string
	SplitLo, SplitHi int
	Known       []KnownClause
	OverflowOK  bool // "overflow assumed": machine arithmetic treated as mathematical in this function (listed)
	NoInline    bool
	Inline      bool
	Lemmas      []string // use lemma ...
	Locals      map[string]string
	Ghosts      []string
	Props       []string
	SkipFrame   string
	SkipPanics  string // "unchecked no-panic <reason>": run-time panic obligations of this function are assumed, not proved (listed)
}

type SpecParam struct{ Name, Type string }

type SpecFn struct {
	Name   string
	Params []SpecParam
	Ret    string
	Body   *Expr // nil = uninterpreted
	Pkg    string
	Line   int
}

type Lemma struct {
	KnownID string // canary: a statement expected to be REFUTED while the known finding KnownID exists
	Name    string
	E       *Expr
	Assumed bool // axiom
	Pkg     string
	Line    int
	Text    string
	Hints   []string // e.g. "induction" (-> cvc5 --quant-ind)
}

type TypeInv struct {
	Type string
	E    *Expr
	Pkg  string
}

type GuardedBy struct {
	Type   string // receiver struct type name
	Lock   string // field path of the lock, e.g. "mu"
	Fields []string
}

type LockInv struct {
	Type string
	Lock string
	E    *Expr
	Text string
	// lockrely only: the functions that make up the one owner thread (exempt from the guarantee, may assume the rely)
	Owners []string
}

type InterfaceContract struct {
	Iface  string // I.M  (possibly pkg-qualified: trace.Span.End)
	Header string
	C      *Contract
}

type ContractFile struct {
	Pkg        string
	Path       string
	Funcs      map[string]*Contract
	FuncOrder  []string
	Specs      map[string]*SpecFn
	Lemmas     []*Lemma
	TypeInvs   map[string]*TypeInv
	Guarded    []*GuardedBy
	LockInvs   []*LockInv
	LockRelys  []*LockInv
	LockLevels [][2]string
	Ifaces     map[string]*InterfaceContract
	FuncFields map[string][]string  // "Type.field" -> lock classes any function stored in the field may acquire
	Externs    map[string]*Contract // "pkgpath::Key" -> contract for a function outside the repository
	GhostVars  map[string]string // name -> type text
	Consts     map[string]string
	Hash       string
	Props      []string
}

var itemKeywords = map[string]bool{"spec": true, "lemma": true, "axiom": true, "typeinv": true, "interface": true,
	"ghost": true, "guarded_by": true, "lockinv": true, "lockrely": true, "locklevel": true, "func": true, "const": true, "props": true, "extern": true, "canary": true, "funcfield": true}

var clauseKeywords = map[string]bool{"mode": true, "instances": true, "requires": true, "ensures": true, "assumes": true, "modifies": true,
	"pure": true, "trusted": true, "holds": true, "acquires": true, "releases": true, "decreases": true, "case": true, "use": true,
	"local": true, "split": true, "overflow": true, "known": true, "noinline": true, "inline": true, "hint": true, "prop": true, "unchecked": true}

func firstWord(s string) string {
	s = strings.TrimSpace(s)
	for i, c := range s {
		if c == ' ' || c == '\t' || c == '(' || c == ':' {
			return s[:i]
		}
	}
	return s
}

func isClauseStart(w string) bool {
	if clauseKeywords[w] {
		return true
	}
	return strings.HasPrefix(w, "loop#") || strings.HasPrefix(w, "assert@") || strings.HasPrefix(w, "witness@") || strings.HasPrefix(w, "ghost@") || strings.HasPrefix(w, "canary@")
}

type rawLine struct {
	text string
	line int
}

// ParseContractFile reads the //@ lines of one file.
func ParseContractFile(path string, pkg string) (*ContractFile, error) {
	data, err := os.ReadFile(path)
	if err != nil {
		return nil, err
	}
	return ParseContractText(string(data), path, pkg)
}

func ParseContractText(data, path, pkg string) (*ContractFile, error) {
	cf := &ContractFile{Pkg: pkg, Path: path, Funcs: map[string]*Contract{}, Specs: map[string]*SpecFn{},
		TypeInvs: map[string]*TypeInv{}, Ifaces: map[string]*InterfaceContract{}, GhostVars: map[string]string{}, Consts: map[string]string{}, Externs: map[string]*Contract{}, FuncFields: map[string][]string{}}
	// collect logical lines: a //@ line starting with an item or clause keyword starts a new logical line,
	// anything else continues the previous one.
	var logical []rawLine
	for i, ln := range strings.Split(data, "\n") {
		t := strings.TrimSpace(ln)
		if !strings.HasPrefix(t, "//@") {
			continue
		}
		body := strings.TrimPrefix(t, "//@")
		if idx := strings.Index(body, " // "); idx >= 0 { // trailing comment
			body = body[:idx]
		}
		if strings.TrimSpace(body) == "" {
			continue
		}
		w := firstWord(body)
		if strings.HasPrefix(w, "@") {
			logical = append(logical, rawLine{strings.TrimSpace(body), i + 1})
			continue
		}
		if itemKeywords[w] || isClauseStart(w) {
			logical = append(logical, rawLine{strings.TrimSpace(body), i + 1})
		} else {
			if len(logical) == 0 {
				return nil, fmt.Errorf("%s:%d: continuation line without a clause", path, i+1)
			}
			logical[len(logical)-1].text += " " + strings.TrimSpace(body)
		}
	}
	var cur *Contract
	for _, rl := range logical {
		w := firstWord(rl.text)
		rest := strings.TrimSpace(strings.TrimPrefix(rl.text, w))
		fail := func(f string, a ...any) error {
			return fmt.Errorf("%s:%d: %s", path, rl.line, fmt.Sprintf(f, a...))
		}
		if itemKeywords[w] && !(w == "ghost" && strings.HasPrefix(rl.text, "ghost@")) {
			if w != "func" && w != "interface" && w != "extern" {
				cur = nil
			}
			switch w {
			case "spec":
				sf, err := parseSpecFn(rest)
				if err != nil {
					return nil, fail("%v", err)
				}
				sf.Pkg, sf.Line = pkg, rl.line
				cf.Specs[sf.Name] = sf
			case "props":
				cf.Props = strings.Fields(rest)
			case "const":
				parts := strings.SplitN(rest, "=", 2)
				if len(parts) != 2 {
					return nil, fail("const needs name = value")
				}
				cf.Consts[strings.TrimSpace(parts[0])] = strings.TrimSpace(parts[1])
			case "funcfield":
				// funcfield T.f acquires L1, L2 : every function stored in field f of T may acquire (only) these lock classes
				f := strings.Fields(strings.ReplaceAll(rest, ",", " "))
				if len(f) < 2 || f[1] != "acquires" {
					return nil, fail("funcfield T.f acquires <lock classes>")
				}
				cf.FuncFields[f[0]] = f[2:]
			case "canary":
				// canary <known-finding id> <name> [hints]: <statement that is false because of the finding>
				idx := strings.Index(rest, ":")
				if idx < 0 {
					return nil, fail("canary <id> <name>: expr")
				}
				f := strings.Fields(rest[:idx])
				if len(f) < 2 {
					return nil, fail("canary <id> <name>: expr")
				}
				e, err := parseExpr(rest[idx+1:])
				if err != nil {
					return nil, fail("%v", err)
				}
				cf.Lemmas = append(cf.Lemmas, &Lemma{KnownID: f[0], Name: f[1], Hints: f[2:], E: e, Pkg: pkg, Line: rl.line, Text: strings.TrimSpace(rest[idx+1:])})
			case "lemma", "axiom":
				idx := strings.Index(rest, ":")
				if idx < 0 {
					return nil, fail("lemma needs name: expr")
				}
				name := strings.TrimSpace(rest[:idx])
				var hints []string
				if f := strings.Fields(name); len(f) > 1 {
					name = f[0]
					hints = f[1:]
				}
				e, err := parseExpr(rest[idx+1:])
				if err != nil {
					return nil, fail("%v", err)
				}
				cf.Lemmas = append(cf.Lemmas, &Lemma{Name: name, E: e, Assumed: w == "axiom", Pkg: pkg, Line: rl.line, Text: strings.TrimSpace(rest[idx+1:]), Hints: hints})
			case "typeinv":
				parts := strings.SplitN(rest, "=", 2)
				if len(parts) != 2 {
					return nil, fail("typeinv needs T = expr")
				}
				e, err := parseExpr(parts[1])
				if err != nil {
					return nil, fail("%v", err)
				}
				tn := strings.TrimSpace(parts[0])
				cf.TypeInvs[tn] = &TypeInv{Type: tn, E: e, Pkg: pkg}
			case "ghost":
				f := strings.Fields(rest)
				if len(f) < 3 || f[0] != "var" {
					return nil, fail("ghost var name type")
				}
				cf.GhostVars[f[1]] = strings.Join(f[2:], " ")
			case "guarded_by":
				// guarded_by T.mu: f1, f2
				idx := strings.Index(rest, ":")
				if idx < 0 {
					return nil, fail("guarded_by T.lock: fields")
				}
				tl := strings.TrimSpace(rest[:idx])
				dot := strings.Index(tl, ".")
				if dot < 0 {
					return nil, fail("guarded_by needs T.lock")
				}
				g := &GuardedBy{Type: tl[:dot], Lock: tl[dot+1:]}
				for _, f := range strings.Split(rest[idx+1:], ",") {
					if f = strings.TrimSpace(f); f != "" {
						g.Fields = append(g.Fields, f)
					}
				}
				cf.Guarded = append(cf.Guarded, g)
			case "lockinv":
				idx := strings.Index(rest, ":")
				if idx < 0 {
					return nil, fail("lockinv T.lock: expr")
				}
				tl := strings.TrimSpace(rest[:idx])
				dot := strings.Index(tl, ".")
				if dot < 0 {
					return nil, fail("lockinv needs T.lock")
				}
				e, err := parseExpr(rest[idx+1:])
				if err != nil {
					return nil, fail("%v", err)
				}
				cf.LockInvs = append(cf.LockInvs, &LockInv{Type: tl[:dot], Lock: tl[dot+1:], E: e, Text: strings.TrimSpace(rest[idx+1:])})
			case "lockrely":
				// lockrely T.lock owner F1, F2: R   -- R is a two-state relation (old(...) = state at the earlier point) that every
				// critical section of a NON-owner function satisfies between its Lock and Unlock (checked); owner functions, which
				// together form one thread, may assume R between one of their critical sections and the next
				idx := strings.Index(rest, ":")
				if idx < 0 {
					return nil, fail("lockrely T.lock owner F1, F2: expr")
				}
				head := strings.Fields(strings.ReplaceAll(rest[:idx], ",", " "))
				if len(head) < 3 || head[1] != "owner" || !strings.Contains(head[0], ".") {
					return nil, fail("lockrely T.lock owner F1, F2: expr")
				}
				dot := strings.Index(head[0], ".")
				e, err := parseExpr(rest[idx+1:])
				if err != nil {
					return nil, fail("%v", err)
				}
				cf.LockRelys = append(cf.LockRelys, &LockInv{Type: head[0][:dot], Lock: head[0][dot+1:], E: e, Text: strings.TrimSpace(rest[idx+1:]), Owners: head[2:]})
			case "locklevel":
				parts := strings.Split(rest, "<")
				for i := 0; i+1 < len(parts); i++ {
					cf.LockLevels = append(cf.LockLevels, [2]string{strings.TrimSpace(parts[i]), strings.TrimSpace(parts[i+1])})
				}
			case "func":
				c, err := parseFuncHeader(rest)
				if err != nil {
					return nil, fail("%v", err)
				}
				c.Pkg, c.File, c.Line = pkg, path, rl.line
				if _, dup := cf.Funcs[c.Key]; dup {
					return nil, fail("duplicate contract for %s", c.Key)
				}
				cf.Funcs[c.Key] = c
				cf.FuncOrder = append(cf.FuncOrder, c.Key)
				cur = c
			case "extern":
				// extern <package path> <Recv.Name | Name>(params) (results)
				f := strings.SplitN(rest, " ", 2)
				if len(f) != 2 {
					return nil, fail("extern <package path> <function header>")
				}
				c, err := parseFuncHeader(strings.TrimSpace(f[1]))
				if err != nil {
					return nil, fail("%v", err)
				}
				c.Pkg, c.File, c.Line = f[0], path, rl.line
				c.Props = []string{"-"}
				cf.Externs[f[0]+"::"+c.Key] = c
				cur = c
			case "interface":
				// interface I.M(params) (results)
				c, err := parseFuncHeader(rest)
				if err != nil {
					return nil, fail("%v", err)
				}
				c.Pkg, c.File, c.Line = pkg, path, rl.line
				cf.Ifaces[c.Key] = &InterfaceContract{Iface: c.Key, Header: rest, C: c}
				cur = c
			}
			continue
		}
		if cur == nil {
			return nil, fail("clause %q outside a func item", w)
		}
		instFilter := ""
		if strings.HasPrefix(w, "@") && !strings.Contains(w, "@@") {
			// "@int64 ensures ..." : the clause applies only to the generic instance int64
			instFilter = strings.TrimPrefix(w, "@")
			rl.text = strings.TrimSpace(strings.TrimPrefix(rl.text, w))
			w = firstWord(rl.text)
			rest = strings.TrimSpace(strings.TrimPrefix(rl.text, w))
		}
		mk := func(text string, ord int) (*Clause, error) {
			e, err := parseExpr(text)
			if err != nil {
				return nil, fail("%v", err)
			}
			return &Clause{Text: strings.TrimSpace(text), E: e, Ord: ord, Line: rl.line, Tag: instFilter}, nil
		}
		switch {
		case w == "requires":
			cl, err := mk(rest, len(cur.Requires)+1)
			if err != nil {
				return nil, err
			}
			cur.Requires = append(cur.Requires, cl)
		case w == "ensures" || w == "assumes":
			cl, err := mk(rest, len(cur.Ensures)+1)
			if err != nil {
				return nil, err
			}
			cl.Assumed = w == "assumes"
			cur.Ensures = append(cur.Ensures, cl)
		case w == "modifies":
			cur.HasModifies = true
			for _, m := range splitTop(rest, ',') {
				if m = strings.TrimSpace(m); m != "" && m != "nothing" {
					cur.Modifies = append(cur.Modifies, m)
				}
			}
		case w == "prop":
			cur.Props = append(cur.Props, strings.Fields(rest)...)
		case w == "unchecked":
			f := strings.SplitN(rest, " ", 2)
			reason := "no reason given"
			if len(f) == 2 {
				reason = strings.TrimSpace(f[1])
			}
			for _, k := range strings.Split(f[0], ",") {
				switch k {
				case "no-panic":
					cur.SkipPanics = reason
				case "frame":
					cur.SkipFrame = reason
				default:
					return nil, fail("unchecked: unknown obligation kind %q (no-panic, frame)", k)
				}
			}
		case w == "pure":
			cur.Pure = true
		case w == "trusted":
			cur.Trusted = true
			cur.TrustedWhy = strings.Trim(rest, "\" ")
		case w == "mode":
			cur.Mode = rest
		case w == "instances":
			for _, m := range splitTop(rest, ';') {
				if m = strings.TrimSpace(m); m != "" {
					cur.Instances = append(cur.Instances, m)
				}
			}
		case w == "holds":
			cur.Holds = append(cur.Holds, strings.Fields(strings.ReplaceAll(rest, ",", " "))...)
		case w == "acquires":
			cur.Acquires = append(cur.Acquires, strings.Fields(strings.ReplaceAll(rest, ",", " "))...)
		case w == "releases":
			cur.Releases = append(cur.Releases, strings.Fields(strings.ReplaceAll(rest, ",", " "))...)
		case w == "split":
			f := strings.Fields(rest)
			if len(f) != 4 || f[2] != ".." {
				return nil, fail("split <parameter> <lo> .. <hi>")
			}
			lo, err1 := strconv.Atoi(f[1])
			hi, err2 := strconv.Atoi(f[3])
			if err1 != nil || err2 != nil || hi < lo || hi-lo > 64 {
				return nil, fail("split <parameter> <lo> .. <hi> with at most 65 integer values")
			}
			cur.SplitVar, cur.SplitLo, cur.SplitHi = f[0], lo, hi
		case w == "overflow":
			cur.OverflowOK = true
		case w == "noinline":
			cur.NoInline = true
		case w == "inline":
			cur.Inline = true
		case w == "use":
			cur.Lemmas = append(cur.Lemmas, strings.TrimSpace(strings.TrimPrefix(rest, "lemma")))
		case w == "local":
			f := strings.Fields(rest)
			if len(f) >= 2 {
				if cur.Locals == nil {
					cur.Locals = map[string]string{}
				}
				cur.Locals[f[0]] = strings.Join(f[1:], " ")
			}
		case w == "known":
			// known <ID> when <class predicate>
			f := strings.SplitN(rest, " when ", 2)
			if len(f) != 2 {
				return nil, fail("known <id> when <predicate>")
			}
			cl, err := mk(f[1], len(cur.Known)+1)
			if err != nil {
				return nil, err
			}
			cur.Known = append(cur.Known, KnownClause{ID: strings.TrimSpace(f[0]), Class: cl})
		case w == "decreases":
			// function-level decreases (recursion) - recorded but unused
		case strings.HasPrefix(w, "loop#"):
			k, err := strconv.Atoi(strings.TrimPrefix(w, "loop#"))
			if err != nil {
				return nil, fail("bad loop ordinal %q", w)
			}
			if cur.Loops == nil {
				cur.Loops = map[int]*LoopSpec{}
			}
			ls := cur.Loops[k]
			if ls == nil {
				ls = &LoopSpec{}
				cur.Loops[k] = ls
			}
			w2 := firstWord(rest)
			rest2 := strings.TrimSpace(strings.TrimPrefix(rest, w2))
			switch w2 {
			case "invariant":
				cl, err := mk(rest2, len(ls.Invariants)+1)
				if err != nil {
					return nil, err
				}
				ls.Invariants = append(ls.Invariants, cl)
			case "decreases":
				cl, err := mk(rest2, 1)
				if err != nil {
					return nil, err
				}
				ls.Decreases = cl
			case "unroll":
				n, err := strconv.Atoi(rest2)
				if err != nil {
					return nil, fail("bad unroll bound")
				}
				ls.Unroll = n
			case "modifies":
				for _, m := range splitTop(rest2, ',') {
					if m = strings.TrimSpace(m); m != "" {
						ls.Modifies = append(ls.Modifies, m)
					}
				}
			default:
				return nil, fail("unknown loop clause %q", w2)
			}
		case strings.HasPrefix(w, "canary@"):
			// canary@<site> <known-finding id> : expr   -- expected to be refuted while the finding exists
			all := strings.TrimSpace(rl.text[len("canary@"):])
			idx := strings.Index(all, ":")
			if idx < 0 {
				return nil, fail("canary@<site> <id> : expr")
			}
			head := strings.Fields(all[:idx])
			if len(head) < 2 {
				return nil, fail("canary@<site> <id> : expr")
			}
			cl, err := mk(all[idx+1:], len(cur.Sites)+1)
			if err != nil {
				return nil, err
			}
			cur.Sites = append(cur.Sites, SiteClause{Kind: "canary", Site: strings.Join(head[:len(head)-1], " "), Var: head[len(head)-1], Clause: cl})
		case strings.HasPrefix(w, "assert@") || strings.HasPrefix(w, "witness@") || strings.HasPrefix(w, "ghost@"):
			kind := w[:strings.Index(w, "@")]
			// site is the text after '@' up to ':' ; clause after ':'
			all := strings.TrimSpace(rl.text[len(kind)+1:])
			idx := strings.Index(all, ":")
			if idx < 0 {
				return nil, fail("%s@<site> : expr", kind)
			}
			site := strings.TrimSpace(all[:idx])
			body := all[idx+1:]
			sc := SiteClause{Kind: kind, Site: site}
			if kind == "ghost" {
				parts := strings.SplitN(body, "=", 2)
				if len(parts) != 2 {
					return nil, fail("ghost@site : var = expr")
				}
				sc.Var = strings.TrimSpace(parts[0])
				body = parts[1]
			}
			cl, err := mk(body, len(cur.Sites)+1)
			if err != nil {
				return nil, err
			}
			sc.Clause = cl
			cur.Sites = append(cur.Sites, sc)
		case w == "case", w == "hint":
			// reserved
		default:
			return nil, fail("unknown clause %q", w)
		}
	}
	cf.Hash = fmt.Sprintf("%x", fnv64(data))
	sort.Strings(cf.FuncOrder)
	return cf, nil
}

func fnv64(s string) uint64 {
	h := uint64(14695981039346656037)
	for i := 0; i < len(s); i++ {
		h ^= uint64(s[i])
		h *= 1099511628211
	}
	return h
}

// splitTop splits on sep at bracket depth 0.
func splitTop(s string, sep byte) []string {
	var out []string
	depth := 0
	start := 0
	for i := 0; i < len(s); i++ {
		switch s[i] {
		case '(', '[', '{':
			depth++
		case ')', ']', '}':
			depth--
		default:
			if s[i] == sep && depth == 0 {
				out = append(out, s[start:i])
				start = i + 1
			}
		}
	}
	out = append(out, s[start:])
	return out
}

var reSpecHead = regexp.MustCompile(`^([A-Za-z_][A-Za-z0-9_]*)\s*\(`)

// parseSpecFn: name(params) ret [= body]
func parseSpecFn(s string) (*SpecFn, error) {
	m := reSpecHead.FindStringSubmatch(s)
	if m == nil {
		return nil, fmt.Errorf("spec needs name(params) type [= expr]")
	}
	sf := &SpecFn{Name: m[1]}
	i := len(m[0])
	depth := 1
	j := i
	for j < len(s) && depth > 0 {
		if s[j] == '(' {
			depth++
		} else if s[j] == ')' {
			depth--
		}
		j++
	}
	params := s[i : j-1]
	for _, p := range splitTop(params, ',') {
		p = strings.TrimSpace(p)
		if p == "" {
			continue
		}
		f := strings.Fields(p)
		if len(f) < 2 {
			return nil, fmt.Errorf("spec parameter %q needs a type", p)
		}
		sf.Params = append(sf.Params, SpecParam{Name: f[0], Type: strings.Join(f[1:], " ")})
	}
	rest := strings.TrimSpace(s[j:])
	if idx := strings.Index(rest, "="); idx >= 0 && !strings.HasPrefix(rest[idx:], "==") {
		sf.Ret = strings.TrimSpace(rest[:idx])
		e, err := parseExpr(rest[idx+1:])
		if err != nil {
			return nil, err
		}
		sf.Body = e
	} else {
		sf.Ret = rest
	}
	if sf.Ret == "" {
		return nil, fmt.Errorf("spec %s needs a result type", sf.Name)
	}
	return sf, nil
}

// parseFuncHeader: [(recv T)] Name[$k]([params]) [(results) | type]
func parseFuncHeader(s string) (*Contract, error) {
	c := &Contract{Header: "func " + s}
	s = strings.TrimSpace(s)
	recv := ""
	if strings.HasPrefix(s, "(") {
		end := matchParen(s, 0)
		if end < 0 {
			return nil, fmt.Errorf("unbalanced receiver")
		}
		r := strings.Fields(s[1:end])
		if len(r) == 0 {
			return nil, fmt.Errorf("empty receiver")
		}
		recv = strings.TrimPrefix(r[len(r)-1], "*")
		if i := strings.Index(recv, "["); i >= 0 {
			recv = recv[:i]
		}
		s = strings.TrimSpace(s[end+1:])
	}
	i := strings.Index(s, "(")
	if i < 0 {
		// header without parameter list: "func Name" or "func T.Name"
		name := strings.TrimSpace(s)
		if recv != "" {
			c.Key = recv + "." + name
		} else {
			c.Key = name
		}
		return c, nil
	}
	name := strings.TrimSpace(s[:i])
	if j := strings.Index(name, "["); j >= 0 {
		name = name[:j]
	}
	if recv != "" {
		c.Key = recv + "." + name
	} else {
		c.Key = name
	}
	end := matchParen(s, i)
	if end < 0 {
		return nil, fmt.Errorf("unbalanced parameter list")
	}
	for _, p := range splitTop(s[i+1:end], ',') {
		f := strings.Fields(strings.TrimSpace(p))
		if len(f) >= 1 {
			c.ParamNames = append(c.ParamNames, f[0])
		}
	}
	rest := strings.TrimSpace(s[end+1:])
	if strings.HasPrefix(rest, "(") {
		e2 := matchParen(rest, 0)
		if e2 < 0 {
			return nil, fmt.Errorf("unbalanced result list")
		}
		for _, p := range splitTop(rest[1:e2], ',') {
			f := strings.Fields(strings.TrimSpace(p))
			if len(f) >= 2 {
				c.ResultNames = append(c.ResultNames, f[0])
			} else {
				c.ResultNames = append(c.ResultNames, "")
			}
		}
	} else if rest != "" {
		c.ResultNames = []string{""}
	}
	return c, nil
}

func matchParen(s string, i int) int {
	depth := 0
	for j := i; j < len(s); j++ {
		switch s[j] {
		case '(':
			depth++
		case ')':
			depth--
			if depth == 0 {
				return j
			}
		}
	}
	return -1
}
