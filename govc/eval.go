package main

// Evaluation of specification expressions to SMT terms in a symbolic state.

import (
	"go/ast"
	"fmt"
	"go/constant"
	"go/token"
	"go/types"
	"strings"

	"golang.org/x/tools/go/ssa"
)

type EvalCtx struct {
	f      *Frame
	st     *State
	old    *State
	binds  map[string]Val
	loop   *Loop
	loopK  string
	at     *ssa.BasicBlock
	pkg    *types.Package
	cf     *ContractFile
	depth  int
	results []Val
	resNames []string
	paramVals map[string]Val // explicit parameter bindings (callee contracts at call sites)
	noLocals bool
	onlyParams bool
	inOld      bool // inside old(...): parameter names denote their values at entry
	fnForTypes *ssa.Function
	siteLoop *Loop // innermost loop around a site assertion (for $k only)
}

func (f *Frame) evalCtx(st *State, l *Loop) *EvalCtx {
	e := f.e
	ctx := &EvalCtx{f: f, st: st, old: e.entryState(f), binds: map[string]Val{}, loop: l}
	if l != nil {
		ctx.at = l.Header
	}
	ctx.pkg = funcTypesPkg(f.fn)
	ctx.cf = e.P.Contracts[funcPkgPath(f.fn)]
	return ctx
}

func funcTypesPkg(fn *ssa.Function) *types.Package {
	if fn.Pkg != nil {
		return fn.Pkg.Pkg
	}
	if o := fn.Origin(); o != nil && o.Pkg != nil {
		return o.Pkg.Pkg
	}
	if fn.Parent() != nil {
		return funcTypesPkg(fn.Parent())
	}
	return nil
}

func (e *Engine) entryState(f *Frame) *State {
	for f.parent != nil && f.entry == nil {
		f = f.parent
	}
	return f.entry
}

func (c *EvalCtx) with(name string, v Val) *EvalCtx {
	n := *c
	n.binds = cloneMap(c.binds)
	n.binds[name] = v
	return &n
}

func (e *Engine) bindError(where string, err error) {
	e.errs = append(e.errs, where+": "+err.Error())
}

func (e *Engine) evalBool(ctx *EvalCtx, x *Expr) (string, error) {
	v, err := e.eval(ctx, x)
	if err != nil {
		return "", err
	}
	if e.valSort(v) != "Bool" {
		return "", fmt.Errorf("expression %s is not boolean (sort %s)", x.String(), e.valSort(v))
	}
	return v.S, nil
}

func (e *Engine) valSort(v Val) string {
	if v.T != nil {
		return e.sortOf(v.T)
	}
	return v.Sort
}

func intVal(s string) Val  { return Val{S: s, Sort: "Int"} }
func boolVal(s string) Val { return Val{S: s, Sort: "Bool"} }

// coerceInts makes two integer operands agree (untyped literals adapt to bit-vector operands).
func (e *Engine) coerceInts(a, b Val) (Val, Val) {
	sa, sb := e.valSort(a), e.valSort(b)
	if sa == sb {
		return a, b
	}
	if strings.HasPrefix(sa, "(_ BitVec") && sb == "Int" {
		if n, ok := litInt(b.S); ok {
			return a, Val{T: a.T, Sort: sa, S: bvLit(n, bvWidth(sa))}
		}
	}
	if strings.HasPrefix(sb, "(_ BitVec") && sa == "Int" {
		if n, ok := litInt(a.S); ok {
			return Val{T: b.T, Sort: sb, S: bvLit(n, bvWidth(sb))}, b
		}
	}
	if sa == fp64 && sb == "Int" {
		if n, ok := litInt(b.S); ok {
			return a, Val{T: a.T, Sort: sa, S: fpFromDec(n)}
		}
	}
	if sb == fp64 && sa == "Int" {
		if n, ok := litInt(a.S); ok {
			return Val{T: b.T, Sort: sb, S: fpFromDec(n)}, b
		}
	}
	return a, b
}

func fpFromDec(n string) string {
	if strings.HasPrefix(n, "-") {
		return fmt.Sprintf("((_ to_fp 11 53) RNE (- %s.0))", n[1:])
	}
	return fmt.Sprintf("((_ to_fp 11 53) RNE %s.0)", n)
}

func litInt(s string) (string, bool) {
	if strings.HasPrefix(s, "(- ") && strings.HasSuffix(s, ")") {
		inner := s[3 : len(s)-1]
		if _, ok := constIntString(inner); ok {
			return "-" + inner, true
		}
		if allDigits(inner) {
			return "-" + inner, true
		}
	}
	if allDigits(s) {
		return s, true
	}
	return "", false
}

func allDigits(s string) bool {
	if s == "" {
		return false
	}
	for _, c := range s {
		if c < '0' || c > '9' {
			return false
		}
	}
	return true
}

func bvWidth(sort string) int {
	var w int
	fmt.Sscanf(sort, "(_ BitVec %d)", &w)
	return w
}

func (e *Engine) eval(ctx *EvalCtx, x *Expr) (Val, error) {
	if ctx.depth > 60 {
		return Val{}, fmt.Errorf("specification recursion too deep at %s", x.String())
	}
	switch x.Op {
	case "lit":
		switch x.Kind {
		case "int":
			n := x.Lit
			if strings.HasPrefix(n, "0x") || strings.HasPrefix(n, "0X") {
				var v uint64
				fmt.Sscanf(n[2:], "%x", &v)
				n = fmt.Sprintf("%d", v)
			}
			return Val{S: n, Sort: "Int", Untyped: true}, nil
		case "float":
			var fl float64
			fmt.Sscanf(x.Lit, "%g", &fl)
			return Val{S: fpLit(fl, false), Sort: fp64, T: types.Typ[types.Float64]}, nil
		case "bool":
			return boolVal(x.Lit), nil
		case "string":
			return Val{S: e.strLit(x.Lit), T: types.Typ[types.String]}, nil
		case "nil":
			return Val{S: "nil", Sort: "Nil"}, nil
		}
	case "ident":
		return e.evalIdent(ctx, x.Name)
	case "old":
		n := *ctx
		if ctx.old != nil {
			n.st = ctx.old
		}
		n.inOld = true
		return e.eval(&n, x.Args[0])
	case "ite":
		c, err := e.evalBool(ctx, x.Args[0])
		if err != nil {
			return Val{}, err
		}
		a, err := e.eval(ctx, x.Args[1])
		if err != nil {
			return Val{}, err
		}
		b, err := e.eval(ctx, x.Args[2])
		if err != nil {
			return Val{}, err
		}
		a, b = e.coerceInts(a, b)
		a, b = e.coerceNil(a, b)
		r := a
		r.S = sIte(c, a.S, b.S)
		r.Untyped = false
		if r.T == nil {
			r.T = b.T
		}
		return r, nil
	case "un":
		a, err := e.eval(ctx, x.Args[0])
		if err != nil {
			return Val{}, err
		}
		switch x.Name {
		case "*":
			if a.T != nil {
				if p, ok := a.T.Underlying().(*types.Pointer); ok {
					if pt, ok := e.ptrTerm(a); ok {
						return Val{T: p.Elem(), S: fmt.Sprintf("(select %s %s)", e.getHeapP(ctx.st, e.sortOf(p.Elem())), pt)}, nil
					}
					if a.Loc != nil {
						return Val{T: p.Elem(), S: e.load(ctx.st, a.Loc)}, nil
					}
				}
			}
			return Val{}, fmt.Errorf("cannot dereference %s", x.Args[0].String())
		case "!":
			return boolVal(sNot(a.S)), nil
		case "-":
			srt := e.valSort(a)
			if strings.HasPrefix(srt, "(_ BitVec") {
				return Val{T: a.T, Sort: srt, S: "(bvneg " + a.S + ")"}, nil
			}
			if srt == fp64 || srt == fp32 {
				return Val{T: a.T, Sort: srt, S: "(fp.neg " + a.S + ")"}, nil
			}
			if n, ok := litInt(a.S); ok && !strings.HasPrefix(n, "-") {
				return Val{S: "(- " + n + ")", Sort: "Int", Untyped: a.Untyped}, nil
			}
			return Val{T: a.T, Sort: "Int", S: "(- " + a.S + ")"}, nil
		case "^":
			srt := e.valSort(a)
			if strings.HasPrefix(srt, "(_ BitVec") {
				return Val{T: a.T, Sort: srt, S: "(bvnot " + a.S + ")"}, nil
			}
		}
		return Val{}, fmt.Errorf("unsupported unary %s", x.Name)
	case "bin":
		return e.evalBin(ctx, x)
	case "sel":
		// package-qualified constant / var?
		if id := x.Args[0]; id.Op == "ident" {
			if _, bound := ctx.binds[id.Name]; !bound && ctx.pkg != nil {
				if v, ok, err := e.evalQualified(ctx, id.Name, x.Name); ok {
					return v, err
				}
			}
		}
		a, err := e.eval(ctx, x.Args[0])
		if err != nil {
			return Val{}, err
		}
		return e.evalSelect(ctx, a, x.Name)
	case "index":
		a, err := e.eval(ctx, x.Args[0])
		if err != nil {
			return Val{}, err
		}
		i, err := e.eval(ctx, x.Args[1])
		if err != nil {
			return Val{}, err
		}
		return e.evalIndex(ctx, a, i)
	case "slice":
		a, err := e.eval(ctx, x.Args[0])
		if err != nil {
			return Val{}, err
		}
		var lo, hi string
		if x.Args[1] != nil {
			v, err := e.eval(ctx, x.Args[1])
			if err != nil {
				return Val{}, err
			}
			lo = v.S
		} else {
			lo = "0"
		}
		if a.T != nil && isString(a.T) {
			if x.Args[2] != nil {
				v, err := e.eval(ctx, x.Args[2])
				if err != nil {
					return Val{}, err
				}
				hi = v.S
			} else {
				hi = "(slen " + a.S + ")"
			}
			return Val{T: a.T, S: fmt.Sprintf("(ssub %s %s %s)", a.S, lo, hi)}, nil
		}
		if a.T != nil {
			if _, ok := a.T.Underlying().(*types.Slice); ok {
				if x.Args[2] != nil {
					v, err := e.eval(ctx, x.Args[2])
					if err != nil {
						return Val{}, err
					}
					hi = v.S
				} else {
					hi = "(s.len " + a.S + ")"
				}
				return Val{T: a.T, S: fmt.Sprintf("(mk-slice (s.arr %s) (+ (s.off %s) %s) (- %s %s) (- (s.cap %s) %s))", a.S, a.S, lo, hi, lo, a.S, lo)}, nil
			}
		}
		return Val{}, fmt.Errorf("cannot slice %s", x.Args[0].String())
	case "forall", "exists":
		return e.evalQuant(ctx, x)
	case "call":
		return e.evalCall(ctx, x)
	case "complit":
		return e.evalCompLit(ctx, x)
	}
	return Val{}, fmt.Errorf("unsupported expression %s", x.String())
}

func (e *Engine) coerceNil(a, b Val) (Val, Val) {
	if a.Sort == "Nil" && b.Sort != "Nil" {
		if b.T != nil {
			return Val{T: b.T, S: e.zero(b.T)}, b
		}
	}
	if b.Sort == "Nil" && a.Sort != "Nil" {
		if a.T != nil {
			return a, Val{T: a.T, S: e.zero(a.T)}
		}
	}
	return a, b
}

func (e *Engine) evalQuant(ctx *EvalCtx, x *Expr) (Val, error) {
	q := x.Op
	bv := e.fresh("q." + x.Var)
	if x.VarT == "" {
		lo, err := e.eval(ctx, x.Args[0])
		if err != nil {
			return Val{}, err
		}
		hi, err := e.eval(ctx, x.Args[1])
		if err != nil {
			return Val{}, err
		}
		c2 := ctx.with(x.Var, Val{S: bv, Sort: "Int", T: types.Typ[types.Int]})
		if e.mode == "bv" {
			c2 = ctx.with(x.Var, Val{S: bv, Sort: "Int"})
		}
		c2.depth++
		body, err := e.evalBool(c2, x.Args[2])
		if err != nil {
			return Val{}, err
		}
		rng := fmt.Sprintf("(and (<= %s %s) (< %s %s))", lo.S, bv, bv, hi.S)
		// quantify over the absolute index of the first slice indexed by the bound variable, so that the
		// solver can trigger on (select array k) without arithmetic in the pattern
		orig := ""
		if off, ok := sliceOffsetOf(body, bv); ok {
			k := e.fresh("q.k")
			nb := strings.ReplaceAll(body, "(+ "+off+" "+bv+")", k)
			sub := "(- " + k + " " + off + ")"
			if containsSym(nb, bv) {
				// the bound variable also occurs elsewhere (e.g. as an argument of a specification function):
				// keep the original form as well so that both kinds of terms can trigger the quantifier
				if q == "forall" {
					orig = fmt.Sprintf("(forall ((%s Int)) (=> %s %s))", bv, rng, body)
				}
			}
			body = replaceSym(nb, bv, sub)
			rng = fmt.Sprintf("(and (<= (+ %s %s) %s) (< %s (+ %s %s)))", lo.S, off, k, k, hi.S, off)
			bv = k
		}
		if q == "forall" {
			return boolVal(sAnd(fmt.Sprintf("(forall ((%s Int)) (=> %s %s))", bv, rng, body), orig)), nil
		}
		return boolVal(fmt.Sprintf("(exists ((%s Int)) (and %s %s))", bv, rng, body)), nil
	}
	t, err := e.resolveType(ctx, x.VarT)
	if err != nil {
		return Val{}, err
	}
	srt := e.sortOf(t)
	c2 := ctx.with(x.Var, Val{S: bv, T: t})
	c2.depth++
	body, err := e.evalBool(c2, x.Args[0])
	if err != nil {
		return Val{}, err
	}
	tf := e.typingFact(t, bv, "")
	if q == "forall" {
		return boolVal(fmt.Sprintf("(forall ((%s %s)) %s)", bv, srt, sImp(tf, body))), nil
	}
	return boolVal(fmt.Sprintf("(exists ((%s %s)) %s)", bv, srt, sAnd(tf, body))), nil
}

func (e *Engine) resolveType(ctx *EvalCtx, text string) (types.Type, error) {
	text = strings.TrimSpace(text)
	if e.instTag != "" {
		text = strings.ReplaceAll(text, "$N", e.instTag) // $N: the type argument of the generic instance under verification
	}
	// instantiated generic type: Name[args]
	if !strings.HasPrefix(text, "[") && !strings.HasPrefix(text, "map[") && strings.HasSuffix(text, "]") {
		if i := strings.Index(text, "["); i > 0 {
			base, err := e.resolveType(ctx, text[:i])
			if err != nil {
				return nil, err
			}
			var targs []types.Type
			for _, a := range splitTop(text[i+1:len(text)-1], ',') {
				t, err := e.resolveType(ctx, a)
				if err != nil {
					return nil, err
				}
				targs = append(targs, t)
			}
			inst, err := types.Instantiate(nil, base, targs, false)
			if err != nil {
				return nil, fmt.Errorf("cannot instantiate %s: %v", text, err)
			}
			// prefer the instance the program already uses (identical named type objects)
			for _, tt := range e.P.SSA.RuntimeTypes() {
				if types.Identical(tt, inst) {
					return tt, nil
				}
			}
			return inst, nil
		}
	}
	switch text {
	case "int":
		return types.Typ[types.Int], nil
	case "bool":
		return types.Typ[types.Bool], nil
	case "string":
		return types.Typ[types.String], nil
	case "byte", "uint8":
		return types.Typ[types.Uint8], nil
	case "rune", "int32":
		return types.Typ[types.Int32], nil
	case "float64":
		return types.Typ[types.Float64], nil
	case "float32":
		return types.Typ[types.Float32], nil
	case "int64":
		return types.Typ[types.Int64], nil
	case "uint64":
		return types.Typ[types.Uint64], nil
	case "uint32":
		return types.Typ[types.Uint32], nil
	case "uint":
		return types.Typ[types.Uint], nil
	case "int8":
		return types.Typ[types.Int8], nil
	case "int16":
		return types.Typ[types.Int16], nil
	case "uint16":
		return types.Typ[types.Uint16], nil
	case "error":
		return types.Universe.Lookup("error").Type(), nil
	case "any", "interface{}":
		return types.NewInterfaceType(nil, nil), nil
	}
	switch {
	case strings.HasPrefix(text, "[]"):
		t, err := e.resolveType(ctx, text[2:])
		if err != nil {
			return nil, err
		}
		return types.NewSlice(t), nil
	case strings.HasPrefix(text, "*"):
		t, err := e.resolveType(ctx, text[1:])
		if err != nil {
			return nil, err
		}
		return types.NewPointer(t), nil
	case strings.HasPrefix(text, "map["):
		end := matchBracket(text, 3)
		if end < 0 {
			return nil, fmt.Errorf("bad map type %q", text)
		}
		k, err := e.resolveType(ctx, text[4:end])
		if err != nil {
			return nil, err
		}
		v, err := e.resolveType(ctx, text[end+1:])
		if err != nil {
			return nil, err
		}
		return types.NewMap(k, v), nil
	case strings.HasPrefix(text, "["):
		end := matchBracket(text, 0)
		if end < 0 {
			return nil, fmt.Errorf("bad array type %q", text)
		}
		var n int64
		if _, err := fmt.Sscanf(text[1:end], "%d", &n); err != nil {
			return nil, fmt.Errorf("bad array length in %q", text)
		}
		t, err := e.resolveType(ctx, text[end+1:])
		if err != nil {
			return nil, err
		}
		return types.NewArray(t, n), nil
	}
	if ctx.pkg == nil {
		return nil, fmt.Errorf("cannot resolve type %q without a package", text)
	}
	// generic instantiation suffix is not supported in specs; qualified or local named type
	if j := strings.Index(text, "."); j > 0 {
		imp := e.importByAlias(ctx.pkg, text[:j])
		if imp == nil {
			for _, p := range e.allPkgs() {
				if p.Name() == text[:j] {
					imp = p
					break
				}
			}
		}
		if imp == nil {
			return nil, fmt.Errorf("cannot resolve package %q in type %q", text[:j], text)
		}
		obj := imp.Scope().Lookup(text[j+1:])
		if obj == nil {
			return nil, fmt.Errorf("%s not found in package %s", text[j+1:], imp.Path())
		}
		if _, ok := obj.(*types.TypeName); !ok {
			return nil, fmt.Errorf("%q is not a type", text)
		}
		return obj.Type(), nil
	}
	if obj := ctx.pkg.Scope().Lookup(text); obj != nil {
		if _, ok := obj.(*types.TypeName); ok {
			return obj.Type(), nil
		}
		return nil, fmt.Errorf("%q is not a type", text)
	}
	tv, err := types.Eval(e.P.Fset, ctx.pkg, token.NoPos, text)
	if err != nil {
		return nil, fmt.Errorf("cannot resolve type %q: %v", text, err)
	}
	if !tv.IsType() {
		return nil, fmt.Errorf("%q is not a type", text)
	}
	return tv.Type, nil
}

func (e *Engine) allPkgs() []*types.Package {
	var out []*types.Package
	for _, p := range e.P.Pkgs {
		if p.Types != nil {
			out = append(out, p.Types)
		}
	}
	return out
}

// importByAlias resolves the local name of an import (alias or package name) in the files of pkg.
func (e *Engine) importByAlias(pkg *types.Package, alias string) *types.Package {
	if pkg == nil {
		return nil
	}
	pp := e.P.Pkgs[pkg.Path()]
	if pp != nil {
		for _, f := range pp.Syntax {
			for _, is := range f.Imports {
				path := strings.Trim(is.Path.Value, "\"")
				ip := pp.Imports[path]
				if ip == nil || ip.Types == nil {
					continue
				}
				local := ip.Types.Name()
				if is.Name != nil {
					local = is.Name.Name
				}
				if local == alias {
					return ip.Types
				}
			}
		}
	}
	for _, imp := range pkg.Imports() {
		if imp.Name() == alias {
			return imp
		}
	}
	return nil
}

func (e *Engine) evalQualified(ctx *EvalCtx, pkgName, name string) (Val, bool, error) {
	// imported package of ctx.pkg with that name
	if imp := e.importByAlias(ctx.pkg, pkgName); imp != nil {
		{
			obj := imp.Scope().Lookup(name)
			if obj == nil {
				return Val{}, true, fmt.Errorf("%s.%s not found", pkgName, name)
			}
			v, err := e.objVal(ctx, obj)
			return v, true, err
		}
	}
	return Val{}, false, nil
}

func (e *Engine) objVal(ctx *EvalCtx, obj types.Object) (Val, error) {
	switch o := obj.(type) {
	case *types.Const:
		return e.constantVal(o.Type(), o.Val()), nil
	case *types.Var:
		if sp := e.P.SPkgs[o.Pkg().Path()]; sp != nil {
			if g, ok := sp.Members[o.Name()].(*ssa.Global); ok {
				t := g.Type().(*types.Pointer).Elem()
				v := Val{T: t, S: e.getGlobal(ctx.st, g)}
				e.globalFacts(ctx.st, g, v)
				return v, nil
			}
		}
	case *types.Nil:
		return Val{S: "nil", Sort: "Nil"}, nil
	}
	return Val{}, fmt.Errorf("unsupported object %s in specification", obj.Name())
}

func (e *Engine) constantVal(t types.Type, cv constant.Value) Val {
	switch cv.Kind() {
	case constant.Bool:
		if constant.BoolVal(cv) {
			return Val{T: t, S: "true"}
		}
		return Val{T: t, S: "false"}
	case constant.String:
		return Val{T: t, S: e.strLit(constant.StringVal(cv))}
	case constant.Int:
		if b, ok := t.Underlying().(*types.Basic); ok && b.Info()&types.IsInteger != 0 && b.Info()&types.IsUntyped == 0 {
			return Val{T: t, S: e.intLit(b, cv.ExactString())}
		}
		s := cv.ExactString()
		if strings.HasPrefix(s, "-") {
			s = "(- " + s[1:] + ")"
		}
		return Val{S: s, Sort: "Int", Untyped: true}
	case constant.Float:
		f, _ := constant.Float64Val(cv)
		if b, ok := t.Underlying().(*types.Basic); ok && b.Info()&types.IsInteger != 0 {
			if i := constant.ToInt(cv); i.Kind() == constant.Int {
				return Val{T: t, S: e.intLit(b, i.ExactString())}
			}
		}
		return Val{T: types.Typ[types.Float64], S: fpLit(f, false)}
	}
	return Val{T: t, S: e.zero(t)}
}

func (e *Engine) evalIdent(ctx *EvalCtx, name string) (Val, error) {
	if v, ok := ctx.binds[name]; ok {
		return v, nil
	}
	if name == "result" && len(ctx.results) > 0 {
		return ctx.results[0], nil
	}
	for i, rn := range ctx.resNames {
		if rn == name && i < len(ctx.results) {
			return ctx.results[i], nil
		}
	}
	if ctx.paramVals != nil {
		if v, ok := ctx.paramVals[name]; ok {
			return v, nil
		}
	}
	if name == "$k" && ctx.loop == nil && ctx.siteLoop != nil && ctx.f != nil {
		for _, in := range ctx.siteLoop.Header.Instrs {
			if p, ok := in.(*ssa.Phi); ok && p.Comment == "rangeindex" {
				return Val{S: "(+ " + ctx.f.vals[p].S + " 1)", Sort: "Int", T: types.Typ[types.Int]}, nil
			}
		}
		if v, ok := countingPhi(ctx.f, ctx.siteLoop.Header); ok {
			return v, nil
		}
		return Val{}, fmt.Errorf("$k is only available in range-index loops")
	}
	if name == "$wm" {
		// allocation watermark of the state at hand: every object allocated so far has an id <= $wm, later ones a larger id
		return Val{S: ctx.st.wm, Sort: "Int", T: types.Typ[types.Int]}, nil
	}
	if name == "$k" && ctx.loop != nil {
		if ctx.f != nil {
			for _, in := range ctx.loop.Header.Instrs {
				if p, ok := in.(*ssa.Phi); ok && p.Comment == "rangeindex" {
					return Val{S: "(+ " + ctx.f.vals[p].S + " 1)", Sort: "Int", T: types.Typ[types.Int]}, nil
				}
			}
			if v, ok := countingPhi(ctx.f, ctx.loop.Header); ok {
				return v, nil
			}
		}
		return Val{}, fmt.Errorf("$k is only available in range-index loops")
	}
	if name == "$iter" && ctx.loop != nil && ctx.f != nil {
		// number of completed iterations of a range-over-map loop
		for r := range ctx.st.iters {
			if isString(r.X.Type()) {
				continue
			}
			for b := range ctx.loop.Blocks {
				for _, in := range b.Instrs {
					if n, ok := in.(*ssa.Next); ok && n.Iter == ssa.Value(r) {
						return Val{S: ctx.st.iters[r], Sort: "Int", T: types.Typ[types.Int]}, nil
					}
				}
			}
		}
		return Val{}, fmt.Errorf("$iter: no range-over-map iterator in this loop")
	}
	if name == "$off" && ctx.loop != nil && ctx.f != nil {
		for r := range ctx.st.iters {
			if ctx.loop.Blocks[r.Block()] || true {
				// the iterator advanced by a Next inside this loop
				for b := range ctx.loop.Blocks {
					for _, in := range b.Instrs {
						if n, ok := in.(*ssa.Next); ok && n.Iter == ssa.Value(r) {
							return Val{S: ctx.st.iters[r], Sort: "Int", T: types.Typ[types.Int]}, nil
						}
					}
				}
			}
		}
		return Val{}, fmt.Errorf("$off: no range-over-string iterator in this loop")
	}
	if ctx.f != nil && !ctx.noLocals {
		if v, ok := ctx.f.lookupName(ctx, name); ok {
			return v, nil
		}
	}
	// ghost variables
	if g, ok := e.getGhost(ctx.st, name); ok {
		return Val{S: g, Sort: e.ghostDecl[name]}, nil
	}
	// contract-file constants
	if ctx.cf != nil {
		if c, ok := ctx.cf.Consts[name]; ok {
			x, err := parseExpr(c)
			if err != nil {
				return Val{}, err
			}
			return e.eval(ctx, x)
		}
	}
	if ctx.pkg != nil {
		if obj := ctx.pkg.Scope().Lookup(name); obj != nil {
			return e.objVal(ctx, obj)
		}
	}
	if obj := types.Universe.Lookup(name); obj != nil {
		if c, ok := obj.(*types.Const); ok {
			return e.constantVal(c.Type(), c.Val()), nil
		}
	}
	return Val{}, fmt.Errorf("unknown identifier %q", name)
}

// lookupName resolves a source-level variable name at the evaluation point.
func (f *Frame) lookupName(ctx *EvalCtx, name string) (Val, bool) {
	e := f.e
	if ctx.loop != nil {
		for _, in := range ctx.loop.Header.Instrs {
			p, ok := in.(*ssa.Phi)
			if !ok {
				break
			}
			if p.Comment == name {
				if v, ok := f.vals[p]; ok {
					return v, true
				}
			}
		}
		// the key variable of `for i := range s`: at the loop head it stands for the number of completed iterations (what `i`
		// is at the head of the equivalent `for i := 0; i < len(s); i++`), i.e. the hidden range index + 1
		for _, in := range ctx.loop.Header.Instrs {
			p, ok := in.(*ssa.Phi)
			if !ok {
				break
			}
			if p.Comment != "rangeindex" {
				continue
			}
			pv, ok := f.vals[p]
			if !ok || pv.S == "" {
				continue
			}
			for b := range ctx.loop.Blocks {
				for _, instr := range b.Instrs {
					d, ok := instr.(*ssa.DebugRef)
					if !ok {
						continue
					}
					id, ok := d.Expr.(*ast.Ident)
					if !ok || id.Name != name {
						continue
					}
					if bo, ok := d.X.(*ssa.BinOp); ok && bo.Op == token.ADD && bo.X == ssa.Value(p) {
						if e.mode == "bv" {
							return Val{T: bo.Type(), S: "(bvadd " + pv.S + " " + bvLit("1", 64) + ")"}, true
						}
						return Val{T: bo.Type(), S: "(+ " + pv.S + " 1)"}, true
					}
				}
			}
		}
	}
	paramVal := func() (Val, bool) {
		for _, p := range f.fn.Params {
			if p.Name() == name {
				if v, ok := f.vals[p]; ok {
					return v, true
				}
			}
		}
		return Val{}, false
	}
	if ctx.onlyParams || ctx.at == nil || ctx.inOld {
		if v, ok := paramVal(); ok {
			return v, true
		}
	}
	for i, fv := range f.fn.FreeVars {
		if fv.Name() == name && i < len(f.freeVars) {
			v := f.freeVars[i]
			if l := e.locOf(f, v); l != nil {
				if _, isPtr := fv.Type().(*types.Pointer); isPtr {
					lv := Val{T: fv.Type().(*types.Pointer).Elem(), S: e.load(ctx.st, l)}
					return lv, true
				}
			}
			return v, true
		}
	}
	if ctx.onlyParams {
		return Val{}, false
	}
	// address-taken variable: its storage holds the current content
	for _, b := range f.fn.Blocks {
		for _, in := range b.Instrs {
			a, ok := in.(*ssa.Alloc)
			if !ok || a.Comment != name {
				continue
			}
			av, ok := f.vals[a]
			if !ok {
				continue
			}
			if ctx.at != nil && !(b == ctx.at || b.Dominates(ctx.at)) {
				continue
			}
			if l := e.locOf(f, av); l != nil {
				t := locType(l)
				if l.Kind == LElem && l.Idx == "" && l.Note == "array" {
					return Val{T: a.Type().(*types.Pointer).Elem(), S: fmt.Sprintf("(select %s %s)", e.getHeapA(ctx.st, e.sortOf(l.RootT)), l.Base)}, true
				}
				return Val{T: t, S: e.load(ctx.st, l)}, true
			}
		}
	}
	// DebugRef-based
	refs := f.names[name]
	var best *ssa.DebugRef
	for _, d := range refs {
		if _, ok := f.vals[d.X]; !ok {
			if _, isConst := d.X.(*ssa.Const); !isConst {
				if _, isAlloc := d.X.(*ssa.Alloc); !isAlloc {
					continue
				}
				if _, ok := f.vals[d.X]; !ok {
					continue
				}
			}
		}
		if ctx.at != nil {
			if !(d.Block() == ctx.at || d.Block().Dominates(ctx.at)) {
				continue
			}
			if d.Block() == ctx.at && ctx.loop != nil && ctx.loop.Header == ctx.at {
				continue // refs inside the header refer to this iteration's values, resolved via phis above
			}
		}
		if best == nil || best.Block().Dominates(d.Block()) {
			best = d
		}
	}
	// phis carrying the variable in blocks that dominate the evaluation point (e.g. the loop-exit value of a counter)
	if ctx.at != nil {
		var bestPhi *ssa.Phi
		for _, b := range f.fn.Blocks {
			if !(b == ctx.at || b.Dominates(ctx.at)) {
				continue
			}
			if ctx.loop != nil && ctx.loop.Header == b {
				continue
			}
			for _, in := range b.Instrs {
				p, ok := in.(*ssa.Phi)
				if !ok {
					break
				}
				if p.Comment != name {
					continue
				}
				if _, ok := f.vals[p]; !ok {
					continue
				}
				if bestPhi == nil || bestPhi.Block().Dominates(b) {
					bestPhi = p
				}
			}
		}
		if bestPhi != nil && (best == nil || (best.Block() != bestPhi.Block() && best.Block().Dominates(bestPhi.Block()))) {
			return f.vals[bestPhi], true
		}
	}
	if best == nil {
		if v, ok := paramVal(); ok {
			return v, true
		}
	}
	if best != nil {
		v := f.val(best.X)
		if best.IsAddr {
			if l := e.locOf(f, v); l != nil {
				t := locType(l)
				if l.Kind == LElem && l.Idx == "" && l.Note == "array" {
					return Val{T: t, S: fmt.Sprintf("(select %s %s)", e.getHeapA(ctx.st, e.sortOf(l.RootT)), l.Base)}, true
				}
				return Val{T: t, S: e.load(ctx.st, l)}, true
			}
		}
		return v, true
	}
	if v, ok := paramVal(); ok {
		return v, true
	}
	return Val{}, false
}

func (e *Engine) evalSelect(ctx *EvalCtx, a Val, name string) (Val, error) {
	if a.T == nil {
		return Val{}, fmt.Errorf("cannot select .%s from an untyped value", name)
	}
	obj, index, _ := types.LookupFieldOrMethod(a.T, true, ctx.pkg, name)
	if obj == nil {
		// unexported field of another package: search manually
		obj, index = lookupFieldAnyPkg(a.T, name)
		if obj == nil {
			return Val{}, fmt.Errorf("no field %s in %s", name, a.T)
		}
	}
	if _, ok := obj.(*types.Var); !ok {
		return Val{}, fmt.Errorf("%s is not a field of %s", name, a.T)
	}
	cur := a
	entryHeap := false
	for _, i := range index {
		if p, ok := cur.T.Underlying().(*types.Pointer); ok {
			entryHeap = strings.HasPrefix(e.getHeapP(ctx.st, e.sortOf(p.Elem())), "HP0.")
			pt, ok2 := e.ptrTerm(cur)
			if !ok2 {
				if l := cur.Loc; l != nil {
					cur = Val{T: p.Elem(), S: e.load(ctx.st, l)}
				} else {
					return Val{}, fmt.Errorf("cannot dereference in .%s", name)
				}
			} else {
				cur = Val{T: p.Elem(), S: fmt.Sprintf("(select %s %s)", e.getHeapP(ctx.st, e.sortOf(p.Elem())), pt)}
			}
		}
		stt, ok := cur.T.Underlying().(*types.Struct)
		if !ok {
			return Val{}, fmt.Errorf("%s is not a struct", cur.T)
		}
		cur = Val{T: stt.Field(i).Type(), S: e.fieldSel(cur.T, stt, i, cur.S)}
	}
	// values read from the heap in a specification carry the same typing facts as values loaded by the code
	if !hasBound(cur.S) {
		switch cur.T.Underlying().(type) {
		case *types.Slice, *types.Pointer, *types.Map, *types.Chan:
			// (including: what the heap of a state holds was allocated before that state - not beyond its watermark)
			wm := ctx.st.wm
			if entryHeap {
				// read from the heap as it was at entry: allocated before entry
				wm = "wm0"
			}
			key := "specty:" + ctx.st.cond + ":" + wm + ":" + cur.S
			if !e.sc.declared[key] && len(cur.S) < 400 {
				e.sc.declared[key] = true
				e.assume(ctx.st.cond, e.typingFact(cur.T, cur.S, wm))
			}
		}
	}
	return cur, nil
}

func lookupFieldAnyPkg(t types.Type, name string) (types.Object, []int) {
	if p, ok := t.Underlying().(*types.Pointer); ok {
		t = p.Elem()
	}
	stt, ok := t.Underlying().(*types.Struct)
	if !ok {
		return nil, nil
	}
	for i := 0; i < stt.NumFields(); i++ {
		if stt.Field(i).Name() == name {
			return stt.Field(i), []int{i}
		}
	}
	for i := 0; i < stt.NumFields(); i++ {
		if stt.Field(i).Embedded() {
			if o, idx := lookupFieldAnyPkg(stt.Field(i).Type(), name); o != nil {
				return o, append([]int{i}, idx...)
			}
		}
	}
	return nil, nil
}

func (e *Engine) evalIndex(ctx *EvalCtx, a, i Val) (Val, error) {
	if a.T == nil {
		// spec-level arrays
		if strings.HasPrefix(a.Sort, "(Array ") {
			return Val{S: fmt.Sprintf("(select %s %s)", a.S, i.S), Sort: arrayElemSort(a.Sort)}, nil
		}
		return Val{}, fmt.Errorf("cannot index an untyped value")
	}
	switch u := a.T.Underlying().(type) {
	case *types.Basic:
		if isString(a.T) {
			return Val{T: types.Typ[types.Uint8], S: e.byteOfStr(a.S, i.S, types.Typ[types.Uint8])}, nil
		}
	case *types.Slice:
		return Val{T: u.Elem(), S: fmt.Sprintf("(select (select %s (s.arr %s)) (+ (s.off %s) %s))", e.getHeapA(ctx.st, e.sortOf(u.Elem())), a.S, a.S, i.S)}, nil
	case *types.Array:
		return Val{T: u.Elem(), S: fmt.Sprintf("(select %s %s)", a.S, i.S)}, nil
	case *types.Map:
		kt := i.S
		if i.Untyped || (i.T == nil && i.Sort == "Int") {
			_, ii := e.coerceInts(Val{T: u.Key()}, i)
			kt = ii.S
		}
		return Val{T: u.Elem(), S: fmt.Sprintf("(select (select %s %s) %s)", e.getMapV(ctx.st, u), a.S, kt)}, nil
	case *types.Pointer:
		if at, ok := u.Elem().Underlying().(*types.Array); ok {
			if a.Loc != nil && a.Loc.Kind == LElem {
				return Val{T: at.Elem(), S: fmt.Sprintf("(select (select %s %s) %s)", e.getHeapA(ctx.st, e.sortOf(at.Elem())), a.Loc.Base, i.S)}, nil
			}
		}
	}
	return Val{}, fmt.Errorf("cannot index %s", a.T)
}

func arrayElemSort(s string) string {
	// "(Array Int X)" -> X
	inner := strings.TrimSuffix(strings.TrimPrefix(s, "(Array "), ")")
	// skip index sort
	d := 0
	for k := 0; k < len(inner); k++ {
		switch inner[k] {
		case '(':
			d++
		case ')':
			d--
		case ' ':
			if d == 0 {
				return inner[k+1:]
			}
		}
	}
	return inner
}

func (e *Engine) evalBin(ctx *EvalCtx, x *Expr) (Val, error) {
	op := x.Name
	if op == "&&" || op == "||" || op == "==>" || op == "<==>" {
		a, err := e.evalBool(ctx, x.Args[0])
		if err != nil {
			return Val{}, err
		}
		b, err := e.evalBool(ctx, x.Args[1])
		if err != nil {
			return Val{}, err
		}
		switch op {
		case "&&":
			return boolVal(sAnd(a, b)), nil
		case "||":
			return boolVal(sOr(a, b)), nil
		case "==>":
			return boolVal(sImp(a, b)), nil
		default:
			return boolVal(sEq(a, b)), nil
		}
	}
	a, err := e.eval(ctx, x.Args[0])
	if err != nil {
		return Val{}, err
	}
	b, err := e.eval(ctx, x.Args[1])
	if err != nil {
		return Val{}, err
	}
	a, b = e.coerceInts(a, b)
	a, b = e.coerceNil(a, b)
	sa := e.valSort(a)
	switch op {
	case "==", "!=":
		var eq string
		switch {
		case a.T != nil && b.T != nil && isSliceT(a.T):
			// view equality
			et := a.T.Underlying().(*types.Slice).Elem()
			h := e.getHeapA(ctx.st, e.sortOf(et))
			q := e.fresh("q.i")
			ea := fmt.Sprintf("(select (select %s (s.arr %s)) (+ (s.off %s) %s))", h, a.S, a.S, q)
			eb := fmt.Sprintf("(select (select %s (s.arr %s)) (+ (s.off %s) %s))", h, b.S, b.S, q)
			eq = fmt.Sprintf("(and (= (s.len %s) (s.len %s)) (forall ((%s Int)) (=> (and (<= 0 %s) (< %s (s.len %s))) %s)))", a.S, b.S, q, q, q, a.S, e.valueEq(et, ea, eb))
		case a.T != nil:
			eq = e.valueEq(a.T, a.S, b.S)
		case b.T != nil:
			eq = e.valueEq(b.T, a.S, b.S)
		default:
			eq = sEq(a.S, b.S)
		}
		if op == "!=" {
			return boolVal(sNot(eq)), nil
		}
		return boolVal(eq), nil
	case "===":
		return boolVal(sEq(a.S, b.S)), nil
	case "++":
		return Val{T: types.Typ[types.String], S: fmt.Sprintf("(scat %s %s)", a.S, b.S)}, nil
	}
	if sa == "Str" && (op == "<" || op == "<=" || op == ">" || op == ">=") {
		tok := map[string]token.Token{"<": token.LSS, "<=": token.LEQ, ">": token.GTR, ">=": token.GEQ}[op]
		at := a
		if at.T == nil {
			at.T = types.Typ[types.String]
		}
		v := e.binop(nil, ctx.st, tok, at, b, types.Typ[types.Bool], token.NoPos)
		return boolVal(v.S), nil
	}
	isBV := strings.HasPrefix(sa, "(_ BitVec")
	isFP := sa == fp64 || sa == fp32
	unsigned := false
	if a.T != nil {
		if bb, ok := isInt(a.T); ok {
			unsigned = isUnsigned(bb)
		}
	} else if b.T != nil {
		if bb, ok := isInt(b.T); ok {
			unsigned = isUnsigned(bb)
		}
	}
	res := Val{T: a.T, Sort: sa}
	if a.Untyped && !b.Untyped {
		res.T = b.T
	}
	res.Untyped = a.Untyped && b.Untyped
	if a.T != nil && isString(a.T) && op == "+" {
		return Val{T: a.T, S: fmt.Sprintf("(scat %s %s)", a.S, b.S)}, nil
	}
	cmp := func(intop, bvs, bvu, fpop string) (Val, error) {
		switch {
		case isBV && unsigned:
			return boolVal(fmt.Sprintf("(%s %s %s)", bvu, a.S, b.S)), nil
		case isBV:
			return boolVal(fmt.Sprintf("(%s %s %s)", bvs, a.S, b.S)), nil
		case isFP:
			return boolVal(fmt.Sprintf("(%s %s %s)", fpop, a.S, b.S)), nil
		}
		return boolVal(fmt.Sprintf("(%s %s %s)", intop, a.S, b.S)), nil
	}
	ar := func(intop, bvop, fpop string) (Val, error) {
		switch {
		case isBV:
			res.S = fmt.Sprintf("(%s %s %s)", bvop, a.S, b.S)
		case isFP:
			if fpop == "" {
				return Val{}, fmt.Errorf("operator %s not defined on floats", op)
			}
			res.S = fmt.Sprintf("(%s RNE %s %s)", fpop, a.S, b.S)
		default:
			if intop == "" {
				return Val{}, fmt.Errorf("operator %s needs mode bv", op)
			}
			res.S = fmt.Sprintf("(%s %s %s)", intop, a.S, b.S)
		}
		return res, nil
	}
	switch op {
	case "<":
		return cmp("<", "bvslt", "bvult", "fp.lt")
	case "<=":
		return cmp("<=", "bvsle", "bvule", "fp.leq")
	case ">":
		return cmp(">", "bvsgt", "bvugt", "fp.gt")
	case ">=":
		return cmp(">=", "bvsge", "bvuge", "fp.geq")
	case "+":
		return ar("+", "bvadd", "fp.add")
	case "-":
		return ar("-", "bvsub", "fp.sub")
	case "*":
		return ar("*", "bvmul", "fp.mul")
	case "/":
		if isBV {
			if unsigned {
				return ar("", "bvudiv", "")
			}
			return ar("", "bvsdiv", "")
		}
		if isFP {
			return ar("", "", "fp.div")
		}
		res.S = fmt.Sprintf("(go.div %s %s)", a.S, b.S)
		return res, nil
	case "%":
		if isBV {
			if unsigned {
				return ar("", "bvurem", "")
			}
			return ar("", "bvsrem", "")
		}
		res.S = fmt.Sprintf("(go.rem %s %s)", a.S, b.S)
		return res, nil
	case "&":
		if !isBV {
			if n, ok := litInt(b.S); ok {
				if k, ok2 := constIntString(n); ok2 && k >= 0 && (k+1)&k == 0 {
					res.S = fmt.Sprintf("(mod %s %d)", a.S, k+1)
					return res, nil
				}
			}
		}
		return ar("", "bvand", "")
	case "|":
		return ar("", "bvor", "")
	case "^":
		return ar("", "bvxor", "")
	case "<<":
		if !isBV {
			if n, ok := litInt(b.S); ok {
				if k, ok2 := constIntString(n); ok2 && k >= 0 && k < 63 {
					res.S = fmt.Sprintf("(* %s %d)", a.S, int64(1)<<uint(k))
					return res, nil
				}
			}
		}
		return ar("", "bvshl", "")
	case ">>":
		if !isBV {
			if n, ok := litInt(b.S); ok {
				if k, ok2 := constIntString(n); ok2 && k >= 0 && k < 63 {
					res.S = fmt.Sprintf("(div %s %d)", a.S, int64(1)<<uint(k))
					return res, nil
				}
			}
			// shift by a symbolic amount in mode int: an uninterpreted function (callers of a contract that is verified
			// per shift amount - `split` - know nothing more about the result)
			e.sc.Decl("fun:go.shr", "(declare-fun go.shr (Int Int) Int)")
			res.S = fmt.Sprintf("(go.shr %s %s)", a.S, b.S)
			return res, nil
		}
		if unsigned {
			return ar("", "bvlshr", "")
		}
		return ar("", "bvashr", "")
	}
	return Val{}, fmt.Errorf("unsupported operator %s", op)
}

func isSliceT(t types.Type) bool {
	_, ok := t.Underlying().(*types.Slice)
	return ok
}

func (e *Engine) evalCompLit(ctx *EvalCtx, x *Expr) (Val, error) {
	t, err := e.resolveType(ctx, x.Name)
	if err != nil {
		return Val{}, err
	}
	stt, ok := t.Underlying().(*types.Struct)
	if !ok {
		return Val{}, fmt.Errorf("composite literal of non-struct %s", x.Name)
	}
	if len(x.Args) != stt.NumFields() {
		return Val{}, fmt.Errorf("composite literal %s needs %d fields", x.Name, stt.NumFields())
	}
	var fs []string
	for i, a := range x.Args {
		v, err := e.eval(ctx, a)
		if err != nil {
			return Val{}, err
		}
		_, v = e.coerceInts(Val{T: stt.Field(i).Type()}, v)
		_, v = e.coerceNil(Val{T: stt.Field(i).Type(), S: "x"}, v)
		fs = append(fs, v.S)
	}
	return Val{T: t, S: e.mkStruct(t, stt, fs)}, nil
}

func (e *Engine) findSpec(ctx *EvalCtx, name string) *SpecFn {
	if ctx.cf != nil {
		if s, ok := ctx.cf.Specs[name]; ok {
			return s
		}
	}
	// shared spec library: any loaded contract file
	for _, cf := range e.P.Contracts {
		if s, ok := cf.Specs[name]; ok {
			return s
		}
	}
	return nil
}

func (e *Engine) evalCall(ctx *EvalCtx, x *Expr) (Val, error) {
	name := x.Name
	args := func() ([]Val, error) {
		var vs []Val
		for _, a := range x.Args {
			v, err := e.eval(ctx, a)
			if err != nil {
				return nil, err
			}
			vs = append(vs, v)
		}
		return vs, nil
	}
	if strings.HasPrefix(name, ".") {
		return e.evalMethodCall(ctx, x)
	}
	switch name {
	case "len", "cap":
		vs, err := args()
		if err != nil {
			return Val{}, err
		}
		a := vs[0]
		if a.T == nil {
			return Val{}, fmt.Errorf("len of untyped value")
		}
		intT := types.Typ[types.Int]
		switch u := a.T.Underlying().(type) {
		case *types.Basic:
			return Val{T: intT, S: e.lenTerm("(slen " + a.S + ")")}, nil
		case *types.Slice:
			if name == "cap" {
				return Val{T: intT, S: e.lenTerm("(s.cap " + a.S + ")")}, nil
			}
			return Val{T: intT, S: e.lenTerm("(s.len " + a.S + ")")}, nil
		case *types.Array:
			return Val{T: intT, S: e.intLit(types.Typ[types.Int], fmt.Sprint(u.Len()))}, nil
		case *types.Map:
			return Val{T: intT, S: e.lenTerm(fmt.Sprintf("(ite (= %s 0) 0 (select %s %s))", a.S, e.getMapN(ctx.st, u), a.S))}, nil
		}
		return Val{}, fmt.Errorf("len of %s", a.T)
	case "min", "max":
		vs, err := args()
		if err != nil {
			return Val{}, err
		}
		a, b := e.coerceInts(vs[0], vs[1])
		c, err := e.evalBin(ctx.with("$a", a).with("$b", b), &Expr{Op: "bin", Name: "<", Args: []*Expr{{Op: "ident", Name: "$a"}, {Op: "ident", Name: "$b"}}})
		if err != nil {
			return Val{}, err
		}
		r := a
		if name == "min" {
			r.S = sIte(c.S, a.S, b.S)
		} else {
			r.S = sIte(c.S, b.S, a.S)
		}
		return r, nil
	case "fresh":
		vs, err := args()
		if err != nil {
			return Val{}, err
		}
		a := vs[0]
		old := ctx.old
		if old == nil {
			return Val{}, fmt.Errorf("fresh() needs an entry state")
		}
		if a.T != nil && isSliceT(a.T) {
			return boolVal(fmt.Sprintf("(or (= (s.cap %s) 0) (> (s.arr %s) %s))", a.S, a.S, old.wm)), nil
		}
		return boolVal(fmt.Sprintf("(> %s %s)", a.S, old.wm)), nil
	case "framed":
		// the function's frame condition as a predicate (for loop invariants): nothing allocated before entry and
		// outside `modifies` has changed since entry
		if ctx.f == nil {
			return Val{}, fmt.Errorf("framed() needs a function context")
		}
		top := ctx.f
		for top.parent != nil {
			top = top.parent
		}
		if top.contract == nil || top.entry == nil {
			return Val{}, fmt.Errorf("framed() needs a contract")
		}
		var gs []string
		only := ""
		if len(x.Args) == 1 && x.Args[0].Op == "lit" {
			only = x.Args[0].Lit // framed("substring"): only the frame goals whose name contains it (debugging aid / finer invariants)
		}
		for _, g := range e.frameGoals(top, top.contract, top.entry, ctx.st, top.fn) {
			if only != "" && !strings.Contains(g[0], only) {
				continue
			}
			gs = append(gs, g[2])
		}
		return boolVal(sAnd(gs...)), nil
	case "unchanged":
		vs, err := args()
		if err != nil {
			return Val{}, err
		}
		a := vs[0]
		if a.T != nil && isSliceT(a.T) && ctx.old != nil {
			et := a.T.Underlying().(*types.Slice).Elem()
			srt := e.sortOf(et)
			q := e.fresh("q.i")
			return boolVal(fmt.Sprintf("(forall ((%s Int)) (=> (and (<= 0 %s) (< %s (s.len %s))) (= (select (select %s (s.arr %s)) (+ (s.off %s) %s)) (select (select %s (s.arr %s)) (+ (s.off %s) %s)))))",
				q, q, q, a.S, e.getHeapA(ctx.st, srt), a.S, a.S, q, e.getHeapA(ctx.old, srt), a.S, a.S, q)), nil
		}
		if a.T != nil {
			if p, ok := a.T.Underlying().(*types.Pointer); ok && ctx.old != nil {
				srt := e.sortOf(p.Elem())
				return boolVal(fmt.Sprintf("(= (select %s %s) (select %s %s))", e.getHeapP(ctx.st, srt), a.S, e.getHeapP(ctx.old, srt), a.S)), nil
			}
			if mt, ok := a.T.Underlying().(*types.Map); ok && ctx.old != nil {
				return boolVal(sAnd(
					fmt.Sprintf("(= (select %s %s) (select %s %s))", e.getMapD(ctx.st, mt), a.S, e.getMapD(ctx.old, mt), a.S),
					fmt.Sprintf("(= (select %s %s) (select %s %s))", e.getMapV(ctx.st, mt), a.S, e.getMapV(ctx.old, mt), a.S),
					fmt.Sprintf("(= (select %s %s) (select %s %s))", e.getMapN(ctx.st, mt), a.S, e.getMapN(ctx.old, mt), a.S))), nil
			}
		}
		return Val{}, fmt.Errorf("unchanged() needs a slice, pointer or map")
	case "holds":
		if len(x.Args) == 1 {
			key := x.Args[0].String()
			if ctx.f != nil {
				key = ctx.f.e.lockKeyFromSpec(ctx, x.Args[0])
			}
			if ctx.st.locks[key] {
				return boolVal("true"), nil
			}
			return boolVal("false"), nil
		}
	case "$visited":
		// $visited(k): the range-over-map loop at hand has already yielded key k
		vs, err := args()
		if err != nil {
			return Val{}, err
		}
		if len(vs) == 1 && ctx.f != nil {
			for r, vis := range ctx.st.visited {
				if ctx.loop != nil {
					inLoop := false
					for b := range ctx.loop.Blocks {
						for _, in := range b.Instrs {
							if n, ok := in.(*ssa.Next); ok && n.Iter == ssa.Value(r) {
								inLoop = true
							}
						}
					}
					if !inLoop {
						continue
					}
				}
				return boolVal(fmt.Sprintf("(select %s %s)", vis, vs[0].S)), nil
			}
		}
		return Val{}, fmt.Errorf("$visited(key): no range-over-map iterator here")
	case "has", "in":
		// has(m, k): key presence in a map
		vs, err := args()
		if err != nil {
			return Val{}, err
		}
		if len(vs) == 2 && vs[0].T != nil {
			if mt, ok := vs[0].T.Underlying().(*types.Map); ok {
				return boolVal(fmt.Sprintf("(and (not (= %s 0)) (select (select %s %s) %s))", vs[0].S, e.getMapD(ctx.st, mt), vs[0].S, vs[1].S)), nil
			}
		}
		return Val{}, fmt.Errorf("has(map, key)")
	case "int", "int64", "int32", "uint64", "uint32", "uint8", "byte", "uint16", "int16", "int8", "uint", "rune", "float64":
		vs, err := args()
		if err != nil {
			return Val{}, err
		}
		if len(vs) == 1 {
			to, _ := e.resolveType(ctx, name)
			a := vs[0]
			if a.T == nil {
				if n, ok := litInt(a.S); ok {
					if tb, ok := isInt(to); ok {
						return Val{T: to, S: e.intLit(tb, n)}, nil
					}
					return Val{T: to, S: fpFromDec(n)}, nil
				}
				a.T = types.Typ[types.Int]
				if e.mode == "bv" {
					return Val{}, fmt.Errorf("conversion of an untyped non-literal in mode bv")
				}
			}
			return e.convert(ctx.f, ctx.st, a, to, token.NoPos), nil
		}
	case "typeis", "cast":
		if len(x.Args) != 2 || x.Args[1].Op != "lit" || x.Args[1].Kind != "string" {
			return Val{}, fmt.Errorf("%s(value, \"type\")", name)
		}
		v, err := e.eval(ctx, x.Args[0])
		if err != nil {
			return Val{}, err
		}
		t, err := e.resolveType(ctx, x.Args[1].Lit)
		if err != nil {
			return Val{}, err
		}
		box, unbox := e.boxFn(t)
		_ = box
		if name == "typeis" {
			return boolVal(fmt.Sprintf("(= (iface.tag %s) %d)", v.S, e.typeTag(t))), nil
		}
		return Val{T: t, S: fmt.Sprintf("(%s %s)", unbox, v.S)}, nil
	case "hasSuffix", "hasPrefix":
		vs, err := args()
		if err != nil {
			return Val{}, err
		}
		if len(x.Args) == 2 && x.Args[1].Op == "lit" && x.Args[1].Kind == "string" {
			return boolVal(litPrefix(e, vs[0].S, x.Args[1].Lit, name == "hasSuffix")), nil
		}
		if name == "hasSuffix" {
			return boolVal(hasSuffixTerm(e, vs[0].S, vs[1].S)), nil
		}
		return boolVal(hasPrefixTerm(e, vs[0].S, vs[1].S)), nil
	case "fst", "snd", "third":
		vs, err := args()
		if err != nil {
			return Val{}, err
		}
		idx := map[string]int{"fst": 0, "snd": 1, "third": 2}[name]
		if len(vs) == 1 && idx < len(vs[0].Tuple) {
			return vs[0].Tuple[idx], nil
		}
		return Val{}, fmt.Errorf("%s needs a tuple", name)
	case "store":
		// store(a, i, v): functional update of an array-sorted ghost
		vs, err := args()
		if err != nil {
			return Val{}, err
		}
		if len(vs) == 3 && strings.HasPrefix(e.valSort(vs[0]), "(Array ") {
			r := vs[0]
			r.S = fmt.Sprintf("(store %s %s %s)", vs[0].S, vs[1].S, vs[2].S)
			return r, nil
		}
		return Val{}, fmt.Errorf("store(array ghost, index, value)")
	case "exactLT", "exactLE":
		// exact mathematical comparison of two numbers of possibly different kinds (integer vs float): via reals
		vs, err := args()
		if err != nil {
			return Val{}, err
		}
		if len(vs) != 2 {
			return Val{}, fmt.Errorf("%s(a, b)", name)
		}
		toReal := func(v Val) string {
			srt := e.valSort(v)
			switch {
			case srt == fp64 || srt == fp32:
				return "(fp.to_real " + v.S + ")"
			case strings.HasPrefix(srt, "(_ BitVec"):
				return "(to_real (bv2nat " + v.S + "))"
			}
			return "(to_real " + v.S + ")"
		}
		op := "<"
		if name == "exactLE" {
			op = "<="
		}
		return boolVal(fmt.Sprintf("(%s %s %s)", op, toReal(vs[0]), toReal(vs[1]))), nil
	case "disjoint":
		// the two slices live in different backing arrays (or one of them is nil)
		vs, err := args()
		if err != nil {
			return Val{}, err
		}
		if len(vs) == 2 {
			return boolVal(fmt.Sprintf("(or (not (= (s.arr %s) (s.arr %s))) (= (s.arr %s) 0))", vs[0].S, vs[1].S, vs[0].S)), nil
		}
		return Val{}, fmt.Errorf("disjoint(a, b)")
	case "ptrid":
		// ptrid(p): allocation identity of the object p points to (0 for nil)
		vs, err := args()
		if err != nil {
			return Val{}, err
		}
		if len(vs) == 1 {
			if pt, ok := e.ptrTerm(vs[0]); ok {
				return Val{S: pt, Sort: "Int", T: types.Typ[types.Int]}, nil
			}
		}
		return Val{}, fmt.Errorf("ptrid(pointer)")
	case "arrid":
		// arrid(s): identity of the backing array of slice s (allocation order: later allocations have larger ids)
		vs, err := args()
		if err != nil {
			return Val{}, err
		}
		if len(vs) == 1 {
			return Val{S: fmt.Sprintf("(s.arr %s)", vs[0].S), Sort: "Int", T: types.Typ[types.Int]}, nil
		}
		return Val{}, fmt.Errorf("arrid(slice)")
	case "samearray":
		vs, err := args()
		if err != nil {
			return Val{}, err
		}
		if len(vs) == 2 {
			return boolVal(fmt.Sprintf("(and (= (s.arr %s) (s.arr %s)) (= (s.off %s) (s.off %s)))", vs[0].S, vs[1].S, vs[0].S, vs[1].S)), nil
		}
		return Val{}, fmt.Errorf("samearray(a, b)")
	case "since":
		// time elapsed since t on the ghost clock, at this program point (no advance)
		vs, err := args()
		if err != nil {
			return Val{}, err
		}
		return Val{T: types.Typ[types.Int], S: fmt.Sprintf("(- %s %s)", e.clockNow(ctx.st), e.timeUnix(vs[0]))}, nil
	case "getenv":
		vs, err := args()
		if err != nil {
			return Val{}, err
		}
		return Val{T: types.Typ[types.String], S: e.getenvTerm(vs[0].S)}, nil
	case "atoiOK", "atoiVal":
		vs, err := args()
		if err != nil {
			return Val{}, err
		}
		v, ok := e.atoiTerms(vs[0].S)
		if name == "atoiOK" {
			return boolVal(ok), nil
		}
		return Val{T: types.Typ[types.Int], S: v}, nil
	case "utf8valid":
		vs, err := args()
		if err != nil {
			return Val{}, err
		}
		return boolVal(e.utf8Valid(vs[0].S)), nil
	case "runes":
		vs, err := args()
		if err != nil {
			return Val{}, err
		}
		return Val{S: e.runesUpto(vs[0].S, "(slen "+vs[0].S+")"), Sort: "Int", T: types.Typ[types.Int]}, nil
	case "runes_upto":
		vs, err := args()
		if err != nil {
			return Val{}, err
		}
		return Val{S: e.runesUpto(vs[0].S, vs[1].S), Sort: "Int", T: types.Typ[types.Int]}, nil
	case "isNaN":
		vs, err := args()
		if err != nil {
			return Val{}, err
		}
		return boolVal("(fp.isNaN " + vs[0].S + ")"), nil
	case "isInf":
		vs, err := args()
		if err != nil {
			return Val{}, err
		}
		return boolVal("(fp.isInfinite " + vs[0].S + ")"), nil
	case "bits":
		vs, err := args()
		if err != nil {
			return Val{}, err
		}
		return Val{T: types.Typ[types.Uint64], S: e.float64bits(vs[0].S)}, nil
	}
	if fvv, err := e.evalIdent(ctx, name); err == nil && fvv.T != nil {
		if sig, ok := fvv.T.Underlying().(*types.Signature); ok && fvv.S != "" {
			// application of a function value: the same deterministic uninterpreted application as at call sites
			vs, err := args()
			if err != nil {
				return Val{}, err
			}
			for i := range vs {
				if i < sig.Params().Len() {
					_, a := e.coerceInts(Val{T: sig.Params().At(i).Type()}, vs[i])
					a.T = sig.Params().At(i).Type()
					vs[i] = a
				}
			}
			var rt types.Type = sig.Results()
			if sig.Results().Len() == 1 {
				rt = sig.Results().At(0).Type()
			}
			return e.applyFuncValue(fvv, vs, rt, ctx.st)
		}
	}
	if sf := e.findSpec(ctx, name); sf != nil {
		vs, err := args()
		if err != nil {
			return Val{}, err
		}
		return e.applySpec(ctx, sf, vs)
	}
	// real Go function of the package used as a specification function (silent symbolic inlining)
	if ctx.pkg != nil {
		if sp := e.P.SPkgs[ctx.pkg.Path()]; sp != nil {
			if fn := sp.Func(name); fn != nil {
				vs, err := args()
				if err != nil {
					return Val{}, err
				}
				return e.callPure(ctx, fn, vs)
			}
		}
	}
	return Val{}, fmt.Errorf("unknown function %s in specification", name)
}

func (e *Engine) lenTerm(t string) string {
	if e.mode == "bv" {
		return "((_ int2bv 64) " + t + ")"
	}
	return t
}

func (e *Engine) applySpec(ctx *EvalCtx, sf *SpecFn, args []Val) (Val, error) {
	if len(args) != len(sf.Params) {
		return Val{}, fmt.Errorf("spec %s: %d arguments for %d parameters", sf.Name, len(args), len(sf.Params))
	}
	// resolve in the spec's own package
	c2 := *ctx
	if p := e.P.Pkgs[sf.Pkg]; p != nil && p.Types != nil {
		c2.pkg = p.Types
		c2.cf = e.P.Contracts[sf.Pkg]
	}
	if sf.Body == nil {
		// uninterpreted
		var sorts, terms []string
		for i, p := range sf.Params {
			t, err := e.resolveType(&c2, p.Type)
			if err != nil {
				return Val{}, err
			}
			sorts = append(sorts, e.sortOf(t))
			_, a := e.coerceInts(Val{T: t}, args[i])
			terms = append(terms, a.S)
		}
		rt, err := e.resolveType(&c2, sf.Ret)
		if err != nil {
			return Val{}, err
		}
		name := "spec." + sf.Name
		e.sc.Decl("fun:"+name, fmt.Sprintf("(declare-fun %s (%s) %s)", name, strings.Join(sorts, " "), e.sortOf(rt)))
		if len(terms) == 0 {
			return Val{T: rt, S: name}, nil
		}
		return Val{T: rt, S: "(" + name + " " + strings.Join(terms, " ") + ")"}, nil
	}
	binds := map[string]Val{}
	pure := true
	var ptypes []types.Type
	for i, p := range sf.Params {
		t, err := e.resolveType(&c2, p.Type)
		if err != nil {
			return Val{}, err
		}
		ptypes = append(ptypes, t)
		if !pureSorted(t) {
			pure = false
		}
		_, a := e.coerceInts(Val{T: t}, args[i])
		a.T = t
		a.Untyped = false
		// name large argument terms
		if len(a.S) > 40 {
			a.S = e.defineIfClosed(a.S, e.sortOf(t))
		}
		binds[p.Name] = a
	}
	if pure && len(sf.Params) > 0 {
		// heap-independent specification function: an SMT function with a definitional axiom triggered on its applications
		rt, err := e.resolveType(&c2, sf.Ret)
		if err != nil {
			return Val{}, err
		}
		name := "spec." + sf.Name
		if e.mode == "bv" {
			name += ".bv"
		}
		if !e.sc.declared["specfn:"+name] {
			e.sc.declared["specfn:"+name] = true
			var sorts, vars, decl []string
			pb := map[string]Val{}
			for i, p := range sf.Params {
				v := "sp." + sanitizeSym(sf.Name) + "." + p.Name
				sorts = append(sorts, e.sortOf(ptypes[i]))
				vars = append(vars, v)
				decl = append(decl, fmt.Sprintf("(%s %s)", v, e.sortOf(ptypes[i])))
				pb[p.Name] = Val{T: ptypes[i], S: v}
			}
			e.sc.decls = append(e.sc.decls, fmt.Sprintf("(declare-fun %s (%s) %s)", name, strings.Join(sorts, " "), e.sortOf(rt)))
			c3 := c2
			c3.binds = pb
			c3.noLocals = true
			c3.loop = nil
			c3.depth = ctx.depth + 1
			c3.st = newState()
			c3.old = c3.st
			bv, err := e.eval(&c3, sf.Body)
			if err != nil {
				return Val{}, fmt.Errorf("in spec %s: %v", sf.Name, err)
			}
			_, bv = e.coerceInts(Val{T: rt}, bv)
			app := "(" + name + " " + strings.Join(vars, " ") + ")"
			e.sc.decls = append(e.sc.decls, fmt.Sprintf("(assert (forall (%s) (! (= %s %s) :pattern (%s))))", strings.Join(decl, " "), app, bv.S, app))
		}
		var terms []string
		for _, p := range sf.Params {
			terms = append(terms, binds[p.Name].S)
		}
		return Val{T: rt, S: "(" + name + " " + strings.Join(terms, " ") + ")"}, nil
	}
	c2.binds = binds
	c2.noLocals = true
	c2.loop = nil
	c2.depth = ctx.depth + 1
	v, err := e.eval(&c2, sf.Body)
	if err != nil {
		return Val{}, fmt.Errorf("in spec %s: %v", sf.Name, err)
	}
	if rt, err := e.resolveType(&c2, sf.Ret); err == nil {
		_, v = e.coerceInts(Val{T: rt}, v)
		v.T = rt
		v.Untyped = false
	}
	return v, nil
}

// defineIfClosed names a term unless it mentions a quantifier-bound variable.
func (e *Engine) defineIfClosed(term, sort string) string {
	return e.define("sa", sort, term)
}

// hasBound: the term mentions a quantifier-bound variable (q.*) or a spec-axiom parameter (sp.*).
func hasBound(term string) bool {
	for i := 0; i+2 < len(term); i++ {
		if (i == 0 || term[i-1] == ' ' || term[i-1] == '(') && ((term[i] == 'q' && term[i+1] == '.') || (term[i] == 's' && term[i+1] == 'p' && term[i+2] == '.')) {
			return true
		}
	}
	return false
}

func pureSorted(t types.Type) bool {
	switch u := t.Underlying().(type) {
	case *types.Basic:
		return true
	case *types.Struct:
		for i := 0; i < u.NumFields(); i++ {
			if !pureSorted(u.Field(i).Type()) {
				return false
			}
		}
		return true
	case *types.Array:
		return pureSorted(u.Elem())
	}
	return false
}

func (e *Engine) evalMethodCall(ctx *EvalCtx, x *Expr) (Val, error) {
	mname := strings.TrimPrefix(x.Name, ".")
	// package-qualified function?
	if id := x.Args[0]; id.Op == "ident" {
		if _, bound := ctx.binds[id.Name]; !bound && ctx.pkg != nil {
			if imp := e.importByAlias(ctx.pkg, id.Name); imp != nil {
				{
					if sp := e.P.SPkgs[imp.Path()]; sp != nil {
						if fn := sp.Func(mname); fn != nil {
							var vs []Val
							for _, a := range x.Args[1:] {
								v, err := e.eval(ctx, a)
								if err != nil {
									return Val{}, err
								}
								vs = append(vs, v)
							}
							return e.callPure(ctx, fn, vs)
						}
					}
					return Val{}, fmt.Errorf("%s.%s not found", id.Name, mname)
				}
			}
		}
	}
	recv, err := e.eval(ctx, x.Args[0])
	if err != nil {
		return Val{}, err
	}
	if recv.T == nil {
		return Val{}, fmt.Errorf("method call on untyped value")
	}
	var vs []Val
	for _, a := range x.Args[1:] {
		v, err := e.eval(ctx, a)
		if err != nil {
			return Val{}, err
		}
		vs = append(vs, v)
	}
	// a function-typed field applied to arguments: the deterministic application used at call sites
	if fv, err := e.evalSelect(ctx, recv, mname); err == nil && fv.T != nil {
		if sig, ok := fv.T.Underlying().(*types.Signature); ok {
			for i := range vs {
				if i < sig.Params().Len() {
					_, a := e.coerceInts(Val{T: sig.Params().At(i).Type()}, vs[i])
					a.T = sig.Params().At(i).Type()
					vs[i] = a
				}
			}
			var rt types.Type = sig.Results()
			if sig.Results().Len() == 1 {
				rt = sig.Results().At(0).Type()
			}
			return e.applyFuncValue(fv, vs, rt, ctx.st)
		}
	}
	if _, isIface := recv.T.Underlying().(*types.Interface); isIface {
		// interface method with a pure interface contract: the same uninterpreted function as at call sites
		if c := e.ifaceContractByType(recv.T, mname); c != nil && c.Pure {
			obj, _, _ := types.LookupFieldOrMethod(recv.T, true, ctx.pkg, mname)
			if m, ok := obj.(*types.Func); ok {
				sig := m.Type().(*types.Signature)
				if sig.Results().Len() == 1 {
					all := append([]Val{recv}, vs...)
					for i := 0; i < sig.Params().Len() && i+1 < len(all); i++ {
						_, a := e.coerceInts(Val{T: sig.Params().At(i).Type()}, all[i+1])
						a.T = sig.Params().At(i).Type()
						all[i+1] = a
					}
					if v, ok := e.pureApply(c, 0, sig.Results().At(0).Type(), all); ok {
						return v, nil
					}
				}
			}
		}
		return Val{}, fmt.Errorf("interface method %s needs a pure interface contract to be used in a specification", mname)
	}
	sel := e.P.SSA.MethodSets.MethodSet(recv.T).Lookup(ctx.pkg, mname)
	if sel == nil {
		sel = e.P.SSA.MethodSets.MethodSet(types.NewPointer(recv.T)).Lookup(ctx.pkg, mname)
	}
	if sel == nil {
		// unexported method of another package
		if n, ok := recv.T.(*types.Named); ok {
			for i := 0; i < n.NumMethods(); i++ {
				if n.Method(i).Name() == mname {
					fn := e.P.SSA.FuncValue(n.Method(i))
					if fn != nil {
						return e.callPure(ctx, fn, append([]Val{recv}, vs...))
					}
				}
			}
		}
		return Val{}, fmt.Errorf("no method %s on %s", mname, recv.T)
	}
	fn := e.P.SSA.MethodValue(sel)
	if fn == nil {
		return Val{}, fmt.Errorf("method %s on %s has no body (interface method)", mname, recv.T)
	}
	if len(fn.Params) > 0 {
		if pt, isPtr := fn.Params[0].Type().Underlying().(*types.Pointer); isPtr {
			if _, recvIsPtr := recv.T.Underlying().(*types.Pointer); !recvIsPtr {
				// pointer-receiver method applied to a value: evaluate on a heap where a fresh object holds the value
				st2 := ctx.st.clone()
				p := e.freshConst("specrecv", "Int")
				e.assume("true", fmt.Sprintf("(> %s %s)", p, st2.wm))
				srt := e.sortOf(pt.Elem())
				st2.heapP[srt] = fmt.Sprintf("(store %s %s %s)", e.getHeapP(st2, srt), p, recv.S)
				c2 := *ctx
				c2.st = st2
				return e.callPure(&c2, fn, append([]Val{{T: fn.Params[0].Type(), S: p}}, vs...))
			}
		}
	}
	return e.callPure(ctx, fn, append([]Val{recv}, vs...))
}

// callPure symbolically inlines a real Go function inside a specification (no obligations are generated).
// A function whose contract is marked pure is the same uninterpreted function as at its call sites.
func (e *Engine) callPure(ctx *EvalCtx, fn *ssa.Function, args []Val) (Val, error) {
	if c := e.P.ContractFor(fn); c != nil && c.Pure {
		if n := fn.Signature.Results().Len(); n > 1 {
			for i, p := range fn.Params {
				if i < len(args) {
					_, a := e.coerceInts(Val{T: p.Type()}, args[i])
					a.T = p.Type()
					args[i] = a
				}
			}
			var vs []Val
			for i := 0; i < n; i++ {
				v, ok := e.pureApply(c, i, fn.Signature.Results().At(i).Type(), args)
				if !ok {
					return Val{}, fmt.Errorf("cannot apply pure function %s", fn.Name())
				}
				vs = append(vs, v)
			}
			return Val{T: fn.Signature.Results(), Tuple: vs}, nil
		}
		if fn.Signature.Results().Len() == 1 {
			for i, p := range fn.Params {
				if i < len(args) {
					_, a := e.coerceInts(Val{T: p.Type()}, args[i])
					a.T = p.Type()
					args[i] = a
				}
			}
			if v, ok := e.pureApply(c, 0, fn.Signature.Results().At(0).Type(), args); ok {
				return v, nil
			}
		}
	}
	{
		full := fn.String()
		if o := fn.Origin(); o != nil {
			full = o.String()
		}
		if m, ok := libModels[full]; ok {
			if ctx.f == nil {
				ctx.f = &Frame{e: e, silent: true, prefix: "spec", vals: map[ssa.Value]Val{}}
			}
			// library function with a model: the same model as at call sites (silently)
			for i, p := range fn.Params {
				if i < len(args) {
					_, a := e.coerceInts(Val{T: p.Type()}, args[i])
					a.T = p.Type()
					args[i] = a
				}
			}
			var rt types.Type = fn.Signature.Results()
			if fn.Signature.Results().Len() == 1 {
				rt = fn.Signature.Results().At(0).Type()
			}
			wasSilent := ctx.f.silent
			ctx.f.silent = true
			v := m(ctx.f, ctx.st.clone(), &ssa.CallCommon{}, args, rt, token.NoPos)
			ctx.f.silent = wasSilent
			e.usedModels[full] = true
			return v, nil
		}
	}
	if len(fn.Blocks) == 0 {
		return Val{}, fmt.Errorf("function %s has no body", fn.Name())
	}
	if len(args) != len(fn.Params) {
		return Val{}, fmt.Errorf("%s: %d arguments for %d parameters", fn.Name(), len(args), len(fn.Params))
	}
	for i, p := range fn.Params {
		_, a := e.coerceInts(Val{T: p.Type()}, args[i])
		a.T = p.Type()
		a.Untyped = false
		args[i] = a
	}
	sub := e.newFrame(fn, ctx.f)
	if len(sub.loops) > 0 {
		return Val{}, fmt.Errorf("function %s has loops and cannot be used in a specification", fn.Name())
	}
	if ctx.depth > 8 {
		return Val{}, fmt.Errorf("specification call depth exceeded at %s", fn.Name())
	}
	// silent: obligations and notes produced inside are discarded
	savedObls, savedOrd := e.obls, cloneMap(e.ordinals)
	st := ctx.st.clone()
	st.cond = "true"
	sub.silent = true
	sub.entry = st
	_, vals := sub.run(st, args)
	e.obls, e.ordinals = savedObls, savedOrd
	e.usedPure[funcPkgPath(fn)+"."+funcKey(fn)] = true
	if len(vals) != 1 {
		if len(vals) == 0 {
			return Val{}, fmt.Errorf("%s returns nothing", fn.Name())
		}
		return Val{T: fn.Signature.Results(), Tuple: vals}, nil
	}
	return vals[0], nil
}

// sliceOffsetOf finds "(+ (s.off X) v)" in term with X closed w.r.t. v and returns "(s.off X)".
func sliceOffsetOf(term, v string) (string, bool) {
	const pre = "(+ (s.off "
	for i := 0; i+len(pre) < len(term); i++ {
		if !strings.HasPrefix(term[i:], pre) {
			continue
		}
		j := i + len(pre)
		// balanced X
		d := 0
		k := j
		for k < len(term) {
			if term[k] == '(' {
				d++
			} else if term[k] == ')' {
				if d == 0 {
					break
				}
				d--
			} else if term[k] == ' ' && d == 0 {
				break
			}
			k++
		}
		if k >= len(term) || term[k] != ')' {
			continue
		}
		x := term[j:k]
		rest := term[k+1:]
		if strings.HasPrefix(rest, " "+v+")") && !containsSym(x, v) && !hasBound(x) {
			return "(s.off " + x + ")", true
		}
	}
	return "", false
}

func containsSym(term, v string) bool {
	for i := 0; i+len(v) <= len(term); i++ {
		if term[i:i+len(v)] == v && (i == 0 || term[i-1] == ' ' || term[i-1] == '(') && (i+len(v) == len(term) || term[i+len(v)] == ' ' || term[i+len(v)] == ')') {
			return true
		}
	}
	return false
}

func replaceSym(term, v, by string) string {
	var b strings.Builder
	for i := 0; i < len(term); {
		if i+len(v) <= len(term) && term[i:i+len(v)] == v && (i == 0 || term[i-1] == ' ' || term[i-1] == '(') && (i+len(v) == len(term) || term[i+len(v)] == ' ' || term[i+len(v)] == ')') {
			b.WriteString(by)
			i += len(v)
			continue
		}
		b.WriteByte(term[i])
		i++
	}
	return b.String()
}

// countingPhi: the loop counter of a canonical index loop `for i := 0; ...; i++` (a header phi of type int that starts at the
// constant 0 and whose only other incoming value is itself + 1): it equals the number of completed iterations, i.e. what $k
// denotes in the equivalent `for i := range s` loop. Lets contracts written with $k survive a range <-> index rewrite.
func countingPhi(f *Frame, header *ssa.BasicBlock) (Val, bool) {
	var found *ssa.Phi
	for _, in := range header.Instrs {
		p, ok := in.(*ssa.Phi)
		if !ok {
			break
		}
		if b, ok := p.Type().Underlying().(*types.Basic); !ok || b.Kind() != types.Int {
			continue
		}
		zero, step := 0, 0
		for _, e := range p.Edges {
			if c, ok := e.(*ssa.Const); ok && c.Value != nil && c.Value.ExactString() == "0" {
				zero++
				continue
			}
			if bo, ok := e.(*ssa.BinOp); ok && bo.Op == token.ADD && bo.X == ssa.Value(p) {
				if c, ok := bo.Y.(*ssa.Const); ok && c.Value != nil && c.Value.ExactString() == "1" {
					step++
					continue
				}
			}
			zero, step = -1, -1
			break
		}
		if zero == 1 && step >= 1 {
			if found != nil {
				return Val{}, false // ambiguous
			}
			found = p
		}
	}
	if found == nil {
		return Val{}, false
	}
	v, ok := f.vals[found]
	if !ok {
		return Val{}, false
	}
	return Val{S: v.S, Sort: "Int", T: types.Typ[types.Int]}, true
}
