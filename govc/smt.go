package main

// SMT-LIB script assembly and the solver race (DESIGN.md 3.8).

import (
	"bytes"
	"context"
	"fmt"
	"os"
	"os/exec"
	"path/filepath"
	"strings"
	"sync"
	"syscall"
	"time"
)

const prelude = `(set-option :produce-models true)
(set-logic ALL)
(declare-sort Str 0)
(declare-sort Iface 0)
(declare-sort Func 0)
(declare-fun slen (Str) Int)
(declare-fun sbyte (Str Int) Int)
(declare-fun ssub (Str Int Int) Str)
(declare-fun scat (Str Str) Str)
(declare-fun sdiff (Str Str) Int)
(declare-const str.empty Str)
(assert (= (slen str.empty) 0))
(assert (forall ((s Str)) (! (and (>= (slen s) 0) (<= (slen s) 4611686018427387904)) :pattern ((slen s)))))
(assert (forall ((s Str) (i Int)) (! (and (<= 0 (sbyte s i)) (<= (sbyte s i) 255)) :pattern ((sbyte s i)))))
(assert (forall ((s Str) (a Int) (b Int)) (! (=> (and (<= 0 a) (<= a b) (<= b (slen s))) (= (slen (ssub s a b)) (- b a))) :pattern ((ssub s a b)))))
(assert (forall ((s Str) (a Int) (b Int) (i Int)) (! (=> (and (<= 0 a) (<= a b) (<= b (slen s)) (<= 0 i) (< i (- b a))) (= (sbyte (ssub s a b) i) (sbyte s (+ a i)))) :pattern ((sbyte (ssub s a b) i)))))
(assert (forall ((s Str) (a Int) (b Int) (i Int)) (! (=> (and (<= 0 a) (<= a i) (< i b) (<= b (slen s))) (= (sbyte s i) (sbyte (ssub s a b) (- i a)))) :pattern ((ssub s a b) (sbyte s i)))))
(assert (forall ((s Str)) (! (= (ssub s 0 (slen s)) s) :pattern ((ssub s 0 (slen s))))))
(assert (forall ((a Str) (b Str)) (! (= (slen (scat a b)) (+ (slen a) (slen b))) :pattern ((scat a b)))))
(assert (forall ((a Str) (b Str) (i Int)) (! (=> (and (<= 0 i) (< i (+ (slen a) (slen b)))) (= (sbyte (scat a b) i) (ite (< i (slen a)) (sbyte a i) (sbyte b (- i (slen a)))))) :pattern ((sbyte (scat a b) i)))))
(declare-fun iface.tag (Iface) Int)
(declare-const iface.nil Iface)
(assert (= (iface.tag iface.nil) 0))
(declare-const func.nil Func)
(declare-datatypes ((Slice 0)) (((mk-slice (s.arr Int) (s.off Int) (s.len Int) (s.cap Int)))))
(define-fun go.div ((a Int) (b Int)) Int (ite (>= a 0) (ite (> b 0) (div a b) (- (div a (- b)))) (ite (> b 0) (- (div (- a) b)) (div (- a) (- b)))))
(define-fun go.rem ((a Int) (b Int)) Int (- a (* b (go.div a b))))
(define-fun go.wrapu ((a Int) (m Int)) Int (mod a m))
(define-fun go.wraps ((a Int) (m Int)) Int (let ((r (mod a m))) (ite (>= (* 2 r) m) (- r m) r)))
`

type Script struct {
	decls    []string
	lines    []string
	declared map[string]bool
}

func NewScript() *Script { return &Script{declared: map[string]bool{}} }

func (s *Script) Decl(key, text string) {
	if s.declared[key] {
		return
	}
	s.declared[key] = true
	s.decls = append(s.decls, text)
}

func (s *Script) Line(text string) { s.lines = append(s.lines, text) }

type Snap struct{ nd, nl int }

func (s *Script) Snap() Snap { return Snap{len(s.decls), len(s.lines)} }

func (s *Script) Render(sn Snap, goal string, extra []string) string {
	var b strings.Builder
	b.WriteString(prelude)
	// decls that appear later may be referenced by earlier lines only if they were declared before those lines;
	// declarations are order-independent among themselves except datatypes, which are emitted in dependency order.
	for _, d := range s.decls[:sn.nd] {
		b.WriteString(d)
		b.WriteByte('\n')
	}
	for _, l := range s.lines[:sn.nl] {
		b.WriteString(l)
		b.WriteByte('\n')
	}
	for _, l := range extra {
		b.WriteString(l)
		b.WriteByte('\n')
	}
	b.WriteString(goal)
	b.WriteString("\n(check-sat)\n")
	return b.String()
}

// ---- term helpers (terms are SMT-LIB strings)

func sAnd(xs ...string) string {
	var ys []string
	for _, x := range xs {
		if x == "true" || x == "" {
			continue
		}
		if x == "false" {
			return "false"
		}
		ys = append(ys, x)
	}
	switch len(ys) {
	case 0:
		return "true"
	case 1:
		return ys[0]
	}
	return "(and " + strings.Join(ys, " ") + ")"
}

func sOr(xs ...string) string {
	var ys []string
	for _, x := range xs {
		if x == "false" || x == "" {
			continue
		}
		if x == "true" {
			return "true"
		}
		ys = append(ys, x)
	}
	switch len(ys) {
	case 0:
		return "false"
	case 1:
		return ys[0]
	}
	return "(or " + strings.Join(ys, " ") + ")"
}

func sNot(x string) string {
	switch x {
	case "true":
		return "false"
	case "false":
		return "true"
	}
	if strings.HasPrefix(x, "(not ") && balancedTail(x[5:len(x)-1]) {
		return x[5 : len(x)-1]
	}
	return "(not " + x + ")"
}

func balancedTail(s string) bool {
	d := 0
	for i := 0; i < len(s); i++ {
		switch s[i] {
		case '(':
			d++
		case ')':
			d--
			if d < 0 {
				return false
			}
		case ' ':
			if d == 0 {
				return false
			}
		}
	}
	return d == 0
}

func sImp(a, b string) string {
	if a == "true" {
		return b
	}
	if a == "false" || b == "true" {
		return "true"
	}
	return "(=> " + a + " " + b + ")"
}

func sIte(c, a, b string) string {
	if c == "true" {
		return a
	}
	if c == "false" {
		return b
	}
	if a == b {
		return a
	}
	return "(ite " + c + " " + a + " " + b + ")"
}

func sEq(a, b string) string {
	if a == b {
		return "true"
	}
	return "(= " + a + " " + b + ")"
}

func sInt(n int64) string {
	if n < 0 {
		return fmt.Sprintf("(- %d)", -n)
	}
	return fmt.Sprintf("%d", n)
}

// ---- solvers

type SolverResult struct {
	Status string // "unsat","sat","unknown","timeout","error"
	Solver string
	Ms     int64
	Output string
}

type solverSpec struct {
	name string
	args func(file string, tsec int, seed int) []string
	bin  string
}

var solverSpecs = []solverSpec{
	{"z3-new", func(f string, t, seed int) []string {
		return []string{fmt.Sprintf("-T:%d", t), fmt.Sprintf("smt.random_seed=%d", seed), fmt.Sprintf("sat.random_seed=%d", seed), f}
	}, "z3-new"},
	{"z3", func(f string, t, seed int) []string {
		return []string{fmt.Sprintf("-T:%d", t), fmt.Sprintf("smt.random_seed=%d", seed), fmt.Sprintf("sat.random_seed=%d", seed), f}
	}, "/usr/bin/z3"},
	{"cvc5", func(f string, t, seed int) []string {
		return []string{fmt.Sprintf("--tlimit=%d", t*1000), fmt.Sprintf("--seed=%d", seed), "--produce-models", f}
	}, "cvc5"},
	{"cvc5-ind", func(f string, t, seed int) []string {
		return []string{fmt.Sprintf("--tlimit=%d", t*1000), fmt.Sprintf("--seed=%d", seed), "--quant-ind", f}
	}, "cvc5"},
}

func runSolver(ctx context.Context, sp solverSpec, file string, tsec, seed int) SolverResult {
	start := time.Now()
	cctx, cancel := context.WithTimeout(ctx, time.Duration(tsec+5)*time.Second)
	defer cancel()
	cmd := exec.CommandContext(cctx, sp.bin, sp.args(file, tsec, seed)...)
	cmd.SysProcAttr = &syscall.SysProcAttr{Setpgid: true}
	cmd.Cancel = func() error {
		if cmd.Process != nil {
			syscall.Kill(-cmd.Process.Pid, syscall.SIGKILL)
		}
		return nil
	}
	var out bytes.Buffer
	cmd.Stdout = &out
	cmd.Stderr = &out
	_ = cmd.Run()
	ms := time.Since(start).Milliseconds()
	o := out.String()
	first := ""
	for _, ln := range strings.Split(o, "\n") {
		ln = strings.TrimSpace(ln)
		if ln == "" || strings.HasPrefix(ln, "WARNING") || strings.HasPrefix(ln, "(warning") {
			continue
		}
		first = ln
		break
	}
	st := "error"
	switch {
	case first == "unsat":
		st = "unsat"
	case first == "sat":
		st = "sat"
	case first == "unknown":
		st = "unknown"
	case strings.Contains(first, "timeout") || cctx.Err() != nil:
		st = "timeout"
	case strings.Contains(o, "interrupted by timeout") || strings.Contains(o, "timeout"):
		st = "timeout"
	}
	if len(o) > 6000 {
		o = o[:6000]
	}
	return SolverResult{Status: st, Solver: sp.name, Ms: ms, Output: o}
}

type SolveOpts struct {
	QuickSec  int
	FullSec   int
	Seed      int
	Dir       string
	Induction bool
}

var solverTime = map[string]int64{}
var solverTimeMu sync.Mutex

// Solve decides one script: z3-new first with a short limit, then all three raced.
func Solve(text string, name string, o SolveOpts) SolverResult {
	file := filepath.Join(o.Dir, sanitizeFile(name)+".smt2")
	_ = os.WriteFile(file, []byte(text), 0o644)
	ctx := context.Background()
	first := solverSpecs[0]
	if o.Induction {
		first = solverSpecs[3]
	}
	r := runSolver(ctx, first, file, o.QuickSec, o.Seed)
	addSolverTime(r)
	if r.Status == "unsat" || r.Status == "sat" {
		return r
	}
	// race
	rctx, cancel := context.WithCancel(ctx)
	defer cancel()
	ch := make(chan SolverResult, 4)
	specs := []solverSpec{solverSpecs[1], solverSpecs[2], solverSpecs[0]}
	if o.Induction {
		specs = []solverSpec{solverSpecs[3], solverSpecs[0]}
	}
	for _, sp := range specs {
		sp := sp
		go func() { ch <- runSolver(rctx, sp, file, o.FullSec, o.Seed) }()
	}
	var results []SolverResult
	var definite *SolverResult
	for range specs {
		x := <-ch
		addSolverTime(x)
		results = append(results, x)
		if x.Status == "unsat" || x.Status == "sat" {
			definite = &x
			cancel()
			break
		}
	}
	if definite != nil {
		return *definite
	}
	best := results[0]
	for _, x := range results {
		if x.Status == "unknown" {
			best = x
		}
	}
	var all []string
	for _, x := range append([]SolverResult{r}, results...) {
		all = append(all, fmt.Sprintf("[%s %s %dms] %s", x.Solver, x.Status, x.Ms, firstLines(x.Output, 3)))
	}
	best.Output = strings.Join(all, "\n")
	return best
}

func addSolverTime(r SolverResult) {
	solverTimeMu.Lock()
	solverTime[r.Solver] += r.Ms
	solverTimeMu.Unlock()
}

func firstLines(s string, n int) string {
	l := strings.Split(strings.TrimSpace(s), "\n")
	if len(l) > n {
		l = l[:n]
	}
	return strings.Join(l, " | ")
}

func sanitizeFile(s string) string {
	var b strings.Builder
	for _, c := range s {
		if c >= 'a' && c <= 'z' || c >= 'A' && c <= 'Z' || c >= '0' && c <= '9' || c == '.' || c == '-' || c == '_' || c == '#' {
			b.WriteRune(c)
		} else {
			b.WriteByte('_')
		}
	}
	r := b.String()
	if len(r) > 150 {
		r = r[:150]
	}
	return r
}
