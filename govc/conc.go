package main

// Concurrency layer (DESIGN.md 3.7): held-lock sets, guarded-by, lock invariants, lock levels,
// once/atomics as single operations, abstract channel operations; site assertions.

import (
	"fmt"
	"go/token"
	"go/types"
	"strconv"
	"strings"

	"golang.org/x/tools/go/ssa"
)

func isLockCall(fn *ssa.Function) bool {
	s := fn.String()
	switch s {
	case "(*sync.Mutex).Lock", "(*sync.Mutex).Unlock", "(*sync.RWMutex).Lock", "(*sync.RWMutex).Unlock",
		"(*sync.RWMutex).RLock", "(*sync.RWMutex).RUnlock", "(*sync.Mutex).TryLock":
		return true
	}
	return false
}

// lockKey names a lock by the object it lives in and its field path: "<base term>|Type.field".
func (e *Engine) lockKey(f *Frame, v ssa.Value) (key string, class string, base string, baseT types.Type, ok bool) {
	var path []string
	cur := v
	for {
		fa, isFA := cur.(*ssa.FieldAddr)
		if !isFA {
			break
		}
		st := fa.X.Type().Underlying().(*types.Pointer).Elem().Underlying().(*types.Struct)
		path = append([]string{st.Field(fa.Field).Name()}, path...)
		cur = fa.X
	}
	bv := f.val(cur)
	pt, isPtr := cur.Type().Underlying().(*types.Pointer)
	if !isPtr {
		return "", "", "", nil, false
	}
	baseT = pt.Elem()
	tn := typeName(baseT)
	if bv.Loc != nil && bv.Loc.Kind == LGlobal {
		base = "G." + bv.Loc.Global.Name()
		tn = "global." + bv.Loc.Global.Name()
	} else if p, ok2 := e.ptrTerm(bv); ok2 {
		base = p
	} else if bv.Loc != nil && bv.Loc.Kind == LCell {
		base = "cell." + bv.Loc.Cell.Name()
	} else {
		return "", "", "", nil, false
	}
	if len(path) == 0 {
		// pointer to a bare mutex
		class = tn
	} else {
		class = tn + "." + strings.Join(path, ".")
	}
	return base + "|" + class, class, base, baseT, true
}

func typeName(t types.Type) string {
	if p, ok := t.(*types.Pointer); ok {
		t = p.Elem()
	}
	if n, ok := t.(*types.Named); ok {
		return n.Obj().Name()
	}
	return shortType(t)
}

func (e *Engine) lockModel(f *Frame, st *State, callee *ssa.Function, cc *ssa.CallCommon, args []Val, pos token.Pos) (Val, bool) {
	s := callee.String()
	if !isLockCall(callee) {
		switch s {
		case "(*sync.Once).Do":
			return e.onceDo(f, st, cc, args, pos), true
		case "(*sync.WaitGroup).Add", "(*sync.WaitGroup).Done", "(*sync.WaitGroup).Wait":
			e.assumed["sync.WaitGroup operations are not modelled (no join reasoning)"] = true
			return Val{T: types.NewTuple()}, true
		}
		if strings.HasPrefix(s, "(*sync/atomic.") {
			// site "call Load#k" / "call Store#k" / ...: assertions about what is published through an atomic cell
			e.siteCall(f, st, callee.Name(), args, pos)
			return e.atomicModel(f, st, callee, cc, args, pos)
		}
		return Val{}, false
	}
	key, class, base, baseT, ok := e.lockKey(f, cc.Args[0])
	if !ok {
		e.note("lock operation on an untracked lock in %s", funcKey(f.fn))
		return Val{T: types.NewTuple()}, true
	}
	e.assumed["sync.Mutex/RWMutex provide mutual exclusion"] = true
	e.lockOps = true
	switch {
	case strings.HasSuffix(s, ".Lock") || strings.HasSuffix(s, ".RLock"):
		// site "call Lock#k" / "call RLock#k": assertions about the state in which a critical section is entered
		e.siteCall(f, st, callee.Name(), args, pos)
		if st.locks[key] {
			e.ob(f, "lock.reentrant", "lock "+class+" acquired while already held (self-deadlock)", st.cond, "false", pos)
		}
		e.lockLevelCheck(f, st, class, pos)
		st.locks[key] = true
		if f.parent == nil || true {
			if e.acquired == nil {
				e.acquired = map[string]bool{}
			}
			e.acquired[key] = true
		}
		e.lockAcquire(f, st, key, class, base, baseT, pos)
	case strings.HasSuffix(s, ".Unlock") || strings.HasSuffix(s, ".RUnlock"):
		if !st.locks[key] {
			e.ob(f, "lock.unheld", "unlock of "+class+" which is not held", st.cond, "false", pos)
		}
		e.lockRelease(f, st, key, class, base, baseT, pos)
		delete(st.locks, key)
	}
	return Val{T: types.NewTuple()}, true
}

func (e *Engine) findGuarded(tn string) []*GuardedBy {
	var out []*GuardedBy
	for _, cf := range e.P.Contracts {
		for _, g := range cf.Guarded {
			if g.Type == tn {
				out = append(out, g)
			}
		}
	}
	return out
}

func (e *Engine) findLockInvs(tn, lock string) []*LockInv {
	var out []*LockInv
	for _, cf := range e.P.Contracts {
		for _, li := range cf.LockInvs {
			if li.Type == tn && li.Lock == lock {
				out = append(out, li)
			}
		}
	}
	return out
}

func splitClass(class string) (tn, lock string) {
	if i := strings.Index(class, "."); i >= 0 {
		return class[:i], class[i+1:]
	}
	return class, ""
}

func (e *Engine) findLockRelys(tn, lock string) []*LockInv {
	var out []*LockInv
	for _, cf := range e.P.Contracts {
		for _, li := range cf.LockRelys {
			if li.Type == tn && li.Lock == lock {
				out = append(out, li)
			}
		}
	}
	return out
}

// isOwner: the function under verification belongs to the owner thread of a rely clause.
func (e *Engine) isOwner(li *LockInv) bool {
	if e.top == nil {
		return false
	}
	k := funcKey(e.top)
	for _, o := range li.Owners {
		if k == o || strings.HasSuffix(k, "."+o) || strings.HasPrefix(k, o+"$") || strings.Contains(k, "."+o+"$") {
			return true
		}
	}
	return false
}

func (e *Engine) lockAcquire(f *Frame, st *State, key, class, base string, baseT types.Type, pos token.Pos) {
	tn, lock := splitClass(class)
	again := e.lockedOnce[key]
	e.lockedOnce[key] = true
	// an acquisition inside a loop is a re-acquisition in every iteration but the first: the state the loop invariant
	// describes at the loop head is this thread's view from its previous critical section, not the state found under the lock
	if len(f.loopOf[e.curBlock]) > 0 && f.parent == nil {
		again = true
	}
	stt, isStruct := baseT.Underlying().(*types.Struct)
	var before *State
	if again {
		before = st.clone()
	}
	defer func() {
		relys := e.findLockRelys(tn, lock)
		if len(relys) == 0 {
			return
		}
		if e.lockSnap == nil {
			e.lockSnap = map[string]*State{}
		}
		// for the guarantee check at the matching unlock
		e.lockSnap[key] = st.clone()
		if before == nil {
			return
		}
		for _, li := range relys {
			if !e.isOwner(li) {
				continue
			}
			ctx := f.evalCtx(st, nil)
			ctx.noLocals = true
			ctx.old = before
			ctx.binds["self"] = Val{T: types.NewPointer(baseT), S: base}
			g, err := e.evalBool(ctx, li.E)
			if err != nil {
				e.bindError("lockrely "+class, err)
				continue
			}
			e.assume(st.cond, g)
			e.assumed["lockrely "+class+": the owner functions ("+strings.Join(li.Owners, ", ")+") run in one goroutine, one after the other; the relation is reflexive and transitive (by inspection)"] = true
		}
	}()
	if again && isStruct && !strings.HasPrefix(base, "G.") && !strings.HasPrefix(base, "cell.") {
		// re-acquisition: other threads may have run critical sections in between - guarded state is arbitrary
		for _, g := range e.findGuarded(tn) {
			if g.Lock != lock {
				continue
			}
			srt := e.sortOf(baseT)
			old := fmt.Sprintf("(select %s %s)", e.getHeapP(st, srt), base)
			var fs []string
			for i := 0; i < stt.NumFields(); i++ {
				guarded := false
				for _, gf := range g.Fields {
					if gf == stt.Field(i).Name() {
						guarded = true
					}
				}
				if guarded {
					fs = append(fs, e.havocVal(stt.Field(i).Type(), "relock."+stt.Field(i).Name(), st).S)
				} else {
					fs = append(fs, e.fieldSel(baseT, stt, i, old))
				}
			}
			st.heapP[srt] = e.define("hp", e.heapPSort(srt), fmt.Sprintf("(store %s %s %s)", e.getHeapP(st, srt), base, e.mkStruct(baseT, stt, fs)))
		}
		// ghost state named in the lock invariants is arbitrary as well
		for _, li := range e.findLockInvs(tn, lock) {
			for g := range e.ghostDecl {
				if strings.Contains(li.Text, g) {
					st.ghost[g] = e.freshConst("gh."+g, e.ghostDecl[g])
				}
			}
		}
	}
	for _, li := range e.findLockInvs(tn, lock) {
		ctx := f.evalCtx(st, nil)
		ctx.noLocals = true
		ctx.binds["self"] = Val{T: types.NewPointer(baseT), S: base}
		g, err := e.evalBool(ctx, li.E)
		if err != nil {
			e.bindError("lockinv "+class, err)
			continue
		}
		e.assume(st.cond, g)
	}
}

func (e *Engine) lockRelease(f *Frame, st *State, key, class, base string, baseT types.Type, pos token.Pos) {
	tn, lock := splitClass(class)
	// guarantee: a critical section of a function outside the owner thread changes the guarded state only within the rely
	for i, li := range e.findLockRelys(tn, lock) {
		if e.isOwner(li) {
			continue
		}
		snap := e.lockSnap[key]
		if snap == nil {
			continue
		}
		ctx := f.evalCtx(st, nil)
		ctx.noLocals = true
		ctx.old = snap
		ctx.binds["self"] = Val{T: types.NewPointer(baseT), S: base}
		g, err := e.evalBool(ctx, li.E)
		if err != nil {
			e.bindError("lockrely "+class, err)
			continue
		}
		e.ob(f, fmt.Sprintf("lockrely.%s#%d", class, i+1), "critical section of a non-owner stays within the rely: "+li.Text, st.cond, g, pos)
	}
	for i, li := range e.findLockInvs(tn, lock) {
		ctx := f.evalCtx(st, nil)
		ctx.noLocals = true
		ctx.binds["self"] = Val{T: types.NewPointer(baseT), S: base}
		g, err := e.evalBool(ctx, li.E)
		if err != nil {
			e.bindError("lockinv "+class, err)
			continue
		}
		e.ob(f, fmt.Sprintf("lockinv.%s#%d", class, i+1), "lock invariant re-established at unlock: "+li.Text, st.cond, g, pos)
	}
}

func (e *Engine) lockLevels() map[[2]string]bool {
	if e.levels != nil {
		return e.levels
	}
	lv := map[[2]string]bool{}
	for _, cf := range e.P.Contracts {
		for _, p := range cf.LockLevels {
			lv[p] = true
		}
	}
	// transitive closure
	changed := true
	for changed {
		changed = false
		for a := range lv {
			for b := range lv {
				if a[1] == b[0] && !lv[[2]string{a[0], b[1]}] {
					lv[[2]string{a[0], b[1]}] = true
					changed = true
				}
			}
		}
	}
	e.levels = lv
	return lv
}

func (e *Engine) lockLevelCheck(f *Frame, st *State, class string, pos token.Pos) {
	lv := e.lockLevels()
	if len(lv) == 0 {
		return
	}
	for k := range st.locks {
		held := k[strings.Index(k, "|")+1:]
		if !lv[[2]string{held, class}] {
			e.ob(f, "locklevel", fmt.Sprintf("lock order: %s acquired while holding %s, which is not below it in the declared order", class, held), st.cond, "false", pos)
		} else {
			e.ob(f, "locklevel", fmt.Sprintf("lock order: %s < %s", held, class), st.cond, "true", pos)
		}
	}
}

// contractLocksPre: holds/acquires clauses of a callee at a call site.
func (e *Engine) contractLocksPre(f *Frame, st *State, c *Contract, ctx *EvalCtx, pos token.Pos, cname string) {
	for _, h := range c.Holds {
		key, ok := e.lockKeyFromText(ctx, h)
		if !ok {
			e.bindError(c.Key+".holds", fmt.Errorf("cannot resolve lock %s", h))
			continue
		}
		if !st.locks[key] {
			e.ob(f, "call."+cname+".holds", fmt.Sprintf("callee %s requires lock %s to be held", cname, h), st.cond, "false", pos)
		} else {
			e.ob(f, "call."+cname+".holds", fmt.Sprintf("callee %s requires lock %s to be held", cname, h), st.cond, "true", pos)
		}
	}
	for _, a := range c.Acquires {
		// class name given directly: T.mu
		key, ok := e.lockKeyFromText(ctx, a)
		class := a
		if ok {
			class = key[strings.Index(key, "|")+1:]
			// the callee runs a critical section of its own: a later Lock() here is a re-acquisition
			e.lockedOnce[key] = true
			if st.locks[key] {
				e.ob(f, "lock.reentrant", "callee "+cname+" acquires "+class+" which is already held (self-deadlock)", st.cond, "false", pos)
			}
		}
		e.lockLevelCheck(f, st, class, pos)
	}
}

func (e *Engine) contractLocksPost(f *Frame, st *State, c *Contract, ctx *EvalCtx, pos token.Pos) {
	for _, r := range c.Releases {
		if key, ok := e.lockKeyFromText(ctx, r); ok {
			delete(st.locks, key)
		}
	}
}

// lockKeyFromText resolves "recv.mu" (a parameter-rooted path) to a lock key.
func (e *Engine) lockKeyFromText(ctx *EvalCtx, text string) (string, bool) {
	parts := strings.Split(text, ".")
	if len(parts) < 2 {
		return "", false
	}
	x, err := parseExpr(parts[0])
	if err != nil {
		return "", false
	}
	v, err := e.eval(ctx, x)
	if err != nil || v.T == nil {
		return "", false
	}
	pt, ok := e.ptrTerm(v)
	if !ok {
		return "", false
	}
	return pt + "|" + typeName(v.T) + "." + strings.Join(parts[1:], "."), true
}

func (e *Engine) lockKeyFromSpec(ctx *EvalCtx, x *Expr) string {
	k, ok := e.lockKeyFromText(ctx, x.String())
	if !ok {
		return x.String()
	}
	return k
}

// guardCheck: a guarded field may only be accessed with its lock held.
func (e *Engine) guardCheck(f *Frame, st *State, l *Loc, write bool, pos token.Pos) {
	if l.Kind != LHeap || len(l.Path) == 0 || l.Path[0].Field < 0 {
		return
	}
	if e.freshObjs[l.Base] {
		e.assumed["guarded_by: fields of an object allocated by the function under verification may be accessed without its lock (initialisation before sharing; publication is not tracked)"] = true
		return
	}
	tn := typeName(l.RootT)
	fname := l.Path[0].ST.Field(l.Path[0].Field).Name()
	for _, g := range e.findGuarded(tn) {
		for _, gf := range g.Fields {
			if gf != fname {
				continue
			}
			key := l.Base + "|" + tn + "." + g.Lock
			acc := "read"
			if write {
				acc = "write"
			}
			desc := fmt.Sprintf("%s of %s.%s only with %s.%s held", acc, tn, fname, tn, g.Lock)
			if st.locks[key] {
				e.ob(f, "guarded_by."+tn+"."+fname, desc, st.cond, "true", pos)
			} else {
				e.ob(f, "guarded_by."+tn+"."+fname, desc, st.cond, "false", pos)
			}
		}
	}
}

func (e *Engine) guardCheckMap(f *Frame, st *State, mv ssa.Value, write bool, pos token.Pos) {
	if u, ok := mv.(*ssa.UnOp); ok && u.Op == token.MUL {
		if fa, ok := u.X.(*ssa.FieldAddr); ok {
			v := f.val(fa)
			if v.Loc != nil {
				e.guardCheck(f, st, v.Loc, write, pos)
			}
		}
	}
}

// ---- sync.Once: ghost "done" flag per Once object; Do(f) runs f at most once over all calls.
func (e *Engine) onceDo(f *Frame, st *State, cc *ssa.CallCommon, args []Val, pos token.Pos) Val {
	e.siteCall(f, st, "Once.Do", args, pos)
	e.assumed["sync.Once runs its function at most once and returns after it completed"] = true
	key, class, _, _, ok := e.lockKey(f, cc.Args[0])
	_ = class
	fv := args[1]
	if !ok || fv.Fn == nil {
		e.note("sync.Once.Do with an untracked Once or unknown function in %s: body not followed", funcKey(f.fn))
		return Val{T: types.NewTuple()}
	}
	gname := "once." + key
	e.ghostDecl[gname] = "Bool"
	done, _ := e.getGhost(st, gname)
	// branch: if !done { run f; done = true }
	run := st.clone()
	run.cond = e.define("c", "Bool", sAnd(st.cond, sNot(done)))
	sub := e.newFrame(fv.Fn.Fn, f)
	sub.freeVars = fv.Fn.Bindings
	sub.contract = e.P.ContractFor(fv.Fn.Fn)
	rst, _ := sub.run(run, nil)
	rst.ghost[gname] = "true"
	skip := st.clone()
	skip.cond = e.define("c", "Bool", sAnd(st.cond, done))
	var m *State
	if rst.dead || rst.cond == "false" {
		m = skip
	} else {
		m = e.mergeStates([]*State{rst, skip})
	}
	m.cond = st.cond
	*st = *m
	return Val{T: types.NewTuple()}
}

// atomics: single sequentially-consistent operations on a cell.
func (e *Engine) atomicModel(f *Frame, st *State, callee *ssa.Function, cc *ssa.CallCommon, args []Val, pos token.Pos) (Val, bool) {
	s := callee.String()
	e.assumed["sync/atomic operations are sequentially consistent single steps"] = true
	rt := callee.Signature.Results()
	var res types.Type = types.NewTuple()
	if rt.Len() == 1 {
		res = rt.At(0).Type()
	}
	l := e.locOf(f, args[0])
	// model atomic.Bool / Int32 / ... by their inner value field "v"
	cellLoc := func() *Loc {
		if l == nil {
			return nil
		}
		t := locType(l)
		stt, ok := t.Underlying().(*types.Struct)
		if !ok {
			return nil
		}
		for i := 0; i < stt.NumFields(); i++ {
			if stt.Field(i).Name() == "v" {
				nl := *l
				nl.Path = append(append([]PathElem{}, l.Path...), PathElem{Field: i, ST: stt, STyp: t})
				return &nl
			}
		}
		return nil
	}
	switch {
	case strings.Contains(s, "atomic.Pointer[") && strings.Contains(s, "]).Load"):
		if cl := cellLoc(); cl != nil {
			v := Val{T: res, S: e.define("aload", "Int", e.load(st, cl))}
			e.assumeTyping(st, v)
			return v, true
		}
	case strings.Contains(s, "atomic.Pointer[") && strings.Contains(s, "]).Store"):
		if cl := cellLoc(); cl != nil {
			pt, ok := e.ptrTerm(args[1])
			if ok {
				e.store(st, cl, pt)
				return Val{T: res}, true
			}
		}
	case strings.HasSuffix(s, "Bool).Load"):
		if cl := cellLoc(); cl != nil {
			return Val{T: res, S: e.define("aload", "Bool", sNot(sEq(e.load(st, cl), e.zero(locType(cl)))))}, true
		}
	case strings.HasSuffix(s, "Bool).Store"):
		if cl := cellLoc(); cl != nil {
			e.store(st, cl, sIte(args[1].S, e.oneOf(locType(cl)), e.zero(locType(cl))))
			return Val{T: res}, true
		}
	case strings.HasSuffix(s, "Bool).CompareAndSwap"):
		if cl := cellLoc(); cl != nil {
			cur := e.define("acur", "Bool", sNot(sEq(e.load(st, cl), e.zero(locType(cl)))))
			ok := e.define("cas", "Bool", sEq(cur, args[1].S))
			e.store(st, cl, sIte(ok, sIte(args[2].S, e.oneOf(locType(cl)), e.zero(locType(cl))), e.load(st, cl)))
			return Val{T: res, S: ok}, true
		}
	case strings.HasSuffix(s, "Bool).Swap"):
		if cl := cellLoc(); cl != nil {
			cur := e.define("acur", "Bool", sNot(sEq(e.load(st, cl), e.zero(locType(cl)))))
			e.store(st, cl, sIte(args[1].S, e.oneOf(locType(cl)), e.zero(locType(cl))))
			return Val{T: res, S: cur}, true
		}
	case strings.HasSuffix(s, ".Add") && !strings.Contains(s, "Pointer") && len(args) == 2:
		// atomic.IntNN / UintNN .Add(delta): one step; the sum is computed like the Go expression v + delta
		if cl := cellLoc(); cl != nil {
			cur := Val{T: locType(cl), S: e.define("acur", e.sortOf(locType(cl)), e.load(st, cl))}
			e.assumeTyping(st, cur)
			sum := e.binop(f, st, token.ADD, cur, args[1], locType(cl), pos)
			e.store(st, cl, sum.S)
			return Val{T: res, S: sum.S}, true
		}
	case strings.HasSuffix(s, ".Swap") && !strings.Contains(s, "Pointer") && !strings.Contains(s, "Value)") && len(args) == 2:
		if cl := cellLoc(); cl != nil {
			cur := Val{T: res, S: e.define("acur", e.sortOf(locType(cl)), e.load(st, cl))}
			e.assumeTyping(st, cur)
			e.store(st, cl, args[1].S)
			return cur, true
		}
	case strings.HasSuffix(s, ".Load") && !strings.Contains(s, "Value)") && !strings.Contains(s, "Pointer"):
		if cl := cellLoc(); cl != nil {
			v := Val{T: res, S: e.define("aload", e.sortOf(res), e.load(st, cl))}
			e.assumeTyping(st, v)
			return v, true
		}
	case strings.HasSuffix(s, ".Store") && !strings.Contains(s, "Value)") && !strings.Contains(s, "Pointer"):
		if cl := cellLoc(); cl != nil {
			e.store(st, cl, args[1].S)
			return Val{T: res}, true
		}
	}
	e.note("atomic operation %s not modelled: result havocked", s)
	return e.havocVal(res, "atomic", st), true
}

func (e *Engine) oneOf(t types.Type) string {
	if b, ok := isInt(t); ok {
		return e.intLit(b, "1")
	}
	return "1"
}

// ---- channels (abstract): receive = arbitrary value; select = nondeterministic choice.

func (f *Frame) execRecv(in *ssa.UnOp, st *State) {
	e := f.e
	e.tick(st)
	e.assumed["channel receives return arbitrary values (no channel-history reasoning)"] = true
	if in.CommaOk {
		tup := in.Type().(*types.Tuple)
		f.set(in, Val{T: in.Type(), Tuple: []Val{e.havocVal(tup.At(0).Type(), "recv", st), e.havocVal(tup.At(1).Type(), "recvok", st)}})
		return
	}
	f.set(in, e.havocVal(in.Type(), "recv", st))
}

func (f *Frame) execSend(in *ssa.Send, st *State) {
	e := f.e
	e.siteCall(f, st, "send", []Val{f.val(in.Chan), f.val(in.X)}, in.Pos())
	e.chanGuard(f, st, in.Chan, in.Pos())
}

func (f *Frame) execSelect(in *ssa.Select, st *State) {
	e := f.e
	e.tick(st)
	e.assumed["select chooses any ready case nondeterministically"] = true
	tup := in.Type().(*types.Tuple)
	idx := e.havocVal(tup.At(0).Type(), "sel", st)
	lo := 0
	if !in.Blocking {
		lo = -1
	}
	if e.mode == "bv" {
		e.assume("true", fmt.Sprintf("(and (bvsle %s %s) (bvslt %s %s))", bvLit(fmt.Sprint(lo), 64), idx.S, idx.S, bvLit(fmt.Sprint(len(in.States)), 64)))
	} else {
		e.assume("true", fmt.Sprintf("(and (<= %s %s) (< %s %d))", sInt(int64(lo)), idx.S, idx.S, len(in.States)))
	}
	vals := []Val{idx, e.havocVal(tup.At(1).Type(), "selok", st)}
	for i := 2; i < tup.Len(); i++ {
		vals = append(vals, e.havocVal(tup.At(i).Type(), "selv", st))
	}
	for i, s := range in.States {
		if s.Dir == types.SendOnly {
			sub := st.clone()
			sub.cond = sAnd(st.cond, sEq(idx.S, e.intLit(types.Typ[types.Int], fmt.Sprint(i))))
			e.siteCall(f, sub, "send", []Val{f.val(s.Chan), f.val(s.Send)}, s.Pos)
			e.chanGuard(f, sub, s.Chan, s.Pos)
			// ghost updates made at the send site take effect exactly when this case is the chosen one
			for g, nv := range sub.ghost {
				ov, _ := e.getGhost(st, g)
				if nv != ov {
					st.ghost[g] = e.define("gh."+g, e.ghostDecl[g], sIte(sEq(idx.S, e.intLit(types.Typ[types.Int], fmt.Sprint(i))), nv, ov))
				}
			}
		}
	}
	// "$sel": the case chosen by the most recent select of the function (-1 = default), readable in site assertions
	if e.mode != "bv" {
		e.ghostDecl["$sel"] = "Int"
		st.ghost["$sel"] = e.define("gh.sel", "Int", idx.S)
	}
	f.set(in, Val{T: in.Type(), Tuple: vals})
}

func (e *Engine) chanGuard(f *Frame, st *State, ch ssa.Value, pos token.Pos) {
	e.guardCheckMap(f, st, ch, true, pos)
}

func (e *Engine) chanClose(f *Frame, st *State, cc *ssa.CallCommon, ch Val, pos token.Pos) {
	e.siteCall(f, st, "close", []Val{ch}, pos)
	e.guardCheckMap(f, st, cc.Args[0], true, pos)
}

func (f *Frame) execGo(in *ssa.Go, st *State) {
	e := f.e
	var args []Val
	for _, a := range in.Call.Args {
		args = append(args, f.val(a))
	}
	name := "go"
	if c := in.Call.StaticCallee(); c != nil {
		name = "go " + funcKey(c)
	}
	e.siteCall(f, st, name, args, in.Pos())
	// a spawned closure of this function: its body is executed from a copy of the current state for its run-time
	// panic obligations only (a panic in any goroutine kills the process); its effects are not merged back
	var fv *FuncVal
	if v := f.val(in.Call.Value); v.Fn != nil {
		fv = v.Fn
	}
	if fv != nil && fv.Fn.Parent() != nil && len(fv.Fn.Blocks) > 0 && f.depth < e.maxInline && !f.onStack(fv.Fn) {
		sub := e.newFrame(fv.Fn, f)
		sub.label = "@go." + funcKey(fv.Fn)
		sub.freeVars = fv.Bindings
		if len(sub.loops) == 0 {
			cp := st.clone()
			cp.locks = map[string]bool{} // a new goroutine holds no locks
			sub.run(cp, args)
		}
	}
}

// ---- site assertions: assert@call NAME#k / assert@store FIELD#k

func (e *Engine) siteMatch(site string, kind, name string, ord int) bool {
	// site: "call NAME#k" | "store NAME#k" ; k may be *
	parts := strings.Fields(site)
	if len(parts) != 2 || parts[0] != kind {
		return false
	}
	nk := parts[1]
	i := strings.LastIndex(nk, "#")
	if i < 0 {
		return nk == name || nk == stripTypeArgs(name)
	}
	if nk[:i] != name && nk[:i] != stripTypeArgs(name) {
		return false
	}
	if o := nk[i+1:]; strings.HasSuffix(o, "+") {
		// "#k+": the k-th site and every later one
		if k, err := strconv.Atoi(strings.TrimSuffix(o, "+")); err == nil {
			return ord >= k
		}
		return false
	}
	return nk[i+1:] == "*" || nk[i+1:] == fmt.Sprint(ord)
}

func (e *Engine) siteCall(f *Frame, st *State, name string, args []Val, pos token.Pos) {
	if f.isSilent() || e.C == nil {
		return
	}
	e.siteOrd["call "+name]++
	ord := e.siteOrd["call "+name]
	e.callLog = append(e.callLog, name)
	for i := range e.C.Sites {
		sc := &e.C.Sites[i]
		if sc.Kind != "assert" && sc.Kind != "ghost" && sc.Kind != "canary" {
			continue
		}
		if !e.siteMatch(sc.Site, "call", name, ord) {
			continue
		}
		e.siteHit[sc.Site]++
		ctx := e.siteCtx(f, st)
		for k, a := range args {
			ctx.binds[fmt.Sprintf("$arg%d", k)] = a
		}
		e.siteEval(f, st, sc, ctx, pos, fmt.Sprintf("call %s#%d", name, ord))
	}
}

func (e *Engine) siteCtx(f *Frame, st *State) *EvalCtx {
	top := f
	for top.parent != nil {
		top = top.parent
	}
	ctx := top.evalCtx(st, nil)
	if f == top {
		// names resolve at the current block
		ctx.at = e.curBlock
		// innermost loop containing the site: $k is the index of the current iteration of a range-index loop
		var inner *Loop
		for _, l := range top.loopOf[e.curBlock] {
			if inner == nil || len(l.Blocks) < len(inner.Blocks) {
				inner = l
			}
		}
		if inner != nil && inner.Header != e.curBlock {
			ctx.siteLoop = inner
		}
	} else {
		ctx.noLocals = false
		ctx.at = nil
	}
	return ctx
}

func (e *Engine) siteEval(f *Frame, st *State, sc *SiteClause, ctx *EvalCtx, pos token.Pos, where string) {
	if sc.Kind == "ghost" {
		v, err := e.eval(ctx, sc.Clause.E)
		if err != nil {
			e.bindError(e.fname+".ghost@"+sc.Site, err)
			return
		}
		if _, ok := e.ghostDecl[sc.Var]; ok {
			st.ghost[sc.Var] = e.define("gh."+sc.Var, e.ghostDecl[sc.Var], v.S)
		}
		return
	}
	g, err := e.evalBool(ctx, sc.Clause.E)
	if err != nil {
		e.bindError(e.fname+".assert@"+sc.Site, err)
		return
	}
	if sc.Kind == "canary" {
		// expected to be refuted while the known finding exists; never part of the verdict
		if e.knownActive[sc.Var] {
			o := e.ob(f, "canary@"+strings.ReplaceAll(sc.Site, " ", "_"), "known finding "+sc.Var+" (expected to be refuted) at "+where+": "+sc.Clause.Text, st.cond, g, pos)
			o.Canary = true
			o.KnownID = sc.Var
		}
		return
	}
	e.ob(f, "assert@"+strings.ReplaceAll(sc.Site, " ", "_"), "assertion at "+where+": "+sc.Clause.Text, st.cond, g, pos)
}

func (e *Engine) siteAsserts(f *Frame, st *State, kind string, l *Loc, v Val, pos token.Pos) {
	if f.isSilent() || e.C == nil || len(e.C.Sites) == 0 {
		return
	}
	name := ""
	if len(l.Path) > 0 && l.Path[0].Field >= 0 {
		name = l.Path[0].ST.Field(l.Path[0].Field).Name()
	} else if l.Kind == LElem {
		name = "elem"
	} else if l.Kind == LCell {
		name = l.Cell.Comment
	} else if e.storeAllocName != "" && len(l.Path) == 0 {
		// a local variable that lives in a heap cell (captured by a closure): the variable's name
		name = e.storeAllocName
	}
	if l.Kind == LElem && l.Note == "" {
		name = "elem"
		// a field of a slice element (dpts[i].Count, dpts[i].PositiveBucket.Offset): the innermost field's name
		if n := len(l.Path); n > 0 && l.Path[n-1].Field >= 0 {
			name = l.Path[n-1].ST.Field(l.Path[n-1].Field).Name()
		}
	}
	e.siteOrd[kind+" "+name]++
	ord := e.siteOrd[kind+" "+name]
	for i := range e.C.Sites {
		sc := &e.C.Sites[i]
		if sc.Kind != "assert" && sc.Kind != "ghost" && sc.Kind != "canary" {
			continue
		}
		if !e.siteMatch(sc.Site, kind, name, ord) {
			continue
		}
		e.siteHit[sc.Site]++
		ctx := e.siteCtx(f, st)
		ctx.binds["$val"] = v
		if l.Kind == LElem {
			ctx.binds["$arr"] = Val{S: l.Base, Sort: "Int"}
			ctx.binds["$idx"] = Val{S: l.Idx, Sort: "Int"}
		}
		e.siteEval(f, st, sc, ctx, pos, fmt.Sprintf("%s %s#%d", kind, name, ord))
	}
}

func (e *Engine) mapIterKey(f *Frame, rng *ssa.Range, k, idx, ok string) {}

// ---- type invariants

func (e *Engine) typeInvFor(t types.Type) (*TypeInv, types.Type) {
	tt := t
	if p, ok := t.(*types.Pointer); ok {
		tt = p.Elem()
	}
	n, ok := tt.(*types.Named)
	if !ok || n.Obj().Pkg() == nil {
		return nil, nil
	}
	cf := e.P.Contracts[n.Obj().Pkg().Path()]
	if cf == nil {
		return nil, nil
	}
	ti := cf.TypeInvs[n.Obj().Name()]
	if ti == nil {
		return nil, nil
	}
	return ti, tt
}

func (e *Engine) typeInvTerm(st *State, v Val) (string, bool) {
	if v.T == nil || v.S == "" {
		return "", false
	}
	ti, _ := e.typeInvFor(v.T)
	if ti == nil {
		return "", false
	}
	ctx := &EvalCtx{st: st, old: st, binds: map[string]Val{"self": v}, noLocals: true}
	if p := e.P.Pkgs[ti.Pkg]; p != nil {
		ctx.pkg = p.Types
		ctx.cf = e.P.Contracts[ti.Pkg]
	}
	g, err := e.evalBool(ctx, ti.E)
	if err != nil {
		e.bindError("typeinv "+ti.Type, err)
		return "", false
	}
	if _, isPtr := v.T.(*types.Pointer); isPtr {
		g = sImp(sNot(sEq(v.S, "0")), g)
	}
	return g, true
}

func (e *Engine) assumeTypeInv(st *State, v Val) {
	if g, ok := e.typeInvTerm(st, v); ok {
		e.assume(st.cond, g)
	}
}

// siteReturn: assert@return #k (k-th return statement in source order, or *) with $ret0.. bound to the returned values.
func (e *Engine) siteReturn(f *Frame, st *State, in *ssa.Return, vals []Val) {
	if e.C == nil || len(e.C.Sites) == 0 {
		return
	}
	// ordinal by source position
	var rets []*ssa.Return
	if in.Block() == f.fn.Recover {
		return // the synthetic return of the recover block is not a source-level return
	}
	for _, b := range f.fn.Blocks {
		if b == f.fn.Recover {
			continue
		}
		for _, x := range b.Instrs {
			if r, ok := x.(*ssa.Return); ok {
				rets = append(rets, r)
			}
		}
	}
	ord := 1
	for _, r := range rets {
		if r != in && r.Pos() < in.Pos() {
			ord++
		}
	}
	for i := range e.C.Sites {
		sc := &e.C.Sites[i]
		if sc.Kind != "assert" && sc.Kind != "canary" {
			continue
		}
		if !e.siteMatch(sc.Site, "return", "", ord) && sc.Site != fmt.Sprintf("return #%d", ord) && sc.Site != "return #*" && sc.Site != fmt.Sprintf("return#%d", ord) && sc.Site != "return#*" {
			continue
		}
		e.siteHit[sc.Site]++
		ctx := e.siteCtx(f, st)
		for k, v := range vals {
			ctx.binds[fmt.Sprintf("$ret%d", k)] = v
		}
		e.siteEval(f, st, sc, ctx, in.Pos(), fmt.Sprintf("return #%d", ord))
	}
}

// funcFieldStore: a closure stored into a struct field with a declared lock footprint must itself declare (and, being
// under contract, is then checked to take) no other locks than the field's declaration allows.
func (e *Engine) funcFieldStore(f *Frame, st *State, in *ssa.Store, v Val) {
	fa, ok := in.Addr.(*ssa.FieldAddr)
	if !ok {
		return
	}
	pt := fa.X.Type().Underlying().(*types.Pointer).Elem()
	stt := pt.Underlying().(*types.Struct)
	key := typeName(pt) + "." + stt.Field(fa.Field).Name()
	var allowed []string
	declared := false
	for _, cf := range e.P.Contracts {
		if a, ok := cf.FuncFields[key]; ok {
			allowed, declared = a, true
		}
	}
	if !declared {
		return
	}
	if v.Fn != nil && v.Fn.Fn.Synthetic != "" && strings.Contains(v.Fn.Fn.Name(), "$bound") {
		// a method value; of a third-party interface here (the SDK's Registration)
		e.assumed["method values of third-party interfaces stored in "+key+" take none of the lock classes under contract"] = true
		return
	}
	if v.Fn == nil {
		// an unknown function value (e.g. a method value of a third-party interface): its lock footprint is assumed to be
		// disjoint from the SDK-internal lock classes
		e.assumed["function values of third-party origin stored in "+key+" take none of the lock classes under contract"] = true
		return
	}
	c := e.P.ContractFor(v.Fn.Fn)
	goal := "true"
	desc := "closure " + funcKey(v.Fn.Fn) + " stored in " + key + " declares only the lock classes the field allows"
	if c == nil {
		goal = "false"
		desc = "closure " + funcKey(v.Fn.Fn) + " stored in " + key + " has no contract declaring its locks"
	} else {
		for _, a := range c.Acquires {
			okc := false
			for _, al := range allowed {
				if al == a {
					okc = true
				}
			}
			if !okc {
				goal = "false"
			}
		}
	}
	e.ob(f, "funcfield."+key, desc, st.cond, goal, in.Pos())
}
