package main

// Values, sorts, symbolic state (DESIGN.md 3.3).

import (
	"fmt"
	"go/types"
	"sort"
	"strconv"
	"strings"

	"golang.org/x/tools/go/ssa"
)

const (
	LCell = iota
	LHeap
	LElem
	LGlobal
	LChoice // one of several locations, selected by path conditions (a pointer merged at a join)
)

type LocAlt struct {
	Cond string
	L    *Loc
}

type PathElem struct {
	Field int          // >= 0: struct field
	ST    *types.Struct // struct type the field belongs to
	STyp  types.Type    // the (named) struct type
	Idx   string        // Field < 0: array index term
	AT    types.Type    // array type
}

type Loc struct {
	Kind   int
	Cell   *ssa.Alloc
	CellFr *Frame
	Global *ssa.Global
	Base   string     // LHeap: pointer term; LElem: backing array id
	Idx    string     // LElem: absolute index
	RootT  types.Type // type of root object
	Path   []PathElem
	Note   string
	Alts   []LocAlt // LChoice
}

type FuncVal struct {
	Fn       *ssa.Function
	Bindings []Val
}

type Val struct {
	T     types.Type
	S     string
	Sort  string // when T == nil
	Loc   *Loc
	Tuple []Val
	Fn    *FuncVal
	Untyped bool // untyped constant (spec literal): adapts to the other operand
}

type Obligation struct {
	Name    string
	Func    string
	Kind    string
	Desc    string
	Pos     string
	snap    Snap
	sc      *Script
	goal    string
	extra   []string
	Result  SolverResult
	Bounded bool
	Canary  bool   // expected to be refuted (known finding class)
	KnownID string
	Inputs  []InputSym
	Induct  bool
	Text    string
	Cross    string // thorough tier: "<solver>:<status>" of the independent second solver
	Unstable string // thorough tier: did not discharge again under another seed
}

type InputSym struct {
	Name string
	Type string // Go type string
	Term string
	Kind string // "int","bool","string","slice","float","other"
}

type Engine struct {
	P       *Program
	top     *ssa.Function
	C       *Contract
	CF      *ContractFile
	sc      *Script
	obls    []*Obligation
	mode    string
	n       int
	notes   map[string]bool
	assumed map[string]bool
	tags    map[string]int
	tagTypes []types.Type
	strlits map[string]string
	structs map[string]*types.Struct
	fname   string
	ordinals map[string]int
	inputs  []InputSym
	extraAssume []string // assumptions prepended (known-finding class splits)
	overflowAssumed int
	rangeObls int
	errs    []string
	maxInline int
	lemmasUsed map[string]bool
	ghostDecl map[string]string
	callLog  []string
	curFrame *Frame
	bounded bool
	instTag string
	mapSorts map[string][2]string
	usedPure, usedModels, usedContracts, unmodelled map[string]bool
	ginfo map[*ssa.Global]*gInfo
	lockedOnce, freshObjs map[string]bool
	lockSnap              map[string]*State // state right after the last acquisition of a lock (lockrely guarantee)
	levels map[[2]string]bool
	siteOrd, siteHit map[string]int
	storeAllocName   string // name of the heap-allocated local a store instruction writes (site naming)
	curBindings      []Val  // bindings of the closure whose contract is being applied at a call (names of captured variables)
	curBindFrame     *Frame
	curBlock *ssa.BasicBlock
	lastCut string
	frexp [][3]string
	lockOps bool
	sortSrc string
	skippedPanics int
	matBack map[string]*Loc
	matNew  []matEntry // interior pointers materialised for the calls in progress (copy-out after the call)
	runesFlag int
	acquired map[string]bool
	knownActive map[string]bool
	stableLoads map[string]string
}

func (e *Engine) note(f string, a ...any) {
	e.notes[fmt.Sprintf(f, a...)] = true
}

func (e *Engine) fresh(prefix string) string {
	e.n++
	return fmt.Sprintf("%s!%d", sanitizeSym(prefix), e.n)
}

func sanitizeSym(s string) string {
	var b strings.Builder
	for _, c := range s {
		if c >= 'a' && c <= 'z' || c >= 'A' && c <= 'Z' || c >= '0' && c <= '9' || c == '_' || c == '.' || c == '!' || c == '$' {
			b.WriteRune(c)
		} else {
			b.WriteByte('_')
		}
	}
	return b.String()
}

// declare a fresh constant of the given sort
func (e *Engine) freshConst(prefix, sort string) string {
	n := e.fresh(prefix)
	e.sc.Line(fmt.Sprintf("(declare-const %s %s)", n, sort))
	return n
}

// define names a term (keeps scripts linear in size)
func (e *Engine) define(prefix, sort, term string) string {
	if len(term) < 24 && !strings.Contains(term, " ") {
		return term
	}
	if hasBound(term) {
		return term
	}
	n := e.fresh(prefix)
	e.sc.Line(fmt.Sprintf("(define-fun %s () %s %s)", n, sort, term))
	return n
}

func (e *Engine) assume(cond, fact string) {
	if fact == "true" || fact == "" {
		return
	}
	if hasBound(fact) && !strings.HasPrefix(fact, "(forall") {
		// a fact about a quantifier-bound term cannot be asserted at top level: dropped (only weakens)
		if hasFreeBound(fact) {
			return
		}
	}
	e.sc.Line("(assert " + sImp(cond, fact) + ")")
}

// ---- sorts

func (e *Engine) intSort(b *types.Basic) string {
	if e.mode == "bv" {
		return fmt.Sprintf("(_ BitVec %d)", intBits(b))
	}
	return "Int"
}

func intBits(b *types.Basic) int {
	switch b.Kind() {
	case types.Int8, types.Uint8:
		return 8
	case types.Int16, types.Uint16:
		return 16
	case types.Int32, types.Uint32:
		return 32
	}
	return 64
}

func isUnsigned(b *types.Basic) bool { return b.Info()&types.IsUnsigned != 0 }

func intRange(b *types.Basic) (lo, hi string) {
	bits := intBits(b)
	if isUnsigned(b) {
		switch bits {
		case 8:
			return "0", "255"
		case 16:
			return "0", "65535"
		case 32:
			return "0", "4294967295"
		}
		return "0", "18446744073709551615"
	}
	switch bits {
	case 8:
		return "(- 128)", "127"
	case 16:
		return "(- 32768)", "32767"
	case 32:
		return "(- 2147483648)", "2147483647"
	}
	return "(- 9223372036854775808)", "9223372036854775807"
}

func pow2(bits int) string {
	switch bits {
	case 8:
		return "256"
	case 16:
		return "65536"
	case 32:
		return "4294967296"
	}
	return "18446744073709551616"
}

const fp64 = "(_ FloatingPoint 11 53)"
const fp32 = "(_ FloatingPoint 8 24)"

func (e *Engine) sortOf(t types.Type) string {
	switch u := t.Underlying().(type) {
	case *types.Basic:
		switch {
		case u.Info()&types.IsBoolean != 0:
			return "Bool"
		case u.Info()&types.IsInteger != 0:
			return e.intSort(u)
		case u.Kind() == types.Float64 || u.Kind() == types.UntypedFloat:
			return fp64
		case u.Kind() == types.Float32:
			return fp32
		case u.Info()&types.IsString != 0:
			return "Str"
		case u.Kind() == types.UnsafePointer:
			return "Int"
		case u.Kind() == types.UntypedNil:
			return "Int"
		}
		return "Int"
	case *types.Pointer, *types.Map, *types.Chan:
		return "Int"
	case *types.Slice:
		return "Slice"
	case *types.Array:
		return "(Array Int " + e.sortOf(u.Elem()) + ")"
	case *types.Struct:
		return e.structSort(t, u)
	case *types.Interface:
		return "Iface"
	case *types.Signature:
		return "Func"
	case *types.Tuple:
		return "Tuple"
	case *types.TypeParam:
		return "Iface"
	}
	return "Int"
}

func (e *Engine) structName(t types.Type, st *types.Struct) string {
	if n, ok := t.(*types.Named); ok {
		name := n.Obj().Name()
		if n.Obj().Pkg() != nil {
			pp := strings.TrimPrefix(n.Obj().Pkg().Path(), "go.opentelemetry.io/otel/")
			if pp == "go.opentelemetry.io/otel" {
				pp = "otel"
			}
			name = strings.ReplaceAll(pp, "/", "_") + "." + name
		}
		if n.TypeArgs() != nil && n.TypeArgs().Len() > 0 {
			for i := 0; i < n.TypeArgs().Len(); i++ {
				name += "_" + shortType(n.TypeArgs().At(i))
			}
		}
		return "S." + sanitizeSym(name)
	}
	if a, ok := t.(*types.Alias); ok {
		return e.structName(types.Unalias(a), st)
	}
	return fmt.Sprintf("S.anon%x", fnv64(st.String())&0xffffff)
}

func (e *Engine) structSort(t types.Type, st *types.Struct) string {
	name := e.structName(t, st)
	if e.sc.declared["sort:"+name] {
		return name
	}
	e.sc.declared["sort:"+name] = true
	if e.mode == "bv" {
		// sorts depend on the mode; names are shared per engine (one mode per engine)
	}
	var fields []string
	for i := 0; i < st.NumFields(); i++ {
		fs := e.sortOf(st.Field(i).Type())
		fields = append(fields, fmt.Sprintf("(%s.%d %s)", name, i, fs))
	}
	e.structs[name] = st
	if len(fields) == 0 {
		e.sc.decls = append(e.sc.decls, fmt.Sprintf("(declare-datatypes ((%s 0)) (((mk-%s))))", name, name))
	} else {
		e.sc.decls = append(e.sc.decls, fmt.Sprintf("(declare-datatypes ((%s 0)) (((mk-%s %s))))", name, name, strings.Join(fields, " ")))
	}
	return name
}

func (e *Engine) fieldSel(t types.Type, st *types.Struct, i int, v string) string {
	name := e.structSort(t, st)
	return fmt.Sprintf("(%s.%d %s)", name, i, v)
}

func (e *Engine) mkStruct(t types.Type, st *types.Struct, fields []string) string {
	name := e.structSort(t, st)
	if len(fields) == 0 {
		return "mk-" + name
	}
	return "(mk-" + name + " " + strings.Join(fields, " ") + ")"
}

func (e *Engine) structUpdate(t types.Type, st *types.Struct, v string, i int, nv string) string {
	var fs []string
	for k := 0; k < st.NumFields(); k++ {
		if k == i {
			fs = append(fs, nv)
		} else {
			fs = append(fs, e.fieldSel(t, st, k, v))
		}
	}
	return e.mkStruct(t, st, fs)
}

func mangle(s string) string {
	r := strings.NewReplacer("(", "", ")", "", " ", "_", ".", "_")
	return r.Replace(s)
}

func (e *Engine) zero(t types.Type) string {
	switch u := t.Underlying().(type) {
	case *types.Basic:
		switch {
		case u.Info()&types.IsBoolean != 0:
			return "false"
		case u.Info()&types.IsInteger != 0:
			return e.intLit(u, "0")
		case u.Kind() == types.Float64:
			return "(_ +zero 11 53)"
		case u.Kind() == types.Float32:
			return "(_ +zero 8 24)"
		case u.Info()&types.IsString != 0:
			return "str.empty"
		}
		return "0"
	case *types.Pointer, *types.Map, *types.Chan:
		return "0"
	case *types.Slice:
		return "(mk-slice 0 0 0 0)"
	case *types.Array:
		return e.constArray(e.sortOf(u.Elem()), e.zero(u.Elem()))
	case *types.Struct:
		var fs []string
		for i := 0; i < u.NumFields(); i++ {
			fs = append(fs, e.zero(u.Field(i).Type()))
		}
		return e.mkStruct(t, u, fs)
	case *types.Interface:
		return "iface.nil"
	case *types.Signature:
		return "func.nil"
	}
	return "0"
}

func (e *Engine) intLit(b *types.Basic, dec string) string {
	if e.mode == "bv" {
		return bvLit(dec, intBits(b))
	}
	if strings.HasPrefix(dec, "-") {
		return "(- " + dec[1:] + ")"
	}
	return dec
}

func bvLit(dec string, bits int) string {
	neg := strings.HasPrefix(dec, "-")
	if neg {
		return fmt.Sprintf("(bvneg (_ bv%s %d))", dec[1:], bits)
	}
	return fmt.Sprintf("(_ bv%s %d)", dec, bits)
}

// typing facts for a value of Go type t (assumed for values entering from outside)
func (e *Engine) typingFact(t types.Type, v string, wm string) string {
	switch u := t.Underlying().(type) {
	case *types.Basic:
		if u.Info()&types.IsInteger != 0 && e.mode != "bv" {
			lo, hi := intRange(u)
			return fmt.Sprintf("(and (<= %s %s) (<= %s %s))", lo, v, v, hi)
		}
	case *types.Pointer, *types.Map, *types.Chan:
		if wm != "" {
			return fmt.Sprintf("(and (<= 0 %s) (<= %s %s))", v, v, wm)
		}
		return fmt.Sprintf("(<= 0 %s)", v)
	case *types.Slice:
		f := fmt.Sprintf("(and (<= 0 (s.off %s)) (<= 0 (s.len %s)) (<= (s.len %s) (s.cap %s)) (<= 0 (s.arr %s)) (<= (s.cap %s) 4611686018427387904) (=> (= (s.arr %s) 0) (= (s.cap %s) 0))", v, v, v, v, v, v, v, v)
		if wm != "" {
			f += fmt.Sprintf(" (<= (s.arr %s) %s)", v, wm)
		}
		return f + ")"
	case *types.Struct:
		var fs []string
		for i := 0; i < u.NumFields(); i++ {
			ft := u.Field(i).Type()
			switch ft.Underlying().(type) {
			case *types.Basic, *types.Pointer, *types.Slice, *types.Map, *types.Chan, *types.Struct:
				f := e.typingFact(ft, e.fieldSel(t, u, i, v), wm)
				if f != "" && f != "true" {
					fs = append(fs, f)
				}
			}
		}
		return sAnd(fs...)
	}
	return "true"
}

// ---- state

type State struct {
	cond    string
	cells   map[*ssa.Alloc]string
	heapP   map[string]string // sort -> (Array Int sort)
	heapA   map[string]string // elem sort -> (Array Int (Array Int sort))
	mapD    map[string]string // map key -> (Array Int (Array K Bool))
	mapV    map[string]string
	mapN    map[string]string // (Array Int Int)
	globals map[*ssa.Global]string
	iters   map[*ssa.Range]string
	visited map[*ssa.Range]string // range-over-map: set of keys visited so far, (Array K Bool)
	ghost   map[string]string
	wm      string
	locks   map[string]bool
	dead    bool
}

func (s *State) clone() *State {
	n := &State{cond: s.cond, wm: s.wm, dead: s.dead}
	n.cells = cloneMap(s.cells)
	n.heapP = cloneMap(s.heapP)
	n.heapA = cloneMap(s.heapA)
	n.mapD = cloneMap(s.mapD)
	n.mapV = cloneMap(s.mapV)
	n.mapN = cloneMap(s.mapN)
	n.globals = cloneMap(s.globals)
	n.iters = cloneMap(s.iters)
	n.visited = cloneMap(s.visited)
	n.ghost = cloneMap(s.ghost)
	n.locks = cloneMap(s.locks)
	return n
}

func cloneMap[K comparable, V any](m map[K]V) map[K]V {
	n := make(map[K]V, len(m)+1)
	for k, v := range m {
		n[k] = v
	}
	return n
}

func newState() *State {
	return &State{cond: "true", cells: map[*ssa.Alloc]string{}, heapP: map[string]string{}, heapA: map[string]string{},
		mapD: map[string]string{}, mapV: map[string]string{}, mapN: map[string]string{}, globals: map[*ssa.Global]string{},
		iters: map[*ssa.Range]string{}, visited: map[*ssa.Range]string{}, ghost: map[string]string{}, locks: map[string]bool{}, wm: "wm0"}
}

func (e *Engine) heapPSort(sort string) string { return "(Array Int " + sort + ")" }
func (e *Engine) heapASort(sort string) string { return "(Array Int (Array Int " + sort + "))" }

func (e *Engine) getHeapP(st *State, sort string) string {
	if h, ok := st.heapP[sort]; ok {
		return h
	}
	name := "HP0." + mangle(sort)
	e.sc.Decl("const:"+name, fmt.Sprintf("(declare-const %s %s)", name, e.heapPSort(sort)))
	return name
}

func (e *Engine) getHeapA(st *State, sort string) string {
	if h, ok := st.heapA[sort]; ok {
		return h
	}
	name := "HA0." + mangle(sort)
	e.sc.Decl("const:"+name, fmt.Sprintf("(declare-const %s %s)", name, e.heapASort(sort)))
	return name
}

func (e *Engine) mapKey(mt *types.Map) string {
	k := mangle(e.sortOf(mt.Key())) + "__" + mangle(e.sortOf(mt.Elem()))
	if _, ok := e.mapSorts[k]; !ok {
		ks, vs := e.sortOf(mt.Key()), e.sortOf(mt.Elem())
		e.mapSorts[k] = [2]string{"(Array Int (Array " + ks + " Bool))", "(Array Int (Array " + ks + " " + vs + "))"}
		e.sc.Decl("const:MD0."+k, fmt.Sprintf("(declare-const MD0.%s (Array Int (Array %s Bool)))", k, ks))
		e.sc.Decl("const:MV0."+k, fmt.Sprintf("(declare-const MV0.%s (Array Int (Array %s %s)))", k, ks, vs))
		e.sc.Decl("const:MN0."+k, fmt.Sprintf("(declare-const MN0.%s (Array Int Int))", k))
		e.sc.Decl("ax:MN0."+k, fmt.Sprintf("(assert (forall ((m Int)) (! (>= (select MN0.%s m) 0) :pattern ((select MN0.%s m)))))", k, k))
	}
	return k
}

func (e *Engine) getMapD(st *State, mt *types.Map) string {
	k := e.mapKey(mt)
	if h, ok := st.mapD[k]; ok {
		return h
	}
	name := "MD0." + k
	e.sc.Decl("const:"+name, fmt.Sprintf("(declare-const %s (Array Int (Array %s Bool)))", name, e.sortOf(mt.Key())))
	return name
}
func (e *Engine) getMapV(st *State, mt *types.Map) string {
	k := e.mapKey(mt)
	if h, ok := st.mapV[k]; ok {
		return h
	}
	name := "MV0." + k
	e.sc.Decl("const:"+name, fmt.Sprintf("(declare-const %s (Array Int (Array %s %s)))", name, e.sortOf(mt.Key()), e.sortOf(mt.Elem())))
	return name
}
func (e *Engine) getMapN(st *State, mt *types.Map) string {
	k := e.mapKey(mt)
	if h, ok := st.mapN[k]; ok {
		return h
	}
	name := "MN0." + k
	e.sc.Decl("const:"+name, fmt.Sprintf("(declare-const %s (Array Int Int))", name))
	// sizes are non-negative
	e.sc.Decl("ax:"+name, fmt.Sprintf("(assert (forall ((m Int)) (! (>= (select %s m) 0) :pattern ((select %s m)))))", name, name))
	return name
}

func (e *Engine) getGlobal(st *State, g *ssa.Global) string {
	if v, ok := st.globals[g]; ok {
		return v
	}
	t := g.Type().(*types.Pointer).Elem()
	if gi := e.globalInfo(g); gi != nil && gi.neverStored {
		// a package variable that no function of its package assigns keeps its zero value
		switch t.Underlying().(type) {
		case *types.Array, *types.Basic, *types.Struct:
			return e.zero(t)
		}
	}
	name := "G." + sanitizeSym(g.Pkg.Pkg.Name()+"."+g.Name())
	e.sc.Decl("const:"+name, fmt.Sprintf("(declare-const %s %s)", name, e.sortOf(t)))
	return name
}

func (e *Engine) getGhost(st *State, name string) (string, bool) {
	if v, ok := st.ghost[name]; ok {
		return v, true
	}
	srt, ok := e.ghostDecl[name]
	if !ok {
		return "", false
	}
	n := "GH0." + sanitizeSym(name)
	e.sc.Decl("const:"+n, fmt.Sprintf("(declare-const %s %s)", n, srt))
	return n, true
}

// mergeStates merges states arriving over edges (edge conditions are in st.cond).
func (e *Engine) mergeStates(sts []*State) *State {
	if len(sts) == 1 {
		return sts[0].clone()
	}
	var conds []string
	for _, s := range sts {
		conds = append(conds, s.cond)
	}
	out := newState()
	out.cond = e.define("c", "Bool", sOr(conds...))
	pick := func(get func(s *State) (string, bool), sort string, prefix string) (string, bool) {
		// all equal?
		var terms []string
		any := false
		for _, s := range sts {
			t, ok := get(s)
			if ok {
				any = true
			}
			terms = append(terms, t)
		}
		if !any {
			return "", false
		}
		// fill absent with first present
		first := ""
		for _, t := range terms {
			if t != "" {
				first = t
				break
			}
		}
		same := true
		for i := range terms {
			if terms[i] == "" {
				terms[i] = first
			}
			if terms[i] != first {
				same = false
			}
		}
		if same {
			return first, true
		}
		r := terms[len(terms)-1]
		for i := len(terms) - 2; i >= 0; i-- {
			r = sIte(sts[i].cond, terms[i], r)
		}
		return e.define(prefix, sort, r), true
	}
	// cells
	cellKeys := map[*ssa.Alloc]bool{}
	for _, s := range sts {
		for k := range s.cells {
			cellKeys[k] = true
		}
	}
	for k := range cellKeys {
		k := k
		srt := e.sortOf(k.Type().(*types.Pointer).Elem())
		if v, ok := pick(func(s *State) (string, bool) { v, ok := s.cells[k]; return v, ok }, srt, "cell"); ok {
			out.cells[k] = v
		}
	}
	mergeStrMap := func(get func(s *State) map[string]string, initial func(k string) string, sortf func(k string) string, dst map[string]string, prefix string) {
		keys := map[string]bool{}
		for _, s := range sts {
			for k := range get(s) {
				keys[k] = true
			}
		}
		var ks []string
		for k := range keys {
			ks = append(ks, k)
		}
		sort.Strings(ks)
		for _, k := range ks {
			k := k
			v, ok := pick(func(s *State) (string, bool) {
				if v, ok := get(s)[k]; ok {
					return v, true
				}
				return initial(k), true
			}, sortf(k), prefix)
			if ok {
				dst[k] = v
			}
		}
	}
	mergeStrMap(func(s *State) map[string]string { return s.heapP }, func(k string) string { return e.getHeapP(newState(), k) }, func(k string) string { return e.heapPSort(k) }, out.heapP, "hp")
	mergeStrMap(func(s *State) map[string]string { return s.heapA }, func(k string) string { return e.getHeapA(newState(), k) }, func(k string) string { return e.heapASort(k) }, out.heapA, "ha")
	// maps: keys carry their sorts; we stored declared sorts in mapSorts
	mergeStrMap(func(s *State) map[string]string { return s.mapD }, func(k string) string { return "MD0." + k }, func(k string) string { return e.mapSorts[k][0] }, out.mapD, "md")
	mergeStrMap(func(s *State) map[string]string { return s.mapV }, func(k string) string { return "MV0." + k }, func(k string) string { return e.mapSorts[k][1] }, out.mapV, "mv")
	mergeStrMap(func(s *State) map[string]string { return s.mapN }, func(k string) string { return "MN0." + k }, func(k string) string { return "(Array Int Int)" }, out.mapN, "mn")
	mergeStrMap(func(s *State) map[string]string { return s.ghost }, func(k string) string { v, _ := e.getGhost(newState(), k); return v }, func(k string) string { return e.ghostDecl[k] }, out.ghost, "gh")
	gk := map[*ssa.Global]bool{}
	for _, s := range sts {
		for k := range s.globals {
			gk[k] = true
		}
	}
	for k := range gk {
		k := k
		srt := e.sortOf(k.Type().(*types.Pointer).Elem())
		if v, ok := pick(func(s *State) (string, bool) { return e.getGlobal(s, k), true }, srt, "g"); ok {
			out.globals[k] = v
		}
	}
	ik := map[*ssa.Range]bool{}
	for _, s := range sts {
		for k := range s.iters {
			ik[k] = true
		}
	}
	for k := range ik {
		k := k
		if v, ok := pick(func(s *State) (string, bool) { v, ok := s.iters[k]; return v, ok }, "Int", "it"); ok {
			out.iters[k] = v
		}
	}
	for k := range ik {
		k := k
		if isString(k.X.Type()) {
			continue
		}
		mt, ok := k.X.Type().Underlying().(*types.Map)
		if !ok {
			continue
		}
		if v, ok := pick(func(s *State) (string, bool) { v, ok := s.visited[k]; return v, ok }, "(Array "+e.sortOf(mt.Key())+" Bool)", "vis"); ok {
			out.visited[k] = v
		}
	}
	if v, ok := pick(func(s *State) (string, bool) { return s.wm, true }, "Int", "wm"); ok {
		out.wm = v
	}
	// locks: must-hold = intersection; differing lock sets are recorded
	out.locks = map[string]bool{}
	for k := range sts[0].locks {
		all := true
		for _, s := range sts[1:] {
			if !s.locks[k] {
				all = false
			}
		}
		if all {
			out.locks[k] = true
		}
	}
	for _, s := range sts {
		if len(s.locks) != len(out.locks) {
			e.note("lock sets differ at a join in %s (intersection used)", e.fname)
		}
	}
	return out
}

// ---- integer constants

func constIntString(v string) (int64, bool) {
	n, err := strconv.ParseInt(v, 10, 64)
	return n, err == nil
}

// hasFreeBound: conservative check that a bound-variable name occurs outside any quantifier that binds it.
func hasFreeBound(term string) bool {
	// collect binder names
	bound := map[string]bool{}
	for i := 0; i+1 < len(term); i++ {
		if term[i] == '(' && term[i+1] == '(' {
			j := i + 2
			for j < len(term) && term[j] != ' ' && term[j] != ')' {
				j++
			}
			bound[term[i+2:j]] = true
		}
	}
	for i := 0; i+2 < len(term); i++ {
		if (i == 0 || term[i-1] == ' ' || term[i-1] == '(') && ((term[i] == 'q' && term[i+1] == '.') || (term[i] == 's' && term[i+1] == 'p' && term[i+2] == '.')) {
			j := i
			for j < len(term) && term[j] != ' ' && term[j] != ')' {
				j++
			}
			if !bound[term[i:j]] {
				return true
			}
		}
	}
	return false
}

// constArray: an array that is zero everywhere. cvc5 only accepts values in (as const ...), so zeros that
// mention uninterpreted constants (str.empty, iface.nil, func.nil) get a named array with an axiom.
func (e *Engine) constArray(elemSort, zero string) string {
	if !strings.Contains(zero, "str.empty") && !strings.Contains(zero, "iface.nil") && !strings.Contains(zero, "func.nil") && !strings.Contains(zero, "zarr.") {
		return fmt.Sprintf("((as const (Array Int %s)) %s)", elemSort, zero)
	}
	name := "zarr." + mangle(elemSort)
	e.sc.Decl("const:"+name, fmt.Sprintf("(declare-const %s (Array Int %s))\n(assert (forall ((i Int)) (! (= (select %s i) %s) :pattern ((select %s i)))))", name, elemSort, name, zero, name))
	return name
}

// nameConst binds a term to a declared constant (usable inside quantifier patterns, unlike define-fun macros).
func (e *Engine) nameConst(prefix, sort, term string) string {
	if !strings.Contains(term, " ") && !strings.Contains(term, "!") {
		return term
	}
	if hasBound(term) {
		return term
	}
	n := e.freshConst(prefix, sort)
	e.sc.Line(fmt.Sprintf("(assert (= %s %s))", n, term))
	return n
}
