package main

import (
	"regexp"
	"strconv"
	"context"
	"encoding/json"
	"fmt"
	"os"
	"path/filepath"
	"sort"
	"strings"
	"sync"
	"time"
)

type KnownEntry struct {
	Kind     string // known | fixed
	Property string
	ID       string
	Text     string
}

type KnownFindings struct {
	Entries []KnownEntry
}

func (k *KnownFindings) active() map[string]bool {
	m := map[string]bool{}
	for _, e := range k.Entries {
		if e.Kind == "known" {
			m[e.ID] = true
		}
	}
	return m
}

func loadKnownFindings(path string) *KnownFindings {
	k := &KnownFindings{}
	data, err := os.ReadFile(path)
	if err != nil {
		return k
	}
	for _, ln := range strings.Split(string(data), "\n") {
		ln = strings.TrimSpace(ln)
		if ln == "" || strings.HasPrefix(ln, "#") {
			continue
		}
		var e KnownEntry
		switch {
		case strings.HasPrefix(ln, "known:"):
			e.Kind = "known"
			ln = strings.TrimSpace(strings.TrimPrefix(ln, "known:"))
		case strings.HasPrefix(ln, "fixed:"):
			e.Kind = "fixed"
			ln = strings.TrimSpace(strings.TrimPrefix(ln, "fixed:"))
		default:
			continue
		}
		var rest []string
		for _, f := range strings.Fields(ln) {
			switch {
			case strings.HasPrefix(f, "property=") && e.Property == "":
				e.Property = strings.TrimPrefix(f, "property=")
			case strings.HasPrefix(f, "id=") && e.ID == "":
				e.ID = strings.TrimPrefix(f, "id=")
			default:
				rest = append(rest, f)
			}
		}
		e.Text = strings.Join(rest, " ")
		k.Entries = append(k.Entries, e)
	}
	return k
}

type PropSpec struct {
	ExpectMinObligations int      `json:"expect_min_obligations"`
	ExpectObligations    []string `json:"expect_obligations"`
	NotDecided           []string `json:"not_decided"`
	Assumptions          []string `json:"assumptions"`
	Bounded              []string `json:"bounded"`
}

func loadPropSpec(cfg *Config) *PropSpec {
	ps := &PropSpec{}
	data, err := os.ReadFile(filepath.Join(cfg.Verif, "spec", cfg.Property+".json"))
	if err != nil {
		return ps
	}
	_ = json.Unmarshal(data, ps)
	return ps
}

type Report struct {
	Property       string
	Tier           string
	Seed           int
	cfg            *Config
	Funcs          []*FuncResult
	Canaries       []*FuncResult
	Lemmas         []*Obligation
	Axioms         []string
	InternalErrs   []string
	Known          *KnownFindings
	ContractSource map[string]string
	LoadS, GenS, SolveS float64
	mods                []Module
	crossAgree, crossUndecided int
	unstable            []string
}

func (r *Report) allObls() []*Obligation {
	var out []*Obligation
	for _, f := range r.Funcs {
		out = append(out, f.Obls...)
		out = append(out, f.Covers...)
	}
	for _, f := range r.Canaries {
		out = append(out, f.Obls...)
	}
	out = append(out, r.Lemmas...)
	return out
}

func (r *Report) solveAll() {
	start := time.Now()
	obls := r.allObls()
	quick, full := 4, 45
	if r.Tier == "thorough" {
		quick, full = 10, 120
	}
	if v, err := strconv.Atoi(os.Getenv("GOVC_FULL_SEC")); err == nil && v > 0 {
		// development only (must-fail corpus): a shorter race; never set by the registered commands
		full = v
	}
	jobs := r.cfg.Jobs
	if jobs < 1 {
		jobs = 1
	}
	var wg sync.WaitGroup
	ch := make(chan *Obligation)
	for i := 0; i < jobs; i++ {
		wg.Add(1)
		go func() {
			defer wg.Done()
			for o := range ch {
				text := o.sc.Render(o.snap, o.goal, o.extra)
				o.Text = text
				if o.Kind != "cover" && (strings.HasSuffix(o.goal, "(assert (not true))")) {
					o.Result = SolverResult{Status: "unsat", Solver: "trivial"}
					continue
				}
				if len(text) > 4<<20 {
					o.Result = SolverResult{Status: "error", Solver: "none", Output: fmt.Sprintf("VC too large: %d bytes (cap 4 MiB)", len(text))}
					continue
				}
				if o.Kind == "cover" {
					// vacuity covers: one solver, short limit; "unknown" leaves the cover undecided (not a failure)
					file := filepath.Join(r.cfg.TmpDir, sanitizeFile(o.Name)+".smt2")
					_ = os.WriteFile(file, []byte(text), 0o644)
					o.Result = runSolver(context.Background(), solverSpecs[0], file, 2, r.Seed)
					continue
				}
				if o.Canary {
					// canaries of known findings are expected NOT to discharge: one solver, short limit
					file := filepath.Join(r.cfg.TmpDir, sanitizeFile(o.Name)+".smt2")
					_ = os.WriteFile(file, []byte(text), 0o644)
					o.Result = runSolver(context.Background(), solverSpecs[0], file, quick, r.Seed)
					continue
				}
				o.Result = Solve(text, o.Name, SolveOpts{QuickSec: quick, FullSec: full, Seed: r.Seed, Dir: r.cfg.TmpDir, Induction: o.Induct})
				if r.Tier == "thorough" && o.Result.Status == "unsat" && o.Result.Solver != "trivial" {
					// thorough tier: (1) an independent solver is asked as well - a `sat` from it is a disagreement and
					// counts as a failure; (2) the same solver is asked again under another seed - an obligation that does
					// not discharge again is listed as unstable in the evidence (not a failure)
					file := filepath.Join(r.cfg.TmpDir, sanitizeFile(o.Name)+".smt2")
					other := solverSpecs[2] // cvc5
					if o.Result.Solver == "cvc5" || o.Result.Solver == "cvc5-ind" {
						other = solverSpecs[0]
					}
					x := runSolver(context.Background(), other, file, 15, r.Seed)
					o.Cross = x.Solver + ":" + x.Status
					if x.Status == "sat" {
						o.Result = SolverResult{Status: "disagreement", Solver: o.Result.Solver + " vs " + x.Solver, Output: "unsat by " + o.Result.Solver + ", sat by " + x.Solver}
					} else if !o.Induct {
						y := runSolver(context.Background(), solverSpecs[0], file, quick+5, r.Seed+7)
						if y.Status != "unsat" {
							o.Unstable = fmt.Sprintf("%s under seed %d: %s", y.Solver, r.Seed+7, y.Status)
						}
					}
				}
				if r.cfg.Verbose {
					fmt.Fprintf(os.Stderr, "  %-8s %-6s %5dms %s\n", o.Result.Status, o.Result.Solver, o.Result.Ms, o.Name)
				}
			}
		}()
	}
	for _, o := range obls {
		ch <- o
	}
	close(ch)
	wg.Wait()
	r.SolveS = time.Since(start).Seconds()
}

type obSample struct {
	Obligation string `json:"obligation"`
	Kind       string `json:"kind"`
	Desc       string `json:"desc,omitempty"`
	Pos        string `json:"pos,omitempty"`
	Result     string `json:"result"`
	Solver     string `json:"solver"`
	Ms         int64  `json:"ms"`
	VCBytes    int    `json:"vc_bytes"`
}

type funcEvidence struct {
	Func        string   `json:"func"`
	File        string   `json:"file"`
	Mode        string   `json:"mode"`
	Obligations int      `json:"obligations"`
	Discharged  int      `json:"discharged"`
	Loops       int      `json:"loops"`
	Decreases   int      `json:"loops_with_decreases"`
	Abstracted  []string `json:"abstracted,omitempty"`
	Models      []string `json:"library_models,omitempty"`
	Contracts   []string `json:"callee_contracts_used,omitempty"`
	PureInSpec  []string `json:"real_functions_used_in_spec,omitempty"`
	Unmodelled  []string `json:"unmodelled_callees_havocked,omitempty"`
	Trusted     string   `json:"trusted,omitempty"`
	RangeObls   int      `json:"range_obligations,omitempty"`
	OverflowAssumed int  `json:"overflow_assumed_ops,omitempty"`
}

func (r *Report) finish(start time.Time) int {
	cfg := r.cfg
	spec := loadPropSpec(cfg)
	replayDir := filepath.Join(cfg.Verif, "replays", r.Property)
	_ = os.RemoveAll(replayDir)
	var violations []string
	var knownLines []string
	total, discharged := 0, 0
	bounded, boundedOK := 0, 0
	var samples []obSample
	var failing []*Obligation
	var fe []funcEvidence
	assumptions := map[string]bool{}
	trusted := map[string]bool{}
	names := map[string]bool{}
	coversSat, coversTotal := 0, 0
	rangeObls := 0
	decreases, loops := 0, 0
	for _, f := range r.Funcs {
		ev := funcEvidence{Func: f.Name, File: f.File, Mode: f.Mode, Abstracted: f.Notes, Models: f.UsedModels, Contracts: f.UsedContracts,
			PureInSpec: f.UsedPure, Unmodelled: f.Unmodelled, RangeObls: f.RangeObls, OverflowAssumed: f.OverflowAssumed, Loops: f.Loops, Decreases: f.Decreases}
		if f.Trusted {
			ev.Trusted = f.TrustedWhy
			trusted[f.Name] = true
		}
		rangeObls += f.RangeObls
		decreases += f.Decreases
		loops += f.Loops
		for _, a := range f.Assumed {
			assumptions[a] = true
		}
		for _, m := range f.UsedModels {
			assumptions["library model (assumed contract): "+m] = true
		}
		for _, m := range f.Unmodelled {
			assumptions["unmodelled callee, result arbitrary, assumed to terminate without panic or caller-visible writes: "+m] = true
		}
		for _, be := range f.BindErrs {
			o := &Obligation{Name: f.Name + ".bind", Func: f.Name, Kind: "bind", Desc: be, Result: SolverResult{Status: "unknown", Solver: "none", Output: be}}
			failing = append(failing, o)
			total++
		}
		for _, o := range f.Obls {
			if o.Canary {
				continue
			}
			names[o.Name] = true
			if o.Bounded {
				bounded++
				if o.Result.Status == "unsat" {
					boundedOK++
				} else {
					failing = append(failing, o)
				}
				continue
			}
			total++
			ev.Obligations++
			if o.Result.Status == "unsat" {
				discharged++
				ev.Discharged++
			} else {
				failing = append(failing, o)
			}
			samples = append(samples, obSample{o.Name, o.Kind, o.Desc, o.Pos, o.Result.Status, o.Result.Solver, o.Result.Ms, len(o.Text)})
		}
		for _, o := range f.Covers {
			coversTotal++
			if o.Result.Status == "sat" {
				coversSat++
			} else if o.Result.Status == "unsat" {
				o.Desc = "VACUOUS: " + o.Desc
				failing = append(failing, o)
				total++
			} else {
				// undecided cover: not a failure, but not counted
			}
		}
		fe = append(fe, ev)
	}
	for _, o := range r.Lemmas {
		names[o.Name] = true
		total++
		if o.Result.Status == "unsat" {
			discharged++
		} else {
			failing = append(failing, o)
		}
		samples = append(samples, obSample{o.Name, o.Kind, o.Desc, o.Pos, o.Result.Status, o.Result.Solver, o.Result.Ms, len(o.Text)})
	}
	for _, a := range r.Axioms {
		assumptions["axiom (assumed, not proved): "+a] = true
	}
	for _, e := range r.InternalErrs {
		o := &Obligation{Name: "govc.internal", Kind: "internal", Desc: e, Result: SolverResult{Status: "error", Output: e}}
		failing = append(failing, o)
		total++
	}
	// expected obligations (vacuity guard)
	if cfg.Only == "" {
		if total < spec.ExpectMinObligations {
			o := &Obligation{Name: "govc.expected-obligation-count", Kind: "vacuity", Desc: fmt.Sprintf("only %d obligations generated, expected at least %d", total, spec.ExpectMinObligations),
				Result: SolverResult{Status: "unknown"}}
			failing = append(failing, o)
			total++
		}
		// names are compared modulo ordinals (#k, .edgeK): an edit that adds a call, a return or a loop before the anchored
		// one renumbers obligations without removing them, and must not look like a vanished proof
		norm := func(n string) string { return reOrdinal.ReplaceAllString(n, "") }
		normNames := map[string]bool{}
		for n := range names {
			normNames[norm(n)] = true
		}
		for _, n := range spec.ExpectObligations {
			if !names[n] && !normNames[norm(n)] {
				o := &Obligation{Name: n + ".missing", Kind: "vacuity", Desc: "expected obligation " + n + " was not generated", Result: SolverResult{Status: "unknown"}}
				failing = append(failing, o)
				total++
			}
		}
	}
	// canaries (known findings)
	canaryFailed := map[string][]string{}
	for _, f := range r.Funcs {
		for _, o := range f.Obls {
			if o.Canary && o.Result.Status != "unsat" {
				canaryFailed[o.KnownID] = append(canaryFailed[o.KnownID], o.Name+"="+o.Result.Status)
			}
		}
	}
	for _, f := range r.Canaries {
		for _, o := range f.Obls {
			if o.Result.Status != "unsat" {
				canaryFailed[o.KnownID] = append(canaryFailed[o.KnownID], o.Name+"="+o.Result.Status)
			}
		}
	}
	crossAgree, crossUndecided := 0, 0
	unstable := []string{}
	for _, o := range r.allObls() {
		if o.Cross != "" {
			if strings.HasSuffix(o.Cross, ":unsat") {
				crossAgree++
			} else {
				crossUndecided++
			}
		}
		if o.Unstable != "" {
			unstable = append(unstable, o.Name+": "+o.Unstable)
		}
	}
	r.crossAgree, r.crossUndecided, r.unstable = crossAgree, crossUndecided, unstable
	knownReported := []string{}
	for _, ke := range r.Known.Entries {
		if ke.Kind != "known" || ke.Property != r.Property {
			continue
		}
		if len(canaryFailed[ke.ID]) > 0 {
			knownLines = append(knownLines, fmt.Sprintf("KNOWN-FINDING: property=%s id=%s %s", r.Property, ke.ID, ke.Text))
			knownReported = append(knownReported, ke.ID)
		}
	}
	// violations
	sort.Slice(failing, func(i, j int) bool { return failing[i].Name < failing[j].Name })
	for _, o := range failing {
		path := filepath.Join(replayDir, sanitizeFile(o.Name)+".json")
		rp := map[string]any{
			"property":   r.Property,
			"obligation": o.Name,
			"kind":       o.Kind,
			"desc":       o.Desc,
			"pos":        o.Pos,
			"solver":     o.Result.Solver,
			"status":     o.Result.Status,
			"solver_output": o.Result.Output,
			"smt2_file":  strings.TrimSuffix(path, ".json") + ".smt2",
		}
		confirmed := false
		if o.Result.Status == "sat" && o.sc != nil {
			model, rr := tryReplay(cfg, r, o)
			if model != nil {
				rp["model"] = model
			}
			if rr != nil {
				rp["replay"] = rr
				confirmed = rr.Confirmed
			}
		}
		rp["failing_input_found"] = confirmed
		_ = writeJSON(path, rp)
		if o.Text != "" {
			_ = os.WriteFile(strings.TrimSuffix(path, ".json")+".smt2", []byte(o.Text), 0o644)
		}
		line := fmt.Sprintf("VIOLATION property=%s replay=%s obligation=%s status=%s", r.Property, path, o.Name, o.Result.Status)
		if !confirmed {
			line += " no-failing-input-found"
		}
		violations = append(violations, line)
	}
	for _, l := range knownLines {
		fmt.Println(l)
	}
	for _, v := range violations {
		fmt.Println(v)
	}
	// evidence
	sort.Slice(samples, func(i, j int) bool { return samples[i].Obligation < samples[j].Obligation })
	tb := []string{
		"golang.org/x/tools v0.29.0 go/packages+go/types+go/ssa translate /repo's sources faithfully",
		"govc's encoding of SSA instructions into SMT-LIB (DESIGN.md 3.3)",
		"SMT solvers: z3 5.1.0 (z3-new), z3 4.8.12, cvc5 1.0.3 - unsat from any one is believed",
	}
	asl := []string{}
	for a := range assumptions {
		asl = append(asl, a)
	}
	sort.Strings(asl)
	for _, nd := range spec.Assumptions {
		asl = append(asl, nd)
	}
	st := map[string]float64{}
	solverTimeMu.Lock()
	for k, v := range solverTime {
		st[k] = float64(v) / 1000
	}
	solverTimeMu.Unlock()
	level := "proof"
	cov := map[string]any{
		"obligations":              total,
		"discharged":               discharged,
		"checker_cmd":              fmt.Sprintf("%s/bin/govc check -property %s -tier %s", cfg.Verif, r.Property, r.Tier),
		"trusted_base":             tb,
		"samples":                  samples,
		"functions_under_contract": fe,
		"lemmas":                   len(r.Lemmas),
		"bounded":                  map[string]any{"obligations": bounded, "discharged": boundedOK, "note": "bounded stand-ins are never counted under obligations/discharged", "items": spec.Bounded},
		"not_decided":              spec.NotDecided,
		"vacuity":                  map[string]any{"covers": coversTotal, "covers_sat": coversSat, "expected_min_obligations": spec.ExpectMinObligations, "expected_named": len(spec.ExpectObligations)},
		"thorough_cross_check":     map[string]any{"second_solver_agrees_unsat": r.crossAgree, "second_solver_undecided": r.crossUndecided, "not_discharged_again_under_another_seed": r.unstable, "note": "thorough tier only: every discharged obligation is also given to an independent solver (a sat answer there is reported as a violation) and re-solved under a second seed"},
		"solver_time_s":            st,
		"phase_s":                  map[string]float64{"load": r.LoadS, "generate": r.GenS, "solve": r.SolveS},
		"range_obligations_justifying_math_ints": rangeObls,
		"termination":              fmt.Sprintf("claimed only for loops with a decreases clause: %d of %d loops", decreases, loops),
		"contracts_source":         r.ContractSource,
		"known_findings_reported":  knownReported,
		"explanation":              "every obligation is generated from /repo's current source by govc (weakest-precondition style symbolic execution over go/ssa) against the contracts in verif_contracts.go and discharged by an SMT solver; obligations/discharged count unbounded proofs only",
	}
	ev := map[string]any{
		"property_id": r.Property,
		"tier":        r.Tier,
		"seed":        r.Seed,
		"level":       level,
		"coverage":    cov,
		"assumptions": asl,
		"wall_s":      time.Since(start).Seconds(),
		"violations":  len(violations),
	}
	if total == 0 || discharged == 0 {
		// schema needs >= 1; an empty run is an internal failure
		ev["level"] = "other"
	}
	if cfg.Only == "" {
		_ = writeJSON(filepath.Join(cfg.Verif, "evidence", r.Property+".json"), ev)
	}
	fmt.Fprintf(os.Stderr, "%s %s: %d obligations, %d discharged, %d bounded, %d violations, %d known findings; load %.1fs gen %.1fs solve %.1fs\n",
		r.Property, r.Tier, total, discharged, bounded, len(violations), len(knownLines), r.LoadS, r.GenS, r.SolveS)
	for _, f := range r.Funcs {
		if cfg.Verbose {
			for _, n := range f.Notes {
				fmt.Fprintf(os.Stderr, "  note[%s]: %s\n", f.Name, n)
			}
		}
	}
	if len(violations) > 0 {
		return 1
	}
	return 0
}

var reOrdinal = regexp.MustCompile(`#(\d+|\*)|\.edge\d+`)

type ReplayResult struct {
	Confirmed bool   `json:"confirmed"`
	Test      string `json:"test_file,omitempty"`
	Output    string `json:"output,omitempty"`
	Note      string `json:"note,omitempty"`
}

func runReplayCmd(cfg *Config, args []string) int {
	if len(args) < 1 {
		fmt.Fprintln(os.Stderr, "replay <file.json>")
		return 2
	}
	data, err := os.ReadFile(args[0])
	if err != nil {
		fmt.Fprintln(os.Stderr, err)
		return 2
	}
	var m map[string]any
	if err := json.Unmarshal(data, &m); err != nil {
		fmt.Fprintln(os.Stderr, err)
		return 2
	}
	fmt.Printf("obligation: %v\nstatus: %v\ndesc: %v\n", m["obligation"], m["status"], m["desc"])
	if smt, ok := m["smt2_file"].(string); ok {
		if _, err := os.Stat(smt); err == nil {
			tmp, _ := os.MkdirTemp("", "govc-replay-")
			defer os.RemoveAll(tmp)
			text, _ := os.ReadFile(smt)
			r := Solve(string(text), "replay", SolveOpts{QuickSec: 10, FullSec: 60, Dir: tmp})
			fmt.Printf("re-solved stored VC: %s (%s, %d ms)\n", r.Status, r.Solver, r.Ms)
		}
	}
	if rp, ok := m["replay"].(map[string]any); ok {
		if tf, ok := rp["test_file"].(string); ok && tf != "" {
			rr := rerunReplayTest(cfg, tf)
			fmt.Printf("replay on the real code: confirmed=%v\n%s\n", rr.Confirmed, rr.Output)
			if rr.Confirmed {
				return 1
			}
		}
	}
	return 0
}
