#!/bin/sh
# usage: check.sh <property id> [quick|thorough]
# exit 0: every obligation generated from /repo's current tree discharged; exit 1: VIOLATION lines printed.
cd "$(dirname "$0")" || exit 2
if [ ! -x bin/govc ]; then ./setup.sh >/dev/null 2>&1 || { echo "setup failed" >&2; exit 2; }; fi
tier="${2:-${VERIF_TIER:-quick}}"
exec ./bin/govc check -property "$1" -tier "$tier" -repo /repo -verif "$(pwd)"
