#!/bin/sh
# Generates the contract files that are copies of one template (C13/C14/C20: generated packages that exist in several exporters).
cd "$(dirname "$0")" || exit 2
for d in otlptrace/otlptracehttp otlptrace/otlptracegrpc otlpmetric/otlpmetrichttp otlpmetric/otlpmetricgrpc otlplog/otlploghttp otlplog/otlploggrpc; do
  dst=contracts/go.opentelemetry.io/otel/exporters/otlp/$d/internal/retry
  mkdir -p $dst && cp templates/retry.contract $dst/verif_contracts.go
done
for d in otlptrace/otlptracegrpc otlpmetric/otlpmetricgrpc otlplog/otlploggrpc; do
  dst=contracts/go.opentelemetry.io/otel/exporters/otlp/$d
  mkdir -p $dst && sed "s/PKGNAME/$(basename $d)/" templates/grpcclient.contract > $dst/verif_contracts.go
done
# the log gRPC exporter keeps its configuration resolvers in the client package itself (C20)
cat templates/logconf_grpc.contract >> contracts/go.opentelemetry.io/otel/exporters/otlp/otlplog/otlploggrpc/verif_contracts.go
for d in otlplog/otlploghttp otlplog/otlploggrpc; do
  dst=contracts/go.opentelemetry.io/otel/exporters/otlp/$d/internal/transform
  mkdir -p $dst && cp templates/logtransform.contract $dst/verif_contracts.go
done
for d in otlptrace/otlptracehttp otlptrace/otlptracegrpc; do
  dst=contracts/go.opentelemetry.io/otel/exporters/otlp/$d/internal/otlpconfig
  mkdir -p $dst && sed "s/PKGNAME/otlpconfig/; s/SIGNAL_/TRACES_/" templates/otlpconf.contract > $dst/verif_contracts.go
done
for d in otlpmetric/otlpmetrichttp otlpmetric/otlpmetricgrpc; do
  dst=contracts/go.opentelemetry.io/otel/exporters/otlp/$d/internal/oconf
  mkdir -p $dst && sed "s/PKGNAME/oconf/; s/SIGNAL_/METRICS_/" templates/otlpconf.contract > $dst/verif_contracts.go
done
for d in otlptrace/otlptracehttp otlptrace/otlptracegrpc otlpmetric/otlpmetrichttp otlpmetric/otlpmetricgrpc; do
  dst=contracts/go.opentelemetry.io/otel/exporters/otlp/$d/internal/envconfig
  mkdir -p $dst && cp templates/envconfig.contract $dst/verif_contracts.go
done
for d in otlpmetric/otlpmetrichttp otlpmetric/otlpmetricgrpc; do
  dst=contracts/go.opentelemetry.io/otel/exporters/otlp/$d/internal/transform
  mkdir -p $dst && cp templates/metrictransform.contract $dst/verif_contracts.go
done
