#!/usr/bin/env python3
"""Totals over the evidence files: obligations, verified function instances, per-property table row data."""
import json, glob
tot_o = tot_f = 0
allf = set()
for f in sorted(glob.glob('/verif/evidence/C*.json')):
    e = json.load(open(f)); c = e['coverage']
    fs = [x['func'] for x in c['functions_under_contract']]
    allf.update(fs)
    tot_o += c['obligations']
    print(e['property_id'], c['obligations'], len(fs), 'known=%d' % len(c.get('known_findings_reported', [])))
print('total obligations (sum over properties)', tot_o, 'distinct function instances under contract', len(allf))
