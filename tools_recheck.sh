#!/bin/sh
# usage: tools_recheck.sh <seed id, e.g. C02c> <property id>: apply the stored seed to /repo, run the quick check, revert; prints violated obligations
id=$1; pid=$2
cd /repo && git apply /verif/seeded/$id/patch.diff || { echo "patch does not apply"; exit 2; }
cd /verif && ./bin/govc check -property $pid > /tmp/recheck_$id.log 2>&1; r=$?
cd /repo && git apply -R /verif/seeded/$id/patch.diff
grep VIOLATION /tmp/recheck_$id.log | sed 's/.*obligation=//' | head -6
echo "check_exit=$r"
cd /repo && git status --short | grep -v '^??' | head -3
