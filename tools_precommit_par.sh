#!/bin/sh
# parallel variant of tools_precommit.sh (4 checks at a time); same environment as the acceptance run
export VERIF_SEED=1 VERIF_TIER=quick
cd /verif && ./tools_sync.sh >/dev/null
ids=$(python3 -c "import json;print(' '.join(c['property_id'] for c in json.load(open('/verif/MANIFEST.json'))['checks']))")
echo $ids | tr ' ' '\n' | xargs -P 4 -I{} sh -c 'rm -f evidence/{}.json; ./check.sh {} quick > /tmp/pre_{}.log 2>&1; rc=$?; echo "{} exit=$rc $(grep -c VIOLATION /tmp/pre_{}.log) violations; $(tail -1 /tmp/pre_{}.log | cut -c1-120)"; [ $rc -eq 0 ]'
rc=$?
./tools_validate.sh | grep -v "^ok"
(cd /repo && git status --short | grep -v '^??' | head -3)
exit $rc
